"""F19 (C04, C08): a screen whose setup() pushes another screen and then reports failure.
ScreenScheduler._process_screen discards `self._screen_stack.pop()` — whatever is on top NOW — instead of the screen
whose setup failed: the innocent pushed screen is thrown away without ever being set up, refreshed or drawn; the failed
screen stays on the stack and is set up again.
Usage: PYTHONPATH=/repo /venv/bin/python F19_failed_setup_after_push.py
Prints 'F19 OK' or 'F19 DEFECT <observed>'; exit status 1 when the defect shows."""
import sys, io, threading


def main():
    from simpleline import App
    from simpleline.render.screen import UIScreen, InputState
    from simpleline.render.screen_handler import ScreenHandler
    LOG = []

    class Details(UIScreen):
        def setup(self, args):
            LOG.append("Details.setup"); return super().setup(args)

        def refresh(self, args=None):
            LOG.append("Details.refresh"); super().refresh(args)

        def show_all(self):
            LOG.append("Details.show"); super().show_all()

        def input(self, args, key):
            return InputState.PROCESSED_AND_CLOSE

    class Hub(UIScreen):
        n = 0

        def setup(self, args):
            Hub.n += 1
            LOG.append("Hub.setup#%d" % Hub.n)
            if Hub.n == 1:
                ScreenHandler.push_screen(details)        # "show the details first" ...
                return False                             # ... and this screen is not usable: discard it
            return super().setup(args)

        def refresh(self, args=None):
            LOG.append("Hub.refresh"); super().refresh(args)

        def show_all(self):
            LOG.append("Hub.show"); super().show_all()

        def input(self, args, key):
            return InputState.PROCESSED_AND_CLOSE

    App.initialize()
    details = Details(); hub = Hub()
    ScreenHandler.schedule_screen(hub)
    sys.stdin = io.StringIO("c\nc\nc\n")
    out = io.StringIO(); old = sys.stdout; sys.stdout = out
    res = {}

    def go():
        try:
            App.run(); res["o"] = "normal"
        except SystemExit:
            res["o"] = "killed"
        except BaseException as e:      # noqa
            res["o"] = "ESC:" + type(e).__name__
    t = threading.Thread(target=go, daemon=True)
    try:
        t.start(); t.join(10)
    finally:
        sys.stdout = old
    # ideal stack: Hub's setup fails -> Hub is discarded, Details (pushed on top of it) is set up, refreshed and drawn
    ok = ("Details.show" in LOG) and ("Hub.show" not in LOG) and LOG.count("Hub.setup#2") == 0
    print("F19", "OK" if ok else "DEFECT", res.get("o"), LOG)
    return 0 if ok else 1


if __name__ == "__main__":
    sys.exit(main())
