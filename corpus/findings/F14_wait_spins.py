"""F14 (C09): InputHandler.wait_on_input() spins for ever once the loops were told to stop.
wait_on_input() loops `while not self._input_received: loop.process_signals(InputReadySignal)`; after
force_quit() (or a close_loop() executed during the wait) process_signals() returns at once without
dispatching anything, so the wait never ends and run() never returns: the application hangs at 100% CPU
instead of quitting.
PYTHONPATH=/repo /venv/bin/python F14_wait_spins.py -> exit 1 if the defect shows."""
import sys, threading, io, os
from simpleline import App
from simpleline.input import InputHandler, input_handler
from simpleline.event_loop import AbstractSignal

class Go(AbstractSignal): pass
class Quit(AbstractSignal): pass

input_handler.InputHandlerRequest._get_input = staticmethod(lambda: threading.Event().wait(60) or "")
App.initialize()
loop = App.get_event_loop()
log = []

def go(s, d):
    h = InputHandler()
    h.get_input("value: ")
    loop.enqueue_signal(Quit(None))        # something asks the application to force-quit while we wait
    h.wait_on_input()
    log.append("wait returned")

loop.register_signal_handler(Go, go)
loop.register_signal_handler(Quit, lambda s, d: loop.force_quit())
loop.enqueue_signal(Go(None))
old = sys.stdout; sys.stdout = io.StringIO()
t = threading.Thread(target=loop.run, daemon=True)
t.start(); t.join(3)
sys.stdout = old
if t.is_alive():
    print("DEFECT: run() has not returned 3 s after force_quit(); the loop thread spins in wait_on_input()")
    os._exit(1)
print("OK", log); os._exit(0)
