"""Replays of the screen-layer defects F6, F7, F11 and of the submission race F10 against /repo.
Usage: PYTHONPATH=/repo /venv/bin/python replay_screens.py F6|F7|F11|F10   (one per process)
Prints '<id> OK' or '<id> DEFECT <observed>'; exit status 1 when the defect shows."""
import sys, io, threading

def session(build, lines, timeout=4):
    from simpleline import App
    from simpleline.render.screen import UIScreen, InputState
    from simpleline.render.screen_handler import ScreenHandler
    from simpleline.input import input_handler
    from simpleline.event_loop import ExitMainLoop, AbstractSignal, event_queue
    LOG = []; LINES = list(lines)
    idle = threading.Event(); done = threading.Event()
    class Stop(AbstractSignal): pass
    oget = event_queue.EventQueue.get
    def gget(self):
        if self._queue.empty(): idle.set()
        return oget(self)
    event_queue.EventQueue.get = gget
    def fake_input():
        idle.wait(5); idle.clear()
        if not LINES:
            LOG.append(("EOF",)); done.wait(30); return ""
        l = LINES.pop(0); LOG.append(("read", l)); return l
    input_handler.InputHandlerRequest._get_input = staticmethod(fake_input)
    App.initialize()
    build(App, UIScreen, InputState, ScreenHandler, LOG)
    out = io.StringIO(); old = sys.stdout; sys.stdout = out
    res = {}
    def go():
        try: App.run(); res["o"] = "normal"
        except SystemExit: res["o"] = "killed"
        except BaseException as e: res["o"] = "ESC:" + type(e).__name__
    t = threading.Thread(target=go, daemon=True)
    try: t.start(); t.join(timeout)
    finally: sys.stdout = old
    return ("HANG" if t.is_alive() else res.get("o")), LOG

def F6():
    def build(App, UIScreen, InputState, SH, LOG):
        class A(UIScreen):
            def input(self, args, key):
                LOG.append(("A.input", key))
                if key == "m": SH.push_screen_modal(B_); LOG.append(("modal returned",)); return InputState.PROCESSED_AND_CLOSE
                return InputState.PROCESSED_AND_CLOSE
        class B(UIScreen):
            def input(self, args, key):
                LOG.append(("B.input", key)); SH.push_screen(A_); return InputState.PROCESSED
        A_ = A(); B_ = B(); SH.schedule_screen(A_)
    o, log = session(build, ["m", "p", "x", "c", "c"])
    ok = ("A.input", "x") in log
    return ok, (o, log)

def F7():
    def build(App, UIScreen, InputState, SH, LOG):
        class A(UIScreen):
            def refresh(self, args=None):
                LOG.append(("A.refresh",)); super().refresh(args)
            def input(self, args, key):
                LOG.append(("A.input", key))
                if key == "m":
                    SH.push_screen_modal(B_); LOG.append(("modal returned",)); return InputState.PROCESSED_AND_REDRAW
                return InputState.PROCESSED_AND_CLOSE
        class B(UIScreen):
            def setup(self, args):
                LOG.append(("B.setup fails",)); return False
        A_ = A(); B_ = B(); SH.schedule_screen(A_)
    o, log = session(build, ["m", "c"])
    i = log.index(("B.setup fails",))
    ok = len(log) > i + 1 and log[i + 1] == ("modal returned",)
    return ok, (o, log)

def F11():
    from simpleline import App
    from simpleline.input import InputHandler, input_handler
    from simpleline.event_loop import ExitMainLoop, AbstractSignal
    from simpleline.event_loop.signals import InputReadySignal
    gate = threading.Event()
    def fake_input():
        gate.wait(5); return "typed"
    input_handler.InputHandlerRequest._get_input = staticmethod(fake_input)
    App.initialize()
    loop = App.get_event_loop()
    got = []
    a = InputHandler(); a.set_callback(lambda v: got.append(("A got", v)))
    b = InputHandler(); b.set_callback(lambda v: got.append(("B got", v)))
    out = io.StringIO(); old = sys.stdout; sys.stdout = out
    try:
        a.get_input("a: ")
        try:
            b.get_input("b: ")
        except KeyError:
            got.append(("B refused",))
        gate.set()
        a.wait_on_input()
    finally:
        sys.stdout = old
    got.append(("A success", a.input_successful(), a.value))
    ok = ("A got", "typed") in got and not any(g[0] == "B got" for g in got)
    return ok, got

def F10():
    from simpleline.event_loop.main_loop import MainLoop
    from simpleline.event_loop import AbstractSignal
    class X(AbstractSignal): pass
    class Nest(AbstractSignal): pass
    loop_thread_go = threading.Event(); submitter_go = threading.Event()
    class L(MainLoop):
        pass
    loop = L()
    # force the context switch: the submitter loads _active_queue for the fallback, then the loop thread
    # closes that level before the submitter calls enqueue() on the loaded object
    real = {"q": loop._active_queue}
    me = {}
    def getter(self):
        q = real["q"]
        if threading.current_thread() is me.get("submitter") and not me.get("done"):
            me["done"] = True
            loop_thread_go.set(); submitter_go.wait(5)
        return q
    def setter(self, v): real["q"] = v
    L._active_queue = property(getter, setter)
    dispatched = []
    loop.register_signal_handler(X, lambda s, d: dispatched.append("X"))
    def nest(s, d):
        # inside the nested level: let the submitter run up to its fallback, then close this level
        t = threading.Thread(target=lambda: loop.enqueue_signal(X(None)), daemon=True)
        me["submitter"] = t; t.start()
        loop_thread_go.wait(5)
        loop.close_loop()
        submitter_go.set(); t.join(5)
    loop.register_signal_handler(Nest, nest)
    dead = []
    def starter(s, d):
        loop.execute_new_loop(Nest(None))
    class Start(AbstractSignal): pass
    class Stop(AbstractSignal): pass
    from simpleline.event_loop import ExitMainLoop
    loop.register_signal_handler(Start, starter)
    def stop(s, d): raise ExitMainLoop()
    loop.register_signal_handler(Stop, stop)
    loop.enqueue_signal(Start(None)); loop.enqueue_signal(Stop(None, 100))
    loop.run()
    ok = dispatched == ["X"]
    return ok, dict(dispatched=dispatched, levels=len(loop._event_queues))

ALL = dict(F6=F6, F7=F7, F11=F11, F10=F10)
if __name__ == "__main__":
    k = sys.argv[1]
    ok, obs = ALL[k]()
    print(k, "OK" if ok else "DEFECT %r" % (obs,))
    sys.stdout.flush()
    import os
    os._exit(0 if ok else 1)
