"""F13 (C03, C05): execute_new_loop() called by a handler that already closed a loop in the same invocation
returns immediately — before the new level is closed — and leaves that level on the stack.
PYTHONPATH=/repo /venv/bin/python F13_newloop_after_close.py   -> prints the observation, exit 1 if the defect shows."""
import sys
from simpleline.event_loop.main_loop import MainLoop
from simpleline.event_loop import AbstractSignal, ExitMainLoop

class Open(AbstractSignal): pass
class Inner(AbstractSignal): pass
class Inner2(AbstractSignal): pass

loop = MainLoop(); log = []

def on_open(s, d):
    loop.execute_new_loop(Inner(None))          # level 1
    log.append("level-1 returned")
    raise ExitMainLoop()

def on_inner(s, d):
    loop.close_loop()                           # closes level 1 ...
    loop.execute_new_loop(Inner2(None))         # ... then opens a new nested loop: must block until it is closed
    log.append("new loop returned with %d levels open, Inner2 handled: %s" % (len(loop._event_queues), "inner2" in log))

loop.register_signal_handler(Open, on_open)
loop.register_signal_handler(Inner, on_inner)
loop.register_signal_handler(Inner2, lambda s, d: (log.append("inner2"), loop.close_loop()))
loop.enqueue_signal(Open(None))
loop.run()
print(log)
bad = any(l.startswith("new loop returned") and "Inner2 handled: False" in l for l in log)
print("DEFECT: the nested loop returned before it was closed" if bad else "OK")
sys.exit(1 if bad else 0)
