"""Replays of the defects F1,F2,F3,F4,F5,F8,F12 (DESIGN.md section 6) against /repo.
Usage: PYTHONPATH=/repo /venv/bin/python replay_simple.py [F1 F2 ...]
Prints one line per finding: '<id> OK' when the property holds, '<id> DEFECT <observed>' otherwise;
exit status 1 when any defect shows."""
import sys, io, contextlib

def F1():
    from simpleline.event_loop.event_queue import EventQueue
    from simpleline.event_loop import AbstractSignal
    class S(AbstractSignal):
        def __init__(self, i, p=0):
            super().__init__(None, p); self.i = i
    q = EventQueue()
    for i in range(4):
        q.enqueue(S(i))
    got = [q.get().i for _ in range(4)]
    return got == [0, 1, 2, 3], got

def F2():
    from simpleline.render.containers import ListRowContainer, KeyPattern
    from simpleline.render.widgets import TextWidget
    fired = []
    c = ListRowContainer(1)
    c.key_pattern = KeyPattern(offset=5)
    for i in range(3):
        c.add(TextWidget("i%d" % i), fired.append, i)
    c.render(20)
    labels = [l.split(")")[0] for l in c.get_lines()]
    r = c.process_user_input(labels[0])
    return (r is True and fired == [0]), (labels, r, fired)

def F3():
    from simpleline.render.widgets import TextWidget
    w = TextWidget("abcd\nef"); w.render(4)
    return w.get_lines() == ["abcd", "ef"], w.get_lines()

def F4():
    from simpleline.render.containers import ListRowContainer
    from simpleline.render.widgets import TextWidget
    def mk(n):
        return ListRowContainer(2, [TextWidget("item number %d" % i) for i in range(n)])
    a = mk(3); a.render(40); a.render(20); la = a.get_lines()
    b = mk(3); b.render(20); lb = b.get_lines()
    c = mk(2); c.render(30); c.add(TextWidget("item number 2")); c.render(30); lc = c.get_lines()
    d = mk(3); d.render(30); ld = d.get_lines()
    return (la == lb and lc == ld), (la, lb, lc, ld)

def F5():
    from simpleline.event_loop.main_loop import MainLoop
    from simpleline.event_loop import AbstractSignal
    class X(AbstractSignal): pass
    loop = MainLoop(); log = []
    loop.register_signal_handler(X, lambda s, d: (log.append("h1"), loop.force_quit()))
    loop.register_signal_handler(X, lambda s, d: log.append("h2"))
    loop.enqueue_signal(X(None))
    loop.run()
    return log == ["h1"], log

def F8():
    from simpleline.render.containers import ListRowContainer
    from simpleline.render.widgets import TextWidget
    c = ListRowContainer(1, [TextWidget(""), TextWidget("b")]); c.render(20)
    return c.get_lines() == ["1)", "2) b"], c.get_lines()

def F12():
    from simpleline.event_loop.main_loop import MainLoop
    from simpleline.event_loop import AbstractSignal
    def mk():
        class X(AbstractSignal): pass
        return X
    X1, X2 = mk(), mk()
    class Go(AbstractSignal): pass
    loop = MainLoop(); log = []
    def go(s, d):
        loop.enqueue_signal(X2(None)); loop.enqueue_signal(X1(None))
        loop.process_signals(return_after=X1)
        log.append("returned")
        raise __import__("simpleline.event_loop").event_loop.ExitMainLoop()
    loop.register_signal_handler(Go, go)
    loop.register_signal_handler(X1, lambda s, d: log.append("x1"))
    loop.register_signal_handler(X2, lambda s, d: log.append("x2"))
    loop.enqueue_signal(Go(None))
    loop.run()
    return log == ["x2", "x1", "returned"], log

ALL = dict(F1=F1, F2=F2, F3=F3, F4=F4, F5=F5, F8=F8, F12=F12)
if __name__ == "__main__":
    bad = 0
    for k in (sys.argv[1:] or ALL):
        ok, obs = ALL[k]()
        print(k, "OK" if ok else "DEFECT %r" % (obs,))
        bad |= (not ok)
    sys.exit(1 if bad else 0)
