#!/venv/bin/python
"""glib_experiments.py — the claims about libglib's main context that coq/theories/GLibSem.v models,
each checked against the REAL library (libglib-2.0.so.0 through the ctypes stand-in harness/glib_shim).

Run:  timeout 60 /venv/bin/python corpus/glib/glib_experiments.py      (exit 0 = every claim holds)

The GLib part of GLibSem.v is a model of an external C library: not verified, only validated — by this
script (hand-made scenarios) and by the C20 correspondence run (thousands of generated sessions).
"""
import sys, os
sys.path.insert(0, os.path.join(os.path.dirname(os.path.abspath(__file__)), "..", "..", "harness", "glib_shim"))
import gi
gi.require_version("GLib", "2.0")
from gi.repository import GLib

FAILED = []


def claim(name, got, want):
    ok = got == want
    print("%-62s %s" % (name, "ok" if ok else "FAILED: got %r want %r" % (got, want)))
    if not ok:
        FAILED.append(name)


def idle(ctx, prio, func, *data):
    s = GLib.idle_source_new()
    s.set_priority(prio)
    s.set_callback(func, *data)
    s.attach(ctx)
    return s


def once(log, tag, extra=None):
    """a callback that logs its tag, runs extra(), and is removed"""
    def cb(_=None):
        log.append(tag)
        if extra:
            extra()
        return False
    return cb


# E1 — one iteration dispatches exactly the ready sources of the numerically lowest priority, in attach order
ctx = GLib.MainContext(); log = []
for tag, p in [("a5", 5), ("b0", 0), ("c0", 0), ("d-3", -3), ("e0", 0), ("f-3", -3)]:
    idle(ctx, p, once(log, tag))
r1 = ctx.iteration(False); l1 = list(log)
r2 = ctx.iteration(False); l2 = log[len(l1):]
r3 = ctx.iteration(False); l3 = log[len(l1) + len(l2):]
r4 = ctx.iteration(False)
claim("E1 batch 1 = lowest priority value, attach order", (r1, l1), (True, ["d-3", "f-3"]))
claim("E1 batch 2", (r2, l2), (True, ["b0", "c0", "e0"]))
claim("E1 batch 3", (r3, l3), (True, ["a5"]))
claim("E1 iteration(False) on an empty context returns False, no block", r4, False)

# E2 — sources attached during a dispatch wait for the next iteration, even when more urgent
ctx = GLib.MainContext(); log = []
idle(ctx, 0, once(log, "a", lambda: (idle(ctx, -20, once(log, "urgent")), idle(ctx, 0, once(log, "late")))))
idle(ctx, 0, once(log, "b"))
ctx.iteration(False); l1 = list(log)
ctx.iteration(False); l2 = log[len(l1):]
ctx.iteration(False); l3 = log[len(l1) + len(l2):]
claim("E2 attach during dispatch: batch unchanged", l1, ["a", "b"])
claim("E2 next iteration takes the more urgent one alone", l2, ["urgent"])
claim("E2 then the late one", l3, ["late"])

# E3 — a recursive iteration skips the in-call source, sees the others, and takes over the rest of the outer batch
ctx = GLib.MainContext(); log = []


def rec():
    log.append("a:in")
    r = ctx.iteration(False)
    log.append("a:rec=%s" % r)
    r = ctx.iteration(False)
    log.append("a:rec2=%s" % r)
    return True                      # stays attached (CONTINUE)


sa = idle(ctx, 0, rec)
idle(ctx, 0, once(log, "b"))
idle(ctx, 0, once(log, "c"))
idle(ctx, 5, once(log, "d5"))
ctx.iteration(False)
claim("E3 recursion: in-call source skipped, outer remainder dispatched once by the inner iteration, outer batch ends",
      log, ["a:in", "b", "c", "a:rec=True", "d5", "a:rec2=True"])
log.clear(); sa.destroy()
claim("E3 nothing left", ctx.iteration(False), False)

# E3b — recursion where the inner iteration works on a more urgent source: the outer remainder is NOT dispatched by
#       the outer iteration afterwards (its pending list was cleared), it waits for a later iteration
ctx = GLib.MainContext(); log = []


def rec2(_=None):
    log.append("a:in")
    idle(ctx, -5, once(log, "u"))
    ctx.iteration(False)
    log.append("a:out")
    return False


idle(ctx, 0, rec2)
idle(ctx, 0, once(log, "b"))
ctx.iteration(False); l1 = list(log)
ctx.iteration(False); l2 = log[len(l1):]
claim("E3b inner iteration dispatched only the urgent source; outer batch abandoned", l1, ["a:in", "u", "a:out"])
claim("E3b the abandoned source is dispatched by the next iteration", l2, ["b"])

# E4 — quit before run is lost (run sets is_running on entry); quit inside a batch lets the batch finish
ctx = GLib.MainContext(); loop = GLib.MainLoop(ctx); log = []
loop.quit()
idle(ctx, 0, once(log, "x"))
idle(ctx, 0, once(log, "y", loop.quit))
idle(ctx, 0, once(log, "z"))
idle(ctx, 1, once(log, "next-batch"))
loop.run()
claim("E4 quit before run is lost; quit inside a batch: the batch completes, no further iteration",
      log, ["x", "y", "z"])
claim("E4 is_running after run", loop.is_running(), False)
log.clear()
idle(ctx, 1, once(log, "w", loop.quit))
loop.run()
claim("E4 the same loop can run again", log, ["next-batch", "w"])

# E5 — a source destroyed while waiting in the current batch is skipped; destroy from its own callback + FALSE is fine
ctx = GLib.MainContext(); log = []
holder = {}
idle(ctx, 0, once(log, "a", lambda: holder["b"].destroy()))
holder["b"] = idle(ctx, 0, once(log, "b"))
idle(ctx, 0, once(log, "c"))
ctx.iteration(False)
claim("E5 destroyed source of the batch is skipped", log, ["a", "c"])
ctx = GLib.MainContext(); log = []
holder = {}
holder["s"] = idle(ctx, 0, once(log, "s", lambda: holder["s"].destroy()))
ctx.iteration(False); ctx.iteration(False)
claim("E5 destroy() inside the own callback", (log, holder["s"].is_destroyed()), (["s"], True))

# E6 — TRUE keeps the source (dispatched again by the next iteration), FALSE removes it
ctx = GLib.MainContext(); log = []
n = [0]


def keep(_=None):
    n[0] += 1
    log.append("k%d" % n[0])
    return n[0] < 3


idle(ctx, 0, keep)
for _ in range(5):
    ctx.iteration(False)
claim("E6 CONTINUE/REMOVE", log, ["k1", "k2", "k3"])

# E7 — contexts are independent; a loop on another context run from inside a callback
c0 = GLib.MainContext(); c1 = GLib.MainContext(); l1_ = GLib.MainLoop(c1); log = []


def outer(_=None):
    log.append("o:in")
    idle(c1, 0, once(log, "i1", lambda: idle(c0, -9, once(log, "to-c0"))))
    idle(c1, 0, once(log, "i2", l1_.quit))
    idle(c1, 0, once(log, "i3"))
    idle(c1, 3, once(log, "i-late"))
    l1_.run()
    log.append("o:out")
    return False


idle(c0, 0, outer)
idle(c0, 0, once(log, "o2"))
c0.iteration(False)
claim("E7 nested loop on its own context; outer batch continues afterwards",
      log, ["o:in", "i1", "i2", "i3", "o:out", "o2"])
log.clear(); c0.iteration(False)
claim("E7 source attached to the outer context from inside", log, ["to-c0"])
claim("E7 leftovers stay in the quit context", c1.pending(), True)

# E8 — an in-call source is skipped by a recursive iteration even when it is the only one: returns False
ctx = GLib.MainContext(); log = []


def alone(_=None):
    log.append(ctx.iteration(False))
    return False


idle(ctx, 0, alone)
ctx.iteration(False)
claim("E8 only the in-call source: recursive iteration finds nothing", log, [False])

# E9 — two nested recursion levels: every in-call source is skipped
ctx = GLib.MainContext(); log = []


def lvl1(_=None):
    log.append("1:in"); ctx.iteration(False); log.append("1:out"); return False


def lvl2(_=None):
    log.append("2:in"); ctx.iteration(False); log.append("2:out"); return False


idle(ctx, 0, lvl1); idle(ctx, 0, lvl2); idle(ctx, 0, once(log, "c")); idle(ctx, 0, once(log, "d"))
ctx.iteration(False)
claim("E9 double recursion", log, ["1:in", "2:in", "c", "d", "2:out", "1:out"])

# E10 — the shim's abort protocol: a BaseException in a callback stops everything and is re-raised after run()
ctx = GLib.MainContext(); loop = GLib.MainLoop(ctx); log = []


class Stop(BaseException):
    pass


def boom(_=None):
    log.append("boom")
    raise Stop()


idle(ctx, 0, once(log, "a")); idle(ctx, 0, boom); idle(ctx, 0, once(log, "never"))
try:
    loop.run()
    log.append("returned")
except Stop:
    log.append("Stop")
claim("E10 BaseException: rest of the batch not entered, re-raised after run()", log, ["a", "boom", "Stop"])
# an ordinary exception is printed and the source removed (PyGObject: PyErr_Print, FALSE)
ctx = GLib.MainContext(); log = []


def err(_=None):
    log.append("err")
    raise RuntimeError("expected-by-experiment")


import io, contextlib
with contextlib.redirect_stderr(io.StringIO()):
    s = idle(ctx, 0, err); idle(ctx, 0, once(log, "after"))
    ctx.iteration(False); ctx.iteration(False)
claim("E10 ordinary exception: printed, source removed, batch continues", (log, s.is_destroyed()), (["err", "after"], True))

print("glib", GLib.glib_version, "-", "ALL CLAIMS HOLD" if not FAILED else "FAILED: %s" % FAILED)
sys.exit(1 if FAILED else 0)
