#!/venv/bin/python
"""witnesses.py — the refutation witnesses of C20 (one session per class of behavioural difference between
MainLoop and GLibEventLoop), in the wire format of coq/theories/drv/Drv_loop.v.

  witnesses.py            print the table
  witnesses.py --coq      print the Gallina definitions (they must appear verbatim in proofs/C20Proofs.v:
                          checks/C20.py verifies that, so the sessions replayed on the two real loops are
                          the sessions the theorem C20_refuted is about)
"""
import json, sys

R = lambda c, h, d=0: [8, c, h, d]       # register handler h (data d) for class c
E = lambda c, p=0, s=None: [0, c, p, [] if s is None else [s]]
N = lambda c, p=0, s=None: [4, c, p, [] if s is None else [s]]
X = lambda c, p=0, s=None: [11, c, p, [] if s is None else [s]]
RAISE, EXIT, FQ, CLOSE = [1], [2], [3], [5]
P = lambda c=None: [6, [] if c is None else [c]]
M = lambda t: [10, t]
IF = lambda k, t, e=(): [9, k, list(t), list(e)]
RUN = [1]
FUEL = 200

# key -> (what, bodies, actions)
W = [
    ("glib-raise-skips-handlers", "a",
     [[RAISE], [M(1)]],
     [[0, R(1, 0), R(1, 1), E(1)], RUN]),
    ("glib-exception-not-overtaking", "b",
     [[RAISE], [M(1)], [M(2)]],
     [[0, R(1, 0), R(2, 1), R(0, 2), E(1), E(2), E(3, 5)], RUN]),
    ("glib-urgent-not-overtaking", "b2",
     [[E(3, -5)], [M(1)], [M(2)]],
     [[0, R(1, 0), R(2, 1), R(3, 2), E(1), E(2)], RUN]),
    ("glib-exit-batch-continues", "c",
     [[EXIT], [M(1)]],
     [[0, R(1, 0), R(2, 1), E(1), E(2)], RUN]),
    ("glib-exit-not-unwinding", "c2",
     [[N(2), M(9)], [EXIT]],
     [[0, R(1, 0), R(2, 1), E(1)], RUN]),
    ("glib-close-no-drain", "d",
     [[N(2), M(9), EXIT], [E(3), CLOSE, M(1)], [M(2)]],
     [[0, R(1, 0), R(2, 1), R(3, 2), E(1)], RUN]),
    ("glib-handler-after-force-quit", "f",
     [[FQ], [M(1)]],
     [[0, R(1, 0), R(1, 1), E(1)], RUN]),
    ("glib-after-force-quit", "f2",
     [[CLOSE], [M(1)]],
     [[0, FQ], [0, R(1, 0), R(1, 1), X(1)], RUN]),
    ("glib-process-one-batch", "g",
     [[IF(1, [P(), M(1)])], [IF(1, [E(2)])]],
     [[0, R(1, 0), R(2, 1), E(1), E(2)], RUN]),
    ("glib-wait-not-stopped", "h",
     [[N(2), M(9)], [CLOSE, P(3), M(1)]],
     [[0, R(1, 0), R(2, 1), E(1)], RUN]),
    ("glib-wait-finishes-batch", "h2",
     [[P(2), M(1)], [M(2)], [M(3)]],
     [[0, R(1, 0), R(2, 1), R(3, 2), E(1), E(2), E(3)], RUN]),
    ("glib-handlers-bound-at-enqueue", "i",
     [[M(1)]],
     [[0, E(1), R(1, 0)], RUN]),
    ("glib-close-last-level", "j",
     [[CLOSE, M(1)]],
     [[0, R(1, 0), E(1)], RUN]),
]

# The six scenarios of /repo/tests/units/main/screen_scheduler_test.py at the level of the loop API: class 1 =
# RenderScreenSignal (source: the scheduler, object 50, registered nowhere), class 2 = CloseScreenSignal (source:
# the screen, objects 100..), handler 0 = ScreenScheduler._process_screen_callback, handler 1 =
# _close_screen_callback; the k-th invocation does what the scheduler did for the k-th screen in the recorded run
# (register_signal_source twice, push modal = execute_new_loop, close modal = close_loop, redraw = enqueue a
# render, empty stack = raise ExitMainLoop); marks 1..4 = the test's BEFORE/AFTER_MODAL_REFRESH/RENDER checkpoints.
REG = lambda o: [7, o]
RENDER = lambda: E(1, 0, 50)
NRENDER = lambda: N(1, 0, 50)
CLOSESIG = lambda o: E(2, 0, o)


def chain(*branches):
    """k-th invocation runs branches[k] (the last one repeats)"""
    if len(branches) == 1:
        return list(branches[0])
    k = len(branches) - 1
    out = list(branches[k])
    for i in range(k - 1, -1, -1):
        out = [IF(i + 1, branches[i], out)]
    return out


SETUP = [0, R(1, 0), R(2, 1), RENDER()]
S = [
    ("replace_screen",
     [chain([REG(100), REG(100), RENDER()], [REG(101), REG(101), CLOSESIG(101)]),
      chain([EXIT])]),
    ("switch_screen",
     [chain([REG(100), REG(100), RENDER()], [REG(101), REG(101), CLOSESIG(101)], [REG(100), CLOSESIG(100)]),
      chain([RENDER()], [EXIT])]),
    ("modal_in_render",
     [chain([REG(100), REG(100), M(3), NRENDER(), M(4), CLOSESIG(100)], [REG(101), REG(101), CLOSESIG(101)]),
      chain([CLOSE], [EXIT])]),
    ("modal_in_refresh",
     [chain([REG(100), REG(100), M(1), NRENDER(), M(2), CLOSESIG(100)], [REG(101), REG(101), CLOSESIG(101)]),
      chain([CLOSE], [EXIT])]),
    ("modal_refresh_and_render",
     [chain([REG(100), REG(100), M(1), NRENDER(), M(2), M(3), NRENDER(), M(4), CLOSESIG(100)],
            [REG(101), REG(101), CLOSESIG(101)], [REG(102), REG(102), CLOSESIG(102)]),
      chain([CLOSE], [CLOSE], [EXIT])]),
    ("modal_render_recursive",
     [chain([REG(100), REG(100), M(3), NRENDER(), M(4), CLOSESIG(100)],
            [REG(101), REG(101), M(3), NRENDER(), M(4), CLOSESIG(101)], [REG(102), REG(102), CLOSESIG(102)]),
      chain([CLOSE], [CLOSE], [EXIT])]),
]


def scenarios():
    return [dict(name=n, case=[FUEL, b, [SETUP, RUN]]) for n, b in S]

# F9(e): the order "handlers, then mark the waiting ticket" is observable only when an exception leaves _run_handlers
# between the two, i.e. when no level is left: handler 2 (in a nested loop opened from outside run()) closes its level
# and waits for class 1; the class-1 signal's handler 0 closes the last level, handler 1 raises -> the except clause's
# enqueue_signal(ExceptionSignal) raises IndexError -> the mark is skipped -> the wait never ends.  With the mark
# made first (as MainLoop does) the wait would return.
MARK_ORDER = dict(key="glib-mark-after-handlers", name="e",
                  case=[FUEL, [[CLOSE], [RAISE], [CLOSE, P(1), M(1)]],
                        [[0, R(1, 0), R(1, 1), R(2, 2), E(1)], [0, N(2)], RUN]])

# The application session of Example C20_application_in_fragment (props/C20.v; format of drv/Drv_screen.v): screen 0 pushes
# screen 1 modally from its first refresh(); "1" goes to screen 1 (default answer: CLOSE), "3" to screen 0 (CLOSE).
APP_EXAMPLE = [600,
               [[[], [[15, 1, [[1, 1, 0]], []]], [], [], [[[49], [[0, 1, 0]], [0]], [[51], [], [2]]], [[], []], 0, 1, 0, 0, 0, 0],
                [[], [], [], [], [[[50], [], [0]]], [[], [[2]]], 0, 1, 0, 0, 0, 0]],
               [[[49]], [[51]]], [], 0, [[0, [3, 0, 0]], [1]]]
APP_EXAMPLE_KEY_EVENTS = [[3, [1, 1]], [7, [1, 0]], [8, [1, 1]], [10, [1, 1]], [3, [0, 0]], [7, [0, 0]], [8, [0, 0]]]

# Regression sessions for the classifier (not part of the Coq witnesses): (expected key, case).
# 1. ExitMainLoop raised under a process_signals() called from OUTSIDE run(): same events on both loops, only the outcome of
#    that top-level call differs (MainLoop: the exception escapes, GLibEventLoop: swallowed) — an instance of F9(c').
EXTRA = [
    ("glib-exit-not-unwinding", [FUEL, [[EXIT]], [[0, R(1, 0), E(1)], [0, P()], RUN]]),
]


def cases():
    return [dict(key=k, name=n, case=[FUEL, b, a]) for k, n, b, a in W]


def coq_opt(o):
    return "None" if not o else "(Some %d)" % o[0]


def coq_z(z):
    return "(%d)%%Z" % z


def coq_cmd(c):
    op = c[0]
    if op == 0:
        return "CmEnqueue %d %s %s" % (c[1], coq_z(c[2]), coq_opt(c[3]))
    if op == 1:
        return "CmRaise"
    if op == 2:
        return "CmExit"
    if op == 3:
        return "CmForceQuit"
    if op == 4:
        return "CmNewLoop %d %s %s" % (c[1], coq_z(c[2]), coq_opt(c[3]))
    if op == 5:
        return "CmCloseLoop"
    if op == 6:
        return "CmProcess %s" % coq_opt(c[1])
    if op == 7:
        return "CmRegSource %d" % c[1]
    if op == 8:
        return "CmRegHandler %d %d %d" % (c[1], c[2], c[3])
    if op == 9:
        return "CmIfCount %d [%s] [%s]" % (c[1], "; ".join(coq_cmd(x) for x in c[2]), "; ".join(coq_cmd(x) for x in c[3]))
    if op == 10:
        return "CmMark %d" % c[1]
    if op == 11:
        return "CmExt %d %s %s" % (c[1], coq_z(c[2]), coq_opt(c[3]))
    raise AssertionError(c)


def coq_defs():
    out = []
    for k, n, b, a in W:
        out.append("(* %s *)" % k)
        out.append("Definition w_%s_bodies : list (list cmd) := [%s]." % (
            n, "; ".join("[%s]" % "; ".join(coq_cmd(c) for c in body) for body in b)))
        acts = []
        for act in a:
            acts.append("ARun" if act[0] == 1 else "ACmds [%s]" % "; ".join(coq_cmd(c) for c in act[1:]))
        out.append("Definition w_%s_acts : list action := [%s]." % (n, "; ".join(acts)))
    out.append("(* %s *)" % MARK_ORDER["key"])
    out.append("Definition w_e_bodies : list (list cmd) := [%s]." % (
        "; ".join("[%s]" % "; ".join(coq_cmd(c) for c in body) for body in MARK_ORDER["case"][1])))
    out.append("Definition w_e_acts : list action := [%s]." % "; ".join(
        "ARun" if act[0] == 1 else "ACmds [%s]" % "; ".join(coq_cmd(c) for c in act[1:]) for act in MARK_ORDER["case"][2]))
    for n, b in S:
        out.append("(* scheduler scenario: %s *)" % n)
        out.append("Definition s_%s_bodies : list (list cmd) := [%s]." % (
            n, "; ".join("[%s]" % "; ".join(coq_cmd(c) for c in body) for body in b)))
    out.append("Definition s_acts : list action := [ACmds [%s]; ARun]." % "; ".join(coq_cmd(c) for c in SETUP[1:]))
    return out


if __name__ == "__main__":
    if "--coq" in sys.argv:
        print("\n".join(coq_defs()))
    else:
        for w in cases() + [MARK_ORDER] + scenarios():
            print(json.dumps(w))
