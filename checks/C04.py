"""C04 — The screen shown is always the top of an honest stack.
Shared machinery: harness/screen_check.py (sessions on the real App/scheduler/screens/input stack in worker
subprocesses vs the extracted ScreenSem model; the extracted acceptor chk_04 of ScreenMon.v on the implementation traces)."""
import screen_check

RULE = ("sessions = a table of screen programs (stack operations, signals, raises, blocking input, ... issued from "
        "input/refresh/show_all/closed, guarded by invocation counters; failing setups; paging; quit dialog) + typed lines "
        "(item keys, c/r/q, junk, empty, EOF), generated mostly plausible with a malformed stream and a property-specific family; "
        "non-trivial per property: see harness/screen_check.py nontrivial()")

MANIFEST = dict(
    text='Proof: the acceptor chk_C04 (every stack primitive is the one announced by the scheduler operation in progress — push/append on top, schedule at the bottom, replace = pop + append inheriting the modality, close = pop of the top — or the discard of an entry whose setup failed; setup/refresh/draw/separator only ever concern the top entry of the ideal stack rebuilt from the events) holds for every session of the Gallina model of ScreenScheduler/ScreenStack/UIScreen on top of the MainLoop interpreter (C04_honest_stack): every table of screen programs, every typed-line sequence, every fuel. Since setup() callbacks can run commands of their own (push / replace / close screens, raise, ...) the theorem carries the hypothesis failing_setup_plain (a screen whose setup() can report failure runs no commands in it); without it the statement is FALSE: C04_failed_setup_after_push_refuted, reproduced on the implementation = known finding F19 (a setup() that pushed a screen and then fails makes the scheduler discard the pushed screen). The return of a setup() with commands and the refresh() that follows concern the entry the setup() was entered for, which need not be the top any more (in_setup_of); nothing is drawn then.',
    note="Trusted: Coq kernel, extraction, harness (screen_worker.py records events through subclasses / name patching and releases typed lines when the loop is idle). " + 'application callbacks are command programs (scmd) over the scheduler API; closed() callbacks that close screens synchronously are outside the model.',
    technique="Coq theorem: a trace acceptor holds for every application session of an interpreter model of the screen layer over the MainLoop model; the same extracted acceptor judges traces of the real implementation; differential correspondence model<->/repo")


def run(chk, tier):
    screen_check.run(chk, tier, 'C04')


def replay(path):
    return screen_check.replay(path, 'C04')
