"""C20 — both event loops drive an application identically.

Every generated session is run FOUR ways: {extracted model, real implementation} x {default loop, GLib loop}.
  (i)  correspondence  model <-> implementation, for each loop, on the WHOLE result (event trace, outcomes, what is
       left pending per level, the level stack).  The GLib side runs the real GLibEventLoop of /repo over the real
       libglib-2.0 (ctypes stand-in for PyGObject, harness/glib_shim) in a worker subprocess (harness/glib_impl.py).
       A disagreement means the model (or, for GLib, the shim) no longer mirrors the code: reported with
       no-failing-input-found unless the property part below also fails in a way the models do not predict.
  (ii) the property on the two REAL loops: outcomes + EHandler/EMark sequence up to the quit.  The statement is false
       of the code as it is (theorem C20_refuted); every difference is classified (harness/c20_diff.py) into the known
       classes of behavioural difference (F9(a)-(j), F13) and reported through chk.violation(key, ...) — a key listed
       as known in known_findings.json prints KNOWN-FINDING — or, when no class matches or the difference is not the
       one the two validated models predict, as a violation.
  (iii) the refutation witnesses of props/C20.v (corpus/glib/witnesses.py) are replayed on the two real loops and
       must differ there, each in its own class; the six screen_scheduler_test scenarios must agree.
  (iv) F9(e) (ticket marked after the handlers in GLib, before them in MainLoop): the GLib model with the
       counterfactual switch mark_first is run on every session; a session on which it changes the observable
       is a witness of (e) (they all involve close_loop() at level 0: the mark is skipped when the except clause of
       _run_handlers itself raises); reported under the known key glib-mark-after-handlers, count in the evidence.
  (vi) APPLICATION sessions (second family): screen specs + typed lines (harness/screen_gen.py) run four ways — real App on
       MainLoop (harness/screen_worker.py), real App on GLibEventLoop over libglib (same worker, VERIF_SCREEN_LOOP=glib,
       typed lines released by the idle gate), ScreenSem on the MainLoop model (`bin/model screen`) and on the GLib model
       (`bin/model gscreen`, GLibApp.v).  Compared: outcomes + the whole sequence of user-visible events (EUser: setup,
       refresh, show, separator, prompt, input delivered to which screen, closed, modal return, stack operations ...)
       up to the quit.  model = implementation for each loop; differences between the two real loops are classified
       from the loop-level events of the same traces into the same known keys.
  (v)  theorem C20_agree_partial: every session for which the extracted `in_fragment` answers true must show the same
       outcomes and the same handler/mark sequence on the two REAL loops (key fragment-agreement otherwise).
"""
import json, os, sys, copy, time, subprocess
import lib, loop_impl, loop_gen, glib_impl, c20_gen
import screen_gen, screen_impl, screen_check, c20_app
import c20_diff as D

sys.path.insert(0, os.path.join(lib.VERIF, "corpus", "glib"))

RULE = ("sessions = handler programs over the loop API (enqueue / raise / exit / force_quit / execute_new_loop / close_loop / "
        "process_signals / registrations, guarded by invocation counters) + top-level calls (harness/loop_gen.py: general, "
        "ties, well-bracketed nesting to depth 4, malformed stream; harness/c20_gen.py: scheduler-like render/close chains with "
        "modal nesting, about a third of them in the fragment of C20_agree_partial) + the witnesses and scheduler scenarios of "
        "corpus/glib/witnesses.py; second family: APPLICATION sessions (harness/screen_gen.py gen_case + gen_focus_case: screen tables, stack "
        "operations, modal pushes from refresh/show/input, typed lines, quit dialogs) on the real App over both loops and on ScreenSem over both "
        "loop models, non-trivial = both real loops show >= 2 screens, return from a modal push and deliver a typed line; each run four ways (model/implementation x MainLoop/GLibEventLoop over real libglib); "
        "non-trivial = a session in which BOTH real loops invoke >= 3 handlers and open >= 1 nested loop")

MANIFEST = dict(
    text=("Partial. Proof (Coq, closed under the global context): (1) the universally quantified statement is FALSE of the code as it is — "
          "C20_refuted and one machine-checked witness session per class of behavioural difference between the MainLoop model and the "
          "GLibEventLoop model (C20_refuted_raise_skips_handlers F9(a), _exception_not_overtaking F9(b), _exit_batch_continues F9(c), "
          "_close_no_drain F9(d), _mark_after_handlers F9(e), C20_refuted_more: nine further classes); (2) C20_agree_partial: for EVERY handler "
          "code, user state, fuel and list of top-level calls in a decidable fragment (one signal pending per level at a time, handlers "
          "registered before the enqueue, no ordinary exception out of a handler, ExitMainLoop only with no nested loop open, close_loop only "
          "inside a nested loop with nothing to drain, no force_quit / process_signals) the GLibEventLoop model ends "
          "every top-level call like the MainLoop model and produces the same user-visible sequence (EHandler/EMark/EUser) up to the quit — by a "
          "simulation relation between queues and GLib contexts; typed input is inside (a foreign submission arriving when the loop is idle); "
          "(3) C20_applications_agree_partial: the same for every APPLICATION (ScreenSem: table of screens, typed lines, quit dialog, actions) whose "
          "run stays in the fragment: same screens shown in the same order, same input lines delivered to the same screens, same handlers; the "
          "six screen_scheduler_test scenarios and a two-screen/modal/typed-input application are in the fragment (Examples). Every witness is replayed on the two real loops (MainLoop; GLibEventLoop over the real "
          "libglib-2.0) and differs there in the same way. Every generated session is run on both models and both implementations: "
          "model = implementation on the whole trace for each loop, every difference between the two real loops falls into a known class, and on "
          "every session in the fragment the two real loops agree."),
    note=("Trusted: Coq kernel, extraction, harness. The GLib part of GLibSem.v (main context: batch = ready sources of the lowest priority value at "
          "the start of an iteration, attach order, recursion skips the in-call source and takes over the outer batch, run sets is_running, quit "
          "before run is lost) is a model of an external C library: NOT verified, validated against the real libglib-2.0.so.0 (2.74) by "
          "corpus/glib/glib_experiments.py and by this correspondence run. PyGObject is not installed: harness/glib_shim is a ctypes binding with "
          "PyGObject's surface (an ordinary exception leaving a callback is printed and answers FALSE; SystemExit ends the session). External "
          "submissions arrive when the iterated context is idle (canonical schedule; other timings are C19's subject). The screen layer above the "
          "loop is not part of this check: 'same screens, same input lines' is covered only through the handler/mark sequence of loop-level sessions."),
    technique=("Coq: two fuel-indexed interpreters over the same handler-program language, refutation by vm_compute witnesses, agreement on a "
               "fragment by a big-step simulation (induction on fuel, fuel monotonicity of the GLib interpreter); "
               "4-way differential run (2 extracted models, 2 real loops, real libglib via ctypes) with a classifier of the first divergence"))

CASE_TIMEOUT = 4.0        # seconds of wall clock for one session on the GLib worker (a normal one takes milliseconds)
MAX_HANGS = 4
RETRY_TIMEOUT = 30.0      # a session that exceeded CASE_TIMEOUT is run once more, alone, with this budget
SUSPECT_FUEL = 300        # model fuel for sessions the real GLib loop did not finish (diverging sessions run out at once)
SUSPECT_TIMEOUT = 20      # seconds for one such model run
PROOFS = os.path.join(lib.VERIF, "coq/theories/proofs/C20Proofs.v")
OUT = {0: "normal", 1: "ExitMainLoop", 2: "Exception", 3: "SystemExit", 4: "blocked", 5: "step-limit", 6: "timeout"}


def pretty(trace, upto=None):
    import loop_check
    return loop_check.pretty(trace, upto)


def fuel_for(*results):
    n = max([len(r[1]) for r in results if isinstance(r, list)] + [0])
    return 150 + 8 * n


def gen_cases(rng, n):
    cases = []
    for i in range(n):
        r = rng.random()
        if i % 5 == 3:
            cases.append(loop_gen.gen_nested_case(rng, rng.choice(["C03", "C09", "C10"])))
        elif i % 11 == 5:
            cases.append(loop_gen.gen_ties_case(rng))
        else:
            cases.append(loop_gen.gen_case(rng, malformed=(r < 0.15), nest=(r > 0.05)))
    for i in range(n // 2):
        cases.append(c20_gen.gen_frag_case(rng))
    return cases


def nontrivial(i, g):
    def ok(res):
        return sum(1 for e in res[1] if e[0] == D.HANDLER) >= 3 and any(e[0] == D.NLENTER for e in res[1])
    return ok(i) and ok(g)


MAX_DEPTH = 25


def max_depth(res):
    """deepest nesting of handler invocations (each costs a handful of Python frames)"""
    d = m = 0
    for e in res[1]:
        if e[0] == D.HANDLER:
            d += 1; m = max(m, d)
        elif e[0] == D.HEND:
            d -= 1
    return m


def run_main(case):
    return loop_impl.run_case(copy.deepcopy(case))


class FourWay(object):
    """results of a batch of cases on both implementations and both models"""

    def __init__(self, cases, worker):
        self.cases, self.impl_m, self.impl_g = [], [], []
        self.dropped = dict(main_steps=0, both_diverge=0, too_deep=0)
        self.suspect = []         # GLib implementation did not finish although MainLoop did: the model decides
        self.hung = []            # GLib implementation exceeded the per-case wall budget (worker killed)
        for c in cases:
            i = run_main(c)
            if len(self.hung) >= MAX_HANGS:
                break                 # every hang costs the full budget: enough evidence, stop here
            if 5 in i[0]:
                self.dropped["main_steps"] += 1
                continue
            g = worker.run(copy.deepcopy(c))
            if isinstance(g, dict):
                raise lib.ModelError("GLib worker failed: %s" % g)
            if 6 in g[0]:
                # wall-clock budget exceeded: once more, alone, with a generous budget (a loaded machine must not produce alarms)
                with glib_impl.Worker(case_timeout=RETRY_TIMEOUT) as w2:
                    g = w2.run(copy.deepcopy(c))
                if isinstance(g, dict):
                    raise lib.ModelError("GLib worker failed: %s" % g)
                if 6 in g[0]:
                    self.hung.append((c, i))
            if max_depth(i) > MAX_DEPTH or (isinstance(g, list) and max_depth(g) > MAX_DEPTH):
                self.dropped["too_deep"] += 1          # CPython's recursion limit is not part of the models
                continue
            c = [fuel_for(i, g), c[1], c[2]]
            if 5 in g[0] or 6 in g[0]:
                self.suspect.append((c, i, g))
                continue
            self.cases.append(c); self.impl_m.append(i); self.impl_g.append(g)
        self.model_m, self.model_g, self.model_mf, self.frag = [], [], [], []
        CH = 2000
        try:
            for a in range(0, len(self.cases), CH):
                self.model_m += lib.model_run("loop", self.cases[a:a + CH], timeout=900)
                self.model_g += lib.model_run("gloop", self.cases[a:a + CH], timeout=900)
                self.model_mf += lib.model_run("gloopmf", self.cases[a:a + CH], timeout=900)
                self.frag += [r == [1] for r in lib.model_run("gloopfrag", self.cases[a:a + CH], timeout=900)]
        except subprocess.TimeoutExpired as e:
            raise lib.ModelError("model runner timed out: %s" % e)
        # sessions the real GLib loop did not finish: legitimate only if the GLib model does not finish them either
        self.unfinished = []
        # The model gets a SMALL fuel bound (its cost grows with the square of the trace; a diverging session needs no more to
        # run out), one session per call with a short timeout.  "The model does not finish within the bound either" (out of
        # fuel with the same trace as far as both go, or no answer in time) is the matching outcome: both diverge.  A runner
        # timeout on such a session is never an alarm by itself.
        for c, i, g in self.suspect:
            try:
                m = lib.model_run("gloop", [[SUSPECT_FUEL, c[1], c[2]]], timeout=SUSPECT_TIMEOUT)[0]
            except (subprocess.TimeoutExpired, lib.ModelError):
                self.dropped["both_diverge"] += 1
                self.dropped["model_no_answer_in_time"] = self.dropped.get("model_no_answer_in_time", 0) + 1
                continue
            k = min(len(g[1]), len(m[1]))
            if 5 in m[0] and (6 in g[0] or (g[1][:k] == m[1][:k] and k > 50)):
                self.dropped["both_diverge"] += 1
            elif 5 in g[0] and 5 not in m[0] and self.only_step_limit(c, g):
                self.dropped["glib_step_limit_only"] = self.dropped.get("glib_step_limit_only", 0) + 1
            else:
                self.unfinished.append((c, i, g, m))

    @staticmethod
    def only_step_limit(c, g):
        """The real GLib loop was merely cut by the harness's step limit on a session that needs more handler invocations
        under GLib than under MainLoop: with ample fuel the GLib model finishes and the implementation's whole trace is a
        prefix of the model's."""
        try:
            m = lib.model_run("gloop", [[200 + 10 * len(g[1]), c[1], c[2]]], timeout=60)[0]
        except subprocess.TimeoutExpired:
            return False
        return 5 not in m[0] and len(g[1]) > 50 and m[1][:len(g[1])] == g[1]


def report_pair(chk, c, i, g, mm, mg, stats):
    """one session, four results"""
    corr_m, corr_g = (i == mm), (g == mg)
    oi, og, omm, omg = D.observable(c, i), D.observable(c, g), D.observable(c, mm), D.observable(c, mg)
    predicted = (oi == omm and og == omg)
    replay = dict(kind="c20", case=c)
    if not corr_m:
        stats["corr_main"] += 1
        chk.violation("corr:main-model", "the MainLoop model and the real MainLoop disagree on a session (whole-trace comparison)",
                      dict(replay, impl=pretty(i[1])[:150], model=pretty(mm[1])[:150], outcomes=[i[0], mm[0]]), found=False)
    if not corr_g:
        stats["corr_glib"] += 1
        chk.violation("corr:glib-model", "the GLibEventLoop model and the real GLibEventLoop over libglib disagree on a session "
                      "(whole-trace comparison): the model, the shim or the code changed",
                      dict(replay, impl=pretty(g[1])[:150], model=pretty(mg[1])[:150], outcomes=[g[0], mg[0]]), found=False)
    if oi == og:
        stats["agree"] += 1
        if omm != omg and predicted is False:
            pass
        return
    # the two real loops differ on this session
    key, desc = D.classify(c, i, g)
    stats["differ"] += 1
    chk.hist("difference=%s" % key)
    k, nm, ng = D.first_divergence(i, g)
    jm = nm[k][1] if k < len(nm) else len(i[1])
    jg = ng[k][1] if k < len(ng) else len(g[1])
    detail = dict(replay, divergence=desc, main=pretty(i[1])[max(0, jm - 12):jm + 4], glib=pretty(g[1])[max(0, jg - 12):jg + 4],
                  observable_main=oi, observable_glib=og)
    if not predicted:
        chk.violation("unpredicted-difference",
                      "the real MainLoop and the real GLibEventLoop differ on a session in a way the two models do not predict "
                      "(outcomes / handler order: MainLoop %s..., GLib %s...)" % (str(oi)[:120], str(og)[:120]), detail, found=True)
        return
    if key is None:
        chk.violation("unclassified-difference:%s/%s" % (D_name(desc["main_next"]), D_name(desc["glib_next"])),
                      "the two loops differ on a session and the first divergence matches none of the known classes: MainLoop goes on with %s, "
                      "GLibEventLoop with %s" % (desc["main_next"], desc["glib_next"]), detail, found=True)
        return
    if key not in stats["keys"]:           # one report per class (lib keeps the first 20 reports only)
        stats["keys"][key] = c
        chk.violation(key, "MainLoop and GLibEventLoop differ (%s): %s" % (key, D.KEYS[key]), detail, found=True)


def D_name(e):
    import loop_check
    return "END" if e is None else loop_check.EV.get(e[0], str(e[0]))


def witnesses_in_proofs(chk):
    import witnesses
    txt = open(PROOFS).read()
    missing = [l for l in witnesses.coq_defs() if l.startswith("Definition") and l not in txt]
    if missing:
        chk.violation("witness-text", "the sessions of corpus/glib/witnesses.py are not the ones props/C20.v is about: %s" % missing[0][:200],
                      dict(kind="witness-text", missing=missing), found=False)
    return witnesses


def run(chk, tier):
    lib.use_repo()
    t0 = time.time()
    rng = chk.rng
    W = witnesses_in_proofs(chk)
    n = dict(quick=5000, thorough=20000)[tier]
    stats = dict(corr_main=0, corr_glib=0, agree=0, differ=0, keys={})
    mf_reported = False
    with glib_impl.Worker(case_timeout=CASE_TIMEOUT) as worker:
        # ---- (iii) witnesses and scenarios
        ws = W.cases()
        fw = FourWay([w["case"] for w in ws], worker)
        if len(fw.cases) != len(ws):
            chk.violation("witness-not-run", "a refutation witness did not finish on an implementation", dict(kind="witness"), found=False)
        else:
            for w, c, i, g, mm, mg in zip(ws, fw.cases, fw.impl_m, fw.impl_g, fw.model_m, fw.model_g):
                chk.count()
                oi, og = D.observable(c, i), D.observable(c, g)
                key = D.classify(c, i, g)[0] if oi != og else None
                if oi == og or key != w["key"] or i != mm or g != mg:
                    chk.violation("witness-not-reproduced:%s" % w["key"],
                                  "the witness of %s (props/C20.v) does not show that difference on the real loops: observables %s / %s, class %s, "
                                  "model=implementation: MainLoop %s, GLib %s" % (w["key"], oi, og, key, i == mm, g == mg),
                                  dict(kind="c20", case=c), found=False)
                report_pair(chk, c, i, g, mm, mg, stats)
                if len(chk.samples) < 2 and w["name"] in ("b", "d"):
                    chk.sample(dict(witness=w["key"], session=c, main=pretty(i[1]), glib=pretty(g[1])))
        # regression sessions of the classifier
        fx = FourWay([c for _, c in W.EXTRA], worker)
        for (key0, _), c, i, g, mm, mg in zip(W.EXTRA, fx.cases, fx.impl_m, fx.impl_g, fx.model_m, fx.model_g):
            chk.count()
            got = D.classify(c, i, g)[0] if D.observable(c, i) != D.observable(c, g) else None
            if got != key0:
                chk.violation("witness-not-reproduced:%s" % key0, "a regression session of class %s is classified as %s" % (key0, got),
                              dict(kind="c20", case=c), found=False)
            report_pair(chk, c, i, g, mm, mg, stats)
        # F9(e): on its witness the real GLib loop behaves as the mark-after model, the mark-first variant differs
        we = W.MARK_ORDER
        fe = FourWay([we["case"]], worker)
        chk.count()
        if not (len(fe.cases) == 1 and fe.impl_g[0] == fe.model_g[0] and fe.impl_m[0] == fe.model_m[0]
                and D.observable(fe.cases[0], fe.model_mf[0]) != D.observable(fe.cases[0], fe.model_g[0])
                and D.observable(fe.cases[0], fe.impl_m[0]) != D.observable(fe.cases[0], fe.impl_g[0])):
            chk.violation("witness-not-reproduced:glib-mark-after-handlers",
                          "the witness of F9(e) (props/C20.v C20_refuted_mark_after_handlers) is not reproduced on the real GLibEventLoop",
                          dict(kind="c20", case=we["case"]), found=False)
        else:
            chk.violation("glib-mark-after-handlers", "GLibEventLoop marks the waiting ticket after the handlers: %s" % D.KEYS["glib-mark-after-handlers"],
                          dict(kind="c20", case=fe.cases[0], observable_glib=D.observable(fe.cases[0], fe.impl_g[0]),
                               observable_mark_first_variant=D.observable(fe.cases[0], fe.model_mf[0])), found=True)
            mf_reported = True
        sc = W.scenarios()
        fs = FourWay([s["case"] for s in sc], worker)
        for s, c, i, g, mm, mg, fr in zip(sc, fs.cases, fs.impl_m, fs.impl_g, fs.model_m, fs.model_g, fs.frag):
            chk.count()
            if nontrivial(i, g):
                chk.nontriv(c)
            if D.observable(c, i) != D.observable(c, g) or i != mm or g != mg or i[0] != [0, 0] or not fr:
                chk.violation("scenario:%s" % s["name"], "scheduler scenario %s: the two real loops (or a model) disagree" % s["name"],
                              dict(kind="c20", case=c), found=(D.observable(c, i) != D.observable(c, g)))
        if len(fs.cases) != len(sc):
            chk.violation("scenario-not-run", "a scheduler scenario did not finish", dict(kind="witness"), found=False)
        # ---- generated sessions
        cases = gen_cases(rng, n)
        fw = FourWay(cases, worker)
        chk.extra["glib_worker"] = dict(spawned=worker.spawned, timeouts=worker.timeouts)
    for k, v in fw.dropped.items():
        chk.hist("discarded:%s" % k, v)
    for c, i, g, m in fw.unfinished[:5]:
        chk.violation("glib-does-not-finish",
                      "the real GLibEventLoop does not finish a session (outcome %s; 6 = no answer within the wall budget, twice) that MainLoop and "
                      "the GLib model finish: MainLoop %s, model %s"
                      % ([OUT.get(o) for o in g[0]], [OUT.get(o) for o in i[0]], [OUT.get(o) for o in m[0]]),
                      dict(kind="c20", case=c, glib_tail=pretty(g[1])[-40:]), found=(D.observable(c, i) != D.observable(c, m)))
    mf_witness = 0
    nfrag = nfrag_nt = 0
    for c, i, g, mm, mg, mf, fr in zip(fw.cases, fw.impl_m, fw.impl_g, fw.model_m, fw.model_g, fw.model_mf, fw.frag):
        chk.count()
        if fr:
            # theorem C20_agree_partial determines the answer: same outcomes, same handler/mark sequence
            nfrag += 1
            nfrag_nt += 1 if nontrivial(i, g) else 0
            if D.observable(c, i) != D.observable(c, g) or i[0] != g[0]:
                chk.violation("fragment-agreement",
                              "a session in the fragment of theorem C20_agree_partial (in_fragment = true) on which the real MainLoop and the "
                              "real GLibEventLoop differ: outcomes %s / %s, handler sequences %s... / %s..." % (
                                  i[0], g[0], str(D.observable(c, i)[1])[:100], str(D.observable(c, g)[1])[:100]),
                              dict(kind="c20", case=c, in_fragment=True), found=True)
        chk.hist("outcome main=%s glib=%s" % (OUT.get(i[0][-1] if i[0] else None), OUT.get(g[0][-1] if g[0] else None)))
        if nontrivial(i, g):
            chk.nontriv(c)
        if len(chk.samples) < 4 and nontrivial(i, g) and len(i[1]) < 80:
            chk.sample(dict(session=c, main=pretty(i[1]), glib=pretty(g[1])))
        report_pair(chk, c, i, g, mm, mg, stats)
        if 5 not in mf[0] and D.observable(c, mf) != D.observable(c, mg):
            mf_witness += 1
            if mf_witness == 1 and not mf_reported:
                chk.violation("glib-mark-after-handlers", "marking the ticket before instead of after the handlers changes the observable of the GLib "
                              "model on this session (F9(e)): %s" % D.KEYS["glib-mark-after-handlers"],
                              dict(kind="c20", case=c, observable_mark_after=D.observable(c, mg), observable_mark_first=D.observable(c, mf)),
                              found=True)
    chk.extra["sessions_compared_four_ways"] = len(fw.cases) + len(ws) + len(sc)
    chk.extra["real_loops_agree"] = stats["agree"]
    chk.extra["real_loops_differ"] = stats["differ"]
    chk.extra["model_impl_disagreements"] = dict(main=stats["corr_main"], glib=stats["corr_glib"])
    chk.extra["example_session_per_key"] = {k: v for k, v in sorted(stats["keys"].items())}
    chk.extra["F9e_sessions_where_mark_order_is_observable"] = mf_witness
    chk.extra["sessions_in_fragment_of_C20_agree_partial"] = dict(total=nfrag, nontrivial=nfrag_nt)
    chk.extra["known_finding_keys"] = sorted(D.KEYS)
    chk.notes.append("level: proof (partial) — refutation + findings + agreement proved on a decidable fragment; GLib itself is a validated model")
    chk.notes.append("wall of the loop-session part: %.1fs" % (time.time() - t0))
    run_apps(chk, tier)


# ------------------------------------------------------------------------------------------------ application sessions
def app_obs(res):
    """outcomes + every user-visible event up to the quit"""
    return [res[0], [e for e in D.upto_quit(res[1]) if e[0] == 19]]


def app_nontrivial(i, g):
    def ok(res):
        us = [e for e in res[1] if e[0] == 19]
        shown = {e[2][1] for e in us if e[1] == 3}
        return len(shown) >= 2 and any(e[1] == 10 for e in us) and any(e[1] == 7 for e in us)
    return ok(i) and ok(g)


def _uses_ops(cmds, ops):
    for c in cmds:
        if c[0] in ops or (c[0] == 15 and (_uses_ops(c[2], ops) or _uses_ops(c[3], ops))):
            return True
    return False


def app_case_supported(case):
    """scmds 19-21 (type-ahead, explicit InputHandler ask/wait) are not interpreted by the GLib branch of screen_worker.py"""
    ops = {19, 20, 21}
    for sp in case[1]:
        if any(_uses_ops(l, ops) for l in (sp[1], sp[2], sp[3], sp[5][0])) or any(_uses_ops(e[1], ops) for e in sp[4]):
            return False
    return not any(a[0] == 0 and _uses_ops(a[1:], ops) for a in case[5])


def gen_app_cases(rng, n):
    cases = []
    for k in range(n):
        r = rng.random()
        cases.append(screen_gen.gen_case(rng, plausible=(r < 0.7), malformed=(r > 0.88)))
    for prop in ("C04", "C05", "C08", "C06", "C07", "C18"):
        for k in range(n // 10):
            cases.append(screen_gen.gen_focus_case(rng, prop))
    return [c[:6] for c in cases if app_case_supported(c)]


def app_only_step_limit(c, b):
    try:
        m = lib.model_run("gscreen", [[400 + 10 * len(b[1])] + c[1:6]], timeout=60)[0]
    except subprocess.TimeoutExpired:
        return False
    return 5 not in m[0] and len(b[1]) > 50 and m[1][:len(b[1])] == b[1]


def run_apps(chk, tier):
    rng = chk.rng
    n = dict(quick=1500, thorough=15000)[tier]
    import witnesses
    cases = [witnesses.APP_EXAMPLE[:6]] + gen_app_cases(rng, n)
    t0 = time.time()
    im = screen_impl.run_cases(cases, nproc=12)
    ig = c20_app.run_cases_glib(cases, nproc=12)
    kept = []
    st = dict(total=len(cases), main_hang=0, step_limit=0, glib_unfinished=0, agree=0, differ=0, corr_main=0, corr_glib=0, nontrivial=0)
    suspects = []
    for c, a, b in zip(cases, im, ig):
        chk.count()
        if a[0] == "ERROR" or b[0] == "ERROR":
            chk.violation("harness-error", "a screen worker failed on an application session: %s" % str((a if a[0] == "ERROR" else b)[1])[:300],
                          dict(kind="c20app", case=c), found=False)
            continue
        if a[0] == "HANG":
            st["main_hang"] += 1; chk.hist("app:discarded:mainloop-hangs(F14)"); continue
        if 5 in a[0]:
            st["step_limit"] += 1; chk.hist("app:discarded:step-limit"); continue
        import screen_check as _sc
        if _sc.handler_nesting(a[1]) > _sc.MAX_NESTING or (b[0] not in ("HANG", "ERROR") and _sc.handler_nesting(b[1]) > _sc.MAX_NESTING):
            chk.hist("app:discarded:handler-nesting"); continue      # CPython's recursion limit would interfere (see screen_check)
        if b[0] == "HANG" or 5 in b[0]:
            suspects.append((c, a, b)); continue
        kept.append(([200 + 8 * max(len(a[1]), len(b[1]))] + c[1:6], a, b))
    # the GLib application does not finish although the MainLoop one does: legitimate only if the GLib model diverges too
    for c, a, b in suspects:
        try:
            m = lib.model_run("gscreen", [[1200] + c[1:6]], timeout=SUSPECT_TIMEOUT)[0]
        except (subprocess.TimeoutExpired, lib.ModelError):
            st["glib_unfinished"] += 1; chk.hist("app:discarded:glib-model-no-answer-in-time"); continue
        if 5 in m[0]:
            st["glib_unfinished"] += 1; chk.hist("app:discarded:glib-diverges-in-model-too")
        elif b[0] != "HANG" and 5 in b[0] and app_only_step_limit(c, b):
            # under GLib the session needs more handler invocations than the worker's step limit (every InputHandler ever created
            # is called for every InputReadySignal); the implementation's whole trace is a prefix of the GLib model's
            st["glib_unfinished"] += 1; chk.hist("app:discarded:glib-step-limit-only(trace-is-prefix-of-model)")
        else:
            again = c20_app.run_alone_glib(c) if b[0] == "HANG" else b
            if again[0] in ("HANG", "ERROR") or 5 in again[0]:
                chk.violation("glib-app-does-not-finish", "the real App on GLibEventLoop does not finish a session that the GLib model "
                              "finishes with outcomes %s (MainLoop: %s)" % (m[0], a[0]), dict(kind="c20app", case=c), found=True)
            else:
                kept.append(([200 + 8 * max(len(a[1]), len(again[1]))] + c[1:6], a, again))
    try:
        mm = lib.model_run("screen", [k[0] for k in kept], timeout=900)
        mg = lib.model_run("gscreen", [k[0] for k in kept], timeout=900)
        fr = [r == [1] for r in lib.model_run("gscreenfrag", [k[0] for k in kept], timeout=900)]
    except subprocess.TimeoutExpired as e:
        raise lib.ModelError("model runner timed out on the application sessions: %s" % e)
    st["in_fragment"] = 0; st["in_fragment_nontrivial"] = 0
    reported = set()
    for (c, a, b), m1, m2, f in zip(kept, mm, mg, fr):
        oa, ob, o1, o2 = app_obs(a), app_obs(b), app_obs(m1), app_obs(m2)
        if app_nontrivial(a, b):
            st["nontrivial"] += 1; chk.nontriv(c)
        if f:
            # theorem C20_applications_agree_partial determines the answer
            st["in_fragment"] += 1
            st["in_fragment_nontrivial"] += 1 if app_nontrivial(a, b) else 0
            if oa != ob:
                chk.violation("fragment-agreement",
                              "an application session in the fragment of theorem C20_applications_agree_partial (in_app_fragment = true) "
                              "behaves differently on the real MainLoop and the real GLibEventLoop: outcomes %s / %s" % (a[0], b[0]),
                              dict(kind="c20app", case=c, in_fragment=True), found=True)
        # full user sequence (not cut at the quit) + final stack for the correspondences
        fa = [a[0], [e for e in a[1] if e[0] == 19], a[2]]
        f1 = [m1[0], [e for e in m1[1] if e[0] == 19], m1[2]]
        if fa != f1:
            st["corr_main"] += 1
            chk.violation("corr:app-main-model", "ScreenSem on the MainLoop model and the real App on MainLoop disagree on the user-visible "
                          "sequence of a session", dict(kind="c20app", case=c, outcomes=[a[0], m1[0]]), found=False)
        if b[:4] != m2[:4]:
            st["corr_glib"] += 1
            chk.violation("corr:app-glib-model", "ScreenSem on the GLibEventLoop model and the real App on GLibEventLoop (over libglib) "
                          "disagree on a session (whole trace)", dict(kind="c20app", case=c, outcomes=[b[0], m2[0]]), found=False)
        if oa == ob:
            st["agree"] += 1
            continue
        st["differ"] += 1
        key, desc = D.classify(c, a, b)
        chk.hist("app:difference=%s" % key)
        ua, ub = oa[1], ob[1]
        k = next((k for k in range(min(len(ua), len(ub))) if ua[k] != ub[k]), min(len(ua), len(ub)))
        detail = dict(kind="c20app", case=c, divergence=desc, outcomes=[a[0], b[0]],
                      user_events_main=[screen_check.show(e) for e in ua[max(0, k - 8):k + 4]],
                      user_events_glib=[screen_check.show(e) for e in ub[max(0, k - 8):k + 4]])
        if oa != o1 or ob != o2:
            chk.violation("unpredicted-difference", "an application behaves differently on the real MainLoop and the real GLibEventLoop in a way "
                          "the two models do not predict", detail, found=True)
        elif key is None:
            chk.violation("unclassified-difference:app:%s/%s" % (D_name(desc["main_next"]), D_name(desc["glib_next"])),
                          "an application shows different user-visible sequences on the two loops and the first loop-level divergence matches "
                          "no known class", detail, found=True)
        elif key not in reported:
            reported.add(key)
            chk.violation(key, "an APPLICATION differs between MainLoop and GLibEventLoop (%s): %s" % (key, D.KEYS[key]), detail, found=True)
        if len(chk.samples) < 6 and key is not None and app_nontrivial(a, b) and not any("application" in str(x) for x in chk.samples):
            chk.sample(dict(application_session=c, difference=key, user_events_main=detail["user_events_main"],
                            user_events_glib=detail["user_events_glib"]), limit=6)
    # the application of Example C20_application_in_fragment: in the fragment, same key events on all four
    ex = [k for k in kept if k[0][1:] == witnesses.APP_EXAMPLE[1:6]]
    okex = False
    if ex:
        k = kept.index(ex[0])
        keyev = lambda r: [[e[1], e[2][:2]] for e in r[1] if e[0] == 19 and e[1] in (3, 7, 8, 10)]
        okex = fr[k] and all(keyev(r) == witnesses.APP_EXAMPLE_KEY_EVENTS and r[0] == [0, 0] for r in (ex[0][1], ex[0][2], mm[k], mg[k]))
    if not okex:
        chk.violation("app-example-not-reproduced", "the application session of Example C20_application_in_fragment does not behave as "
                      "stated on the four back ends", dict(kind="c20app", case=witnesses.APP_EXAMPLE), found=False)
    ncmp = len(kept)
    st["compared"] = ncmp
    st["agreement_rate_percent"] = round(100.0 * st["agree"] / ncmp, 2) if ncmp else None
    chk.extra["application_sessions"] = st
    chk.notes.append("application family: %.1fs" % (time.time() - t0))


def replay_app(c):
    a = screen_impl.run_alone(c[:6])
    b = c20_app.run_alone_glib(c[:6])
    print("outcomes MainLoop / GLib:", a[0], b[0])
    if a[0] in ("HANG", "ERROR") or b[0] in ("HANG", "ERROR"):
        return 1
    if 5 in b[0] and 5 not in a[0] and app_only_step_limit(c, b):
        print("the GLib implementation was only cut by the worker's step limit: its whole trace (%d events) is a prefix of the GLib "
              "model's trace; nothing to compare" % len(b[1]))
        return 0
    c2 = [200 + 8 * max(len(a[1]), len(b[1]))] + c[1:6]
    m1 = lib.model_run("screen", [c2])[0]
    m2 = lib.model_run("gscreen", [c2])[0]
    print("in the fragment of C20_applications_agree_partial: %s" % (lib.model_run("gscreenfrag", [c2])[0] == [1]))
    print("model = implementation on the user-visible sequence: MainLoop %s, GLib %s (GLib whole trace: %s)"
          % (app_obs(a) == app_obs(m1), app_obs(b) == app_obs(m2), b[:4] == m2[:4]))
    oa, ob = app_obs(a), app_obs(b)
    rc = 0 if (app_obs(a) == app_obs(m1) and b[:4] == m2[:4]) else 1
    if oa != ob:
        key, desc = D.classify(c, a, b)
        print("the application behaves DIFFERENTLY on the two loops; class: %s (%s)" % (key, desc))
        k = next((k for k in range(min(len(oa[1]), len(ob[1]))) if oa[1][k] != ob[1][k]), min(len(oa[1]), len(ob[1])))
        print(" MainLoop:"); [print("   ", screen_check.show(e)) for e in oa[1][max(0, k - 10):k + 4]]
        print(" GLib    :"); [print("   ", screen_check.show(e)) for e in ob[1][max(0, k - 10):k + 4]]
        rc = 1
    else:
        print("same user-visible sequence on both loops (%d events)" % len(oa[1]))
    return rc


def replay(path):
    lib.use_repo()
    d = json.load(open(path))
    c = d["replay"].get("case")
    if c is None:
        print("nothing to re-run for this replay (%s)" % d["replay"].get("kind"))
        return 1
    if d["replay"].get("kind") == "c20app":
        return replay_app(c)
    i = run_main(c)
    with glib_impl.Worker(case_timeout=CASE_TIMEOUT) as w:
        g = w.run(copy.deepcopy(c))
    c2 = [max(c[0], fuel_for(i, g)), c[1], c[2]]
    mm = lib.model_run("loop", [c2])[0]
    mg = lib.model_run("gloop", [c2])[0]
    fr = lib.model_run("gloopfrag", [c2])[0] == [1]
    oi, og = D.observable(c, i), D.observable(c, g)
    print("in the fragment of C20_agree_partial: %s" % fr)
    print("outcomes  MainLoop impl/model: %s %s   GLib impl/model: %s %s" % (i[0], mm[0], g[0], mg[0]))
    print("model = implementation:  MainLoop %s   GLibEventLoop %s" % (i == mm, g == mg))
    print("observable MainLoop:", oi)
    print("observable GLib    :", og)
    rc = 0
    if oi != og:
        key, desc = D.classify(c, i, g)
        print("the two real loops DIFFER; class: %s  (first divergence: %s)" % (key, desc))
        k, nm, ng = D.first_divergence(i, g)
        jm = nm[k][1] if k < len(nm) else len(i[1])
        jg = ng[k][1] if k < len(ng) else len(g[1])
        print(" MainLoop:"); [print("   ", l) for l in pretty(i[1])[max(0, jm - 12):jm + 4]]
        print(" GLib    :"); [print("   ", l) for l in pretty(g[1])[max(0, jg - 12):jg + 4]]
        rc = 1
    if i != mm or g != mg or (fr and (oi != og or i[0] != g[0])):
        rc = 1
    return rc
