"""C06 — Each typed line reaches exactly the screen that asked - once, in order, intact.
Shared machinery: harness/screen_check.py (sessions on the real App/scheduler/screens/input stack in worker
subprocesses vs the extracted ScreenSem model; the extracted acceptor chk_06 of ScreenMon.v on the implementation traces)."""
import screen_check

RULE = ("sessions = a table of screen programs (stack operations, signals, raises, blocking input, ... issued from "
        "input/refresh/show_all/closed, guarded by invocation counters; failing setups; paging; quit dialog) + typed lines "
        "(item keys, c/r/q, junk, empty, EOF), generated mostly plausible with a malformed stream and a property-specific family; "
        "non-trivial per property: see harness/screen_check.py nontrivial()")

MANIFEST = dict(
    text="Partial (finding F15). Proof (Coq, closed under the global context), for every session of the model: every ready signal is one the hand-off announced — the most recent requester gets exactly the line the reader thread took (the next typed line, EOF as the empty line), every earlier requester a failure; a line delivered to a screen's request is handed at once and unmodified to input() of that screen; input() is called for nothing else (C06_lines_delivered for chk_C06_noargs, C06_no_duplicate_delivery, C06_delivered_at_once, C06_input_only_for_a_delivered_line, C06_lines_intact). With the comparison of the scheduling arguments the acceptor chk_C06 holds for every session in which each screen is always scheduled with the same arguments (C06_lines_delivered_args_partial); in general it is refuted (C06_args_overwritten_refuted, F15: InputManager keeps one args slot per screen, not per request). 'In the order typed' is not proved as a theorem; it is part of the correspondence (the model's full event trace, in which the lines are taken in order, equals the implementation's).",
    note="Trusted: Coq kernel, extraction, harness (screen_worker.py records events through subclasses / name patching and releases typed lines when the loop is idle). " + "reader-thread timing is the canonical one (the line arrives when the loop is idle); other arrival points are C19's subject; every other screen of the harness takes hidden (password) input; finding F15 (args-overwritten-by-later-request-of-same-screen) is listed in known_findings.json.",
    technique="Coq theorem: a trace acceptor holds for every application session of an interpreter model of the screen layer over the MainLoop model; the same extracted acceptor judges traces of the real implementation; differential correspondence model<->/repo")


def run(chk, tier):
    screen_check.run(chk, tier, 'C06')


def replay(path):
    return screen_check.replay(path, 'C06')
