"""C06 — Each typed line reaches exactly the screen that asked - once, in order, intact.
Shared machinery: harness/screen_check.py (sessions on the real App/scheduler/screens/input stack in worker
subprocesses vs the extracted ScreenSem model; the extracted acceptor chk_06 of ScreenMon.v on the implementation traces)."""
import screen_check

RULE = ("sessions = a table of screen programs (stack operations, signals, raises, blocking input, ... issued from "
        "input/refresh/show_all/closed, guarded by invocation counters; failing setups; paging; quit dialog) + typed lines "
        "(item keys, c/r/q, junk, empty, EOF), generated mostly plausible with a malformed stream and a property-specific family; "
        "non-trivial per property: see harness/screen_check.py nontrivial()")

MANIFEST = dict(
    text="Partial (finding F18: order across loop levels). Proof (Coq, closed under the global context), for every session of the model — including type-ahead and reusable InputHandler objects: every ready signal is one the hand-off announced — the most recent requester gets exactly the line the reader thread took (the next typed line, EOF as the empty line), every earlier requester a failure; a line delivered to a screen's request is handed at once and unmodified to input() of that screen together with the arguments of THAT request; input() is called for nothing else (C06_lines_delivered for the full acceptor chk_C06, C06_delivered_at_once, C06_input_only_for_a_delivered_line, C06_lines_intact; C06_no_duplicate_delivery per handler object). The arguments clause holds since the fix of finding F15 (InputManager kept one args slot per screen; C06_args_overwritten_refuted_legacy exhibits the old behaviour on a legacy copy of the model). 'Lines are delivered in the order typed' is FALSE across loop levels (finding F18, a session reproduced on the implementation: the ready signal of an outer screen waits in the outer level while a modal screen opened in between is served the next line first); it is PROVED for every session whose trace shows no nested loop (C06_lines_in_order_partial: the texts of the successful deliveries, in trace order, embed order-preservingly into the typed lines — no well-formedness hypothesis; C06_inputs_among_deliveries, C06_inputs_in_order_partial for the calls of input(); C06_no_modal_no_nested_loop / C06_lines_in_order_syntactic: a session whose command lists contain no push_screen_modal and that has no quit dialog never opens a nested loop, hence delivers in typed order; C06_order_refuted: the hypothesis is needed); the order of deliveries is also evaluated directly on every implementation trace by the check, the F18 fingerprint being a known finding.",
    note="Trusted: Coq kernel, extraction, harness (screen_worker.py records events through subclasses / name patching and releases typed lines when the loop is idle). " + "reader-thread timing: canonical (the line arrives when the loop is idle) and type-ahead (it arrives before the requesting callback continues); other arrival points are C19's subject; every other screen of the harness takes hidden (password) input, every third has an empty prompt; finding F18 (lines-out-of-order:ready-signal-waits-in-outer-level) is listed in known_findings.json; F15 is fixed (commit ccb066a).",
    technique="Coq theorem: a trace acceptor holds for every application session of an interpreter model of the screen layer over the MainLoop model; the same extracted acceptor judges traces of the real implementation; differential correspondence model<->/repo")


def run(chk, tier):
    screen_check.run(chk, tier, 'C06')


def replay(path):
    return screen_check.replay(path, 'C06')
