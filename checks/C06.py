"""C06 — Each typed line reaches exactly the screen that asked - once, in order, intact.
Shared machinery: harness/screen_check.py (sessions on the real App/scheduler/screens/input stack in worker
subprocesses vs the extracted ScreenSem model; the extracted acceptor chk_06 of ScreenMon.v on the implementation traces)."""
import screen_check

RULE = ("sessions = a table of screen programs (stack operations, signals, raises, blocking input, ... issued from "
        "input/refresh/show_all/closed, guarded by invocation counters; failing setups; paging; quit dialog) + typed lines "
        "(item keys, c/r/q, junk, empty, EOF), generated mostly plausible with a malformed stream and a property-specific family; "
        "non-trivial per property: see harness/screen_check.py nontrivial()")

MANIFEST = dict(
    text="Proof: the acceptor chk_C06 (every ready signal is one the hand-off announced — the most recent requester gets exactly the line the reader thread took, which is the next typed line, EOF as the empty line; a line delivered to a screen's request is handed, at once and unmodified, to input() of that screen with the arguments of the request; input() is called for nothing else) holds for every session of the model (C06_lines_delivered, C06_lines_in_order).",
    note="Trusted: Coq kernel, extraction, harness (screen_worker.py records events through subclasses / name patching and releases typed lines when the loop is idle). " + "reader-thread timing is the canonical one (the line arrives when the loop is idle); other arrival points are C19's subject; a line read but still undelivered when the session ends is checked on the implementation only.",
    technique="Coq theorem: a trace acceptor holds for every application session of an interpreter model of the screen layer over the MainLoop model; the same extracted acceptor judges traces of the real implementation; differential correspondence model<->/repo")


def run(chk, tier):
    screen_check.run(chk, tier, 'C06')


def replay(path):
    return screen_check.replay(path, 'C06')
