"""C08 — Screen lifecycle: set up once, refreshed before every draw, closed once.
Shared machinery: harness/screen_check.py (sessions on the real App/scheduler/screens/input stack in worker
subprocesses vs the extracted ScreenSem model; the extracted acceptor chk_08 of ScreenMon.v on the implementation traces)."""
import screen_check

RULE = ("sessions = a table of screen programs (stack operations, signals, raises, blocking input, ... issued from "
        "input/refresh/show_all/closed, guarded by invocation counters; failing setups; paging; quit dialog) + typed lines "
        "(item keys, c/r/q, junk, empty, EOF), generated mostly plausible with a malformed stream and a property-specific family; "
        "non-trivial per property: see harness/screen_check.py nontrivial()")

MANIFEST = dict(
    text="Proof: the acceptor chk_C08 (setup only for a screen not yet ready, before its refresh, with the entry's args; draw only right after the refresh of the same entry inside one _process_screen; a failed setup is followed at once by the discard of that entry; closed() fires exactly for the pop done by close_screen, immediately, never for replace or discard) holds for every session of the model (C08_lifecycle).",
    note="Since setup() callbacks can run commands of their own, C08_lifecycle / C08_ready_link / C08_frames_balanced carry the hypothesis failing_setup_plain (a screen whose setup() can report failure runs no commands in it); without it: C08_failed_setup_after_push_refuted = known finding F19 (stand-alone replay corpus/findings/F19_failed_setup_after_push.py). C08_setup_begin_once: a setup() with commands is entered only for a screen that is not ready, with the entry's arguments, at the start of a _process_screen. Trusted: Coq kernel, extraction, harness (screen_worker.py records events through subclasses / name patching and releases typed lines when the loop is idle). " + 'a successful setup calls the base setup (sets ready, registers the source); failing setups do not.',
    technique="Coq theorem: a trace acceptor holds for every application session of an interpreter model of the screen layer over the MainLoop model; the same extracted acceptor judges traces of the real implementation; differential correspondence model<->/repo")


def run(chk, tier):
    screen_check.run(chk, tier, 'C08')


def replay(path):
    return screen_check.replay(path, 'C08')
