"""C18 — One outstanding input request unless bypassed; bypass hands off cleanly.
Shared machinery: harness/screen_check.py (sessions on the real App/scheduler/screens/input stack in worker
subprocesses vs the extracted ScreenSem model; the extracted acceptor chk_18 of ScreenMon.v on the implementation traces)."""
import screen_check

RULE = ("sessions = a table of screen programs (stack operations, signals, raises, blocking input, ... issued from "
        "input/refresh/show_all/closed, guarded by invocation counters; failing setups; paging; quit dialog) + typed lines "
        "(item keys, c/r/q, junk, empty, EOF), generated mostly plausible with a malformed stream and a property-specific family; "
        "non-trivial per property: see harness/screen_check.py nontrivial()")

MANIFEST = dict(
    text='Proof: the acceptor chk_C18 (a refusal only while a request is outstanding, naming all outstanding requests oldest first and then the refused one; a reader thread is started iff none runs, otherwise only the prompt is re-printed; on arrival of the line exactly one ready signal per outstanding request — success with the line for the most recent, failure for every earlier one — after which the request stack is empty and no reader runs; a blocking wait returns only after its own ready signal; a wait on an InputHandler object reports the flags and value of the last ready signal delivered to it) holds for every session of the model (C18_input_requests), including sessions with type-ahead (the line arrives before the requesting callback continues) and InputHandler objects used for several requests; C18_ready_consumes_its_entry (per request: every ready signal consumes exactly one matching hand-off entry), C18_wait_reports_last_answer, C18_no_second_ready, C18_refused_names_everyone, C18_reader_started_iff_idle, C18_ready_was_announced, C18_wait_returns_after_answer, C18_handoff_def; C18_answered_at_most_once (per handler, for sessions that use every handler object once — all the framework itself does).',
    note="Trusted: Coq kernel, extraction, harness (screen_worker.py records events through subclasses / name patching and releases typed lines when the loop is idle). " + 'thread join and console echo mode are runtime; arrival timing is canonical (see C06).',
    technique="Coq theorem: a trace acceptor holds for every application session of an interpreter model of the screen layer over the MainLoop model; the same extracted acceptor judges traces of the real implementation; differential correspondence model<->/repo")


def run(chk, tier):
    screen_check.run(chk, tier, 'C18')


def replay(path):
    return screen_check.replay(path, 'C18')
