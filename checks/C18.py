"""C18 — One outstanding input request unless bypassed; bypass hands off cleanly.
Shared machinery: harness/screen_check.py (sessions on the real App/scheduler/screens/input stack in worker
subprocesses vs the extracted ScreenSem model; the extracted acceptor chk_18 of ScreenMon.v on the implementation traces)."""
import screen_check

RULE = ("sessions = a table of screen programs (stack operations, signals, raises, blocking input, ... issued from "
        "input/refresh/show_all/closed, guarded by invocation counters; failing setups; paging; quit dialog) + typed lines "
        "(item keys, c/r/q, junk, empty, EOF), generated mostly plausible with a malformed stream and a property-specific family; "
        "non-trivial per property: see harness/screen_check.py nontrivial()")

MANIFEST = dict(
    text='Proof: the acceptor chk_C18 (a refusal only while a request is outstanding, naming all outstanding requests oldest first and then the refused one; a reader thread is started iff none runs, otherwise only the prompt is re-printed; on arrival of the line exactly one ready signal per outstanding request — success with the line for the most recent, failure for every earlier one — after which the request stack is empty and no reader runs; a blocking wait returns only after its own ready signal; a wait on an InputHandler object reports the flags and value of the last ready signal delivered to it) holds for every session of the model (C18_input_requests), including sessions with type-ahead (the line arrives before the requesting callback continues) and InputHandler objects used for several requests; C18_ready_consumes_its_entry (per request: every ready signal consumes exactly one matching hand-off entry), C18_wait_reports_last_answer, C18_no_second_ready, C18_refused_names_everyone, C18_reader_started_iff_idle, C18_ready_was_announced, C18_wait_returns_after_answer, C18_handoff_def; C18_answered_at_most_once (per handler, for sessions that use every handler object once — all the framework itself does).',
    note="Trusted: Coq kernel, extraction, harness (screen_worker.py records events through subclasses / name patching and releases typed lines when the loop is idle). " + 'thread join and console echo mode are runtime; arrival timing is canonical (see C06).',
    technique="Coq theorem: a trace acceptor holds for every application session of an interpreter model of the screen layer over the MainLoop model; the same extracted acceptor judges traces of the real implementation; differential correspondence model<->/repo")


_REASK_SCRIPT = r"""
import sys, threading, json, io, os
sys.path.insert(0, sys.argv[1])
from simpleline import App
from simpleline.input import input_handler as IH
lines = ["first", "second", "third"]
gate = threading.Semaphore(0)
taken = []
def fake_input():
    gate.acquire()                      # the "user" types a line only when the test lets them
    l = lines.pop(0) if lines else ""
    taken.append(l)
    return l
IH.InputHandlerRequest._get_input = staticmethod(fake_input)
App.initialize()
real_out = sys.stdout; sys.stdout = io.StringIO()
h = IH.InputHandler()
log = []
def cb2(v):
    log.append(["cb2", v])
def cb1(v):
    log.append(["cb1", v])
    h.set_callback(cb2)
    h.get_input("again: ")              # "invalid value, ask again": the SAME handler asks again from inside its answer callback
h.set_callback(cb1)
h.get_input("value: ")
res = {}
def waiter():
    h.wait_on_input()
    res["value"] = h.value; res["ok"] = h.input_successful(); res["taken_at_return"] = list(taken); res["log_at_return"] = list(log)
t = threading.Thread(target=waiter, daemon=True); t.start()
gate.release()                          # first line
t.join(3)
res["returned_after_first_line_only"] = not t.is_alive()
gate.release()                          # second line
t.join(40)
res["returned"] = not t.is_alive()
sys.stdout = real_out
print(json.dumps(res)); sys.stdout.flush()
os._exit(0)
"""


def check_handler_reask(chk):
    """An application's own InputHandler whose answer callback asks again on the SAME handler, then wait_on_input(): the model's
    handler objects carry no callback (DESIGN section 11), so this is judged directly on the implementation — C18's statement for
    it: the wait returns only after the answer to the handler's outstanding (second) request, and then reports that answer."""
    import subprocess, json
    import lib
    p = subprocess.run([lib.PY, "-c", _REASK_SCRIPT, lib.REPO], capture_output=True, text=True, timeout=120, env=lib.ENV)
    chk.count(); chk.hist("handler-reask")
    try:
        r = json.loads(p.stdout.strip().splitlines()[-1])
    except Exception:      # noqa
        r = dict(error=(p.stderr or p.stdout)[-300:])
    ok = (r.get("returned") and not r.get("returned_after_first_line_only") and r.get("value") == "second" and r.get("ok") is True
          and r.get("log_at_return") == [["cb1", "first"], ["cb2", "second"]])
    if not ok:
        chk.violation("handler-reask", "C18_wait_returns_after_answer / C18_wait_reports_last_answer (directly on the implementation): a handler "
                      "whose callback asks again on the same handler: wait_on_input() must return only after the second answer and report it; "
                      "observed %r" % (r,), dict(kind="handler-reask", result=r), found=True)
    else:
        chk.nontriv(dict(handler_reask=r.get("log_at_return")))


def run(chk, tier):
    import lib
    lib.use_repo()
    check_handler_reask(chk)
    screen_check.run(chk, tier, 'C18')


def replay(path):
    import json
    r = json.load(open(path)).get("replay") or {}
    if r.get("kind") == "handler-reask":
        import subprocess, lib
        p = subprocess.run([lib.PY, "-c", _REASK_SCRIPT, lib.REPO], capture_output=True, text=True, timeout=120, env=lib.ENV)
        print(p.stdout.strip())
        try:
            x = json.loads(p.stdout.strip().splitlines()[-1])
        except Exception:      # noqa
            return 1
        return 0 if (x.get("returned") and not x.get("returned_after_first_line_only") and x.get("value") == "second") else 1
    return screen_check.replay(path, 'C18')
