"""C10 — Waiting for a signal wakes up for that signal, and only for it.
Shared machinery: harness/loop_check.py (correspondence model <-> real MainLoop on generated sessions,
then the extracted monitor chk_10 — the acceptor the theorem is about — on the implementation's traces)."""
import loop_check

RULE = ("sessions = handler programs (enqueue / raise / exit / force_quit / nested loop / close_loop / process_signals / "
        "registrations, guarded by invocation counters) + top-level calls, generated mostly well-formed with a malformed "
        "stream (double close, close at level 0, calls after force-quit) and property-specific families (ties, deep nesting); "
        "non-trivial per property: see harness/loop_check.py nontrivial()")

MANIFEST = dict(
    text='Proof: the acceptor ok_C10 (a waiting call returns only when a signal of exactly its class was dispatched after it began — at any nesting depth — or the loops were told to stop; once released it dispatches nothing more in its own frame; the non-waiting form dispatches one priority batch) holds for every session of the model (C10_waiting); ticket-machine lemmas (all waiters of a line released by one mark, none of another line, none taken later), C10_iteration_nonblocking.',
    note="Trusted: Coq kernel, extraction, harness (loop_impl.py records the implementation's events through subclasses/wrappers of public methods and a logging PriorityQueue). " + 'classes are compared by identity (nat ids in the model; the fix 7e1f12d made the Python do the same).',
    technique="Coq theorem: a trace acceptor holds for every session of a fuel-indexed interpreter model of MainLoop; the same extracted acceptor judges traces of the real MainLoop; differential correspondence model<->/repo")


def run(chk, tier):
    loop_check.run(chk, tier, 'C10')


def replay(path):
    return loop_check.replay(path, 'C10')
