"""C02 — Every dispatched signal reaches every handler of its class exactly once.
Shared machinery: harness/loop_check.py (correspondence model <-> real MainLoop on generated sessions,
then the extracted monitor chk_02 — the acceptor the theorem is about — on the implementation's traces)."""
import loop_check

RULE = ("sessions = handler programs (enqueue / raise / exit / force_quit / nested loop / close_loop / process_signals / "
        "registrations, guarded by invocation counters) + top-level calls, generated mostly well-formed with a malformed "
        "stream (double close, close at level 0, calls after force-quit) and property-specific families (ties, deep nesting); "
        "non-trivial per property: see harness/loop_check.py nontrivial()")

MANIFEST = dict(
    text="Proof: the acceptor ok_C02 (dispatch frames: the k-th handler invoked in a frame is the k-th entry (handler, data) of the live registration list of the signal's exact class; a frame closes only when all were started; a failing handler is followed at once by the creation and enqueue of exactly one ExceptionSignal of priority -20 into the active queue and the remaining handlers run; an unhandled ExceptionSignal kills: nothing but unwinding follows, no quit callback) holds for the trace of every session of the model (C02_delivery); C02_exception_overtakes, C02_unhandled_kills, C02_failure_isolated.",
    note="Trusted: Coq kernel, extraction, harness (loop_impl.py records the implementation's events through subclasses/wrappers of public methods and a logging PriorityQueue). " + "handler bodies are arbitrary programs over the loop's public API (prog U); callbacks that catch ExitMainLoop/SystemExit or touch private attributes are outside the model; printing of traceback/stack dump is the event EKill.",
    technique="Coq theorem: a trace acceptor holds for every session of a fuel-indexed interpreter model of MainLoop; the same extracted acceptor judges traces of the real MainLoop; differential correspondence model<->/repo")


def run(chk, tier):
    loop_check.run(chk, tier, 'C02')
    # failures of the screen layer's own handlers (a callback of a screen raises: ExceptionSignal, the application's own
    # exception handler or the kill with traceback and stack dump): whole application sessions, model <-> implementation,
    # and the same acceptor chk_C02 on their traces
    import screen_check
    screen_check.run(chk, tier, "C02")


def replay(path):
    return loop_check.replay(path, 'C02')
