"""C19 — signals may be submitted from any thread: none lost, duplicated or reordered.
Correspondence (L4): the real MainLoop/EventQueue of /repo under a cooperative scheduler
(harness/conc_impl.py: real threads, every shared access gated by the schedule) against the extracted
interleaving semantics Conc.v on the same (thread programs, schedule): per-thread sequence of performed
shared accesses, final place of every signal, dispatch order, locks, levels.  The property is also
evaluated DIRECTLY on the implementation's outcome (duplicates, losses, per-thread order, routing).
A signal lost because a nested level was closed while the submission was in flight is finding F10
(key `signal-lost-at-level-close`, known); every other loss/duplication/reordering/misrouting is a violation."""
import subprocess, json, os, glob, time, itertools
import lib
import conc_impl

RULE = ("case = (loop-thread program over {dispatch, register source, open nested loop, close loop, force_quit}, "
        "1-4 submitter programs of 1-3 signals (priorities with ties, sources registered at 0-2 levels or nowhere), schedule = list of "
        "thread ids at shared-access granularity); random bursty schedules + corpus/conc (F10 and neighbours) + (thorough) every "
        "stutter-free interleaving of small configurations enumerated by the extracted model; "
        "non-trivial = another thread performs a shared access between the first and the last shared access of one submission")

MANIFEST = dict(
    text='Proof: over a small-step interleaving semantics of exactly the shared accesses of enqueue_signal / execute_new_loop / close_loop / force_quit / register_signal_source / the dispatching get (Conc.v), for every number of threads, all programs and every schedule: each signal is in exactly one place (C19_conservation, C19_no_duplication), nothing is lost when no level is closed or force-quit concurrently (C19_all_dispatched_partial), equal-priority signals of one thread leave a queue in submission order (C19_thread_order), a registered source routes to the innermost registered level whatever the loop thread does (C19_routing), no deadlock (C19_no_deadlock, C19_no_deadlock_loop, C19_lock_holders), a schedule and its sub-schedule of enabled turns reach the same state (C19_stutter_free); the gap between close_loop() and the return of its handler, in which _run_loop is False, is a schedule point of its own and a submission is the same whatever that flag is (C19_submission_ignores_run_loop, C19_submitter_ignores_run_loop); the F10 loss at a concurrent close_loop is exhibited (C19_lost_at_close_refuted, C19_lost_between_drain_and_pop).  The model is tied to /repo on every run by executing the real MainLoop under a cooperative scheduler on the same schedules, including schedules that put submissions into the close gap.',
    note=("Trusted: Coq kernel; extraction; harness (instance-level lock/queue/counter/list/set wrappers, scheduler); CPython executes each single "
          "shared access atomically (GIL, queue.Queue's mutex, itertools.count.__next__), sequential consistency, threading.Lock semantics: modelled, "
          "not verified.  Known finding F10: a signal in flight when its level is closed is lost (signal-lost-at-level-close)."),
    technique="Coq theorems by induction over schedules of an interleaving semantics + differential run of the real loop under a cooperative scheduler")

CORPUS = os.path.join(lib.VERIF, "corpus", "conc")
KNOWN_KEY = "signal-lost-at-level-close"
FIELDS = ["trace", "pend", "disp", "drop", "state", "evq", "qlocks", "srcs", "threads", "stuck"]


# ------------------------------------------------------------------ model side
def decode_model(m):
    trace, pend, disp, drop, putlog, state, evq, qlocks, srcs, threads, stuck = m
    return dict(trace=trace, pend=sorted(pend, key=lambda e: (e[0], e[1], e[2])), disp=disp, drop=drop, putlog=putlog,
                state=state, evq=evq, qlocks=qlocks, srcs=sorted(srcs), threads=threads, stuck=stuck)


def model_cases(cases):
    return [decode_model(m) for m in lib.model_run("conc", [[c["progs"], c["sched"]] for c in cases])]


def differing(impl, model):
    return [f for f in FIELDS if impl.get(f) != model.get(f)]


# ------------------------------------------------------------------ property, directly on the implementation's outcome
def submissions(case):
    """sid -> (tid, index in the thread's program, prio, src)"""
    out = {}
    for tid, prog in enumerate(case["progs"]):
        for k, a in enumerate(prog):
            if a[0] in (0, 3):
                out[a[1]] = (tid, k, a[2], a[3][0] if a[3] else None)
    return out


def evaluate(case, r):
    """-> list of (key, what).  Uses only what was observed on the implementation."""
    out = []
    subs = submissions(case)
    trace = r["trace"]
    first_put = {}             # sid -> (tid, q, position)
    popped, cleared = set(), False
    for pos, ev in enumerate(trace):
        if ev[1] == 9 and ev[3] not in first_put:
            first_put[ev[3]] = (ev[0], ev[2], pos)
        if ev[1] == 19 and ev[2] >= 0:
            popped.add(ev[2])
        if ev[1] == 22:
            cleared = True
    fq, run_loop, active, nq, mlock = r["state"]
    live = set(r["evq"]) | {active}
    pend_sids = [e[3] for e in r["pend"]]
    held = [s for th in r["threads"] for s in th[5]]
    unput = [s for th in r["threads"] for s in th[4]]
    allplaces = pend_sids + held + r["disp"] + r["drop"] + unput
    # no duplication: every submitted signal in exactly one place
    for sid in subs:
        n = allplaces.count(sid)
        if n > 1:
            where = [k for k, l in (("pending", pend_sids), ("held", held), ("dispatched", r["disp"]), ("dropped", r["drop"]),
                                    ("unput", unput)) if sid in l]
            out.append(("signal-duplicated", "signal %d is in %d places %s (C19_conservation)" % (sid, n, where)))
        elif n == 0:
            out.append(("signal-vanished", "signal %d is in no place at all: not pending, dispatched, discarded or unsubmitted "
                        "(C19_conservation)" % sid))
    for sid in set(allplaces):
        if sid not in subs:
            out.append(("signal-invented", "signal %d was never submitted" % sid))
    # losses: pending in a queue object the loop no longer knows
    for q, prio, cnt, sid in r["pend"]:
        if q in live:
            continue
        if fq:
            continue                      # force_quit discards everything pending, by design
        if q in popped:
            out.append((KNOWN_KEY, "signal %d was put into queue object %d whose level was closed (popped) while the submission "
                        "was in flight or pending: it will never be dispatched (F10)" % (sid, q)))
        else:
            out.append(("signal-lost", "signal %d sits in queue object %d which is neither in _event_queues %s nor _active_queue %d "
                        "although that level was never closed (C19_all_dispatched_partial)" % (sid, q, r["evq"], active)))
    # a signal discarded although _force_quit was never set
    if r["drop"] and not any(ev[1] == 21 for ev in trace):
        out.append(("signal-dropped", "signals %s (sources %s) were discarded — enqueue_signal returned without putting them into any "
                    "queue — although force_quit() was never called%s; the only discard the proved model allows is after reading "
                    "_force_quit = True (C19_conservation's places, C19_all_dispatched_partial, C19_submission_ignores_run_loop)"
                    % (r["drop"], [subs[x][3] for x in r["drop"] if x in subs],
                       " (a submission fell between close_loop() and the return of its handler, _run_loop = False)" if in_gap(r) else "")))
    # per-thread order among equal priorities routed to the same queue
    disp_pos = {}
    for i, sid in enumerate(r["disp"]):
        if sid in disp_pos:
            out.append(("signal-duplicated", "signal %d dispatched twice (C19_conservation)" % sid))
        disp_pos.setdefault(sid, i)
    by_thread = {}
    for sid, (tid, k, prio, src) in subs.items():
        by_thread.setdefault(tid, []).append((k, sid, prio))
    for tid, l in by_thread.items():
        l.sort()
        for (k1, s1, p1), (k2, s2, p2) in itertools.combinations(l, 2):
            if p1 != p2 or s1 not in first_put or s2 not in first_put or first_put[s1][1] != first_put[s2][1]:
                continue
            if s2 in disp_pos and (s1 not in disp_pos or disp_pos[s1] > disp_pos[s2]):
                out.append(("thread-order", "thread %d submitted %d before %d (priority %d, both into queue %d) but %d was "
                            "dispatched first: dispatch order %s (C19_thread_order)" % (tid, s1, s2, p1, first_put[s1][1], s2, r["disp"])))
    # routing: replay levels and registrations along the observed trace
    evq, srcs = [0], set()
    snap = {}                 # tid -> (levels, sources) when it created the routing iterator under the main lock
    quit_seen = False
    for pos, ev in enumerate(trace):
        t, k = ev[0], ev[1]
        if k == 16:
            evq.append(ev[2])
        elif k == 19 and ev[2] >= 0 and evq:
            evq.pop()
        elif k == 22:
            evq = []
            quit_seen = True
        elif k == 14:
            srcs.add((ev[2], ev[3]))
        elif k == 3:
            snap[t] = (list(evq), set(srcs))
        elif k == 9 and ev[3] in subs and first_put.get(ev[3], (None, None, -1))[0] == t and t in snap:
            sid, q = ev[3], ev[2]
            if first_put[sid][2] != pos:
                continue      # a put back
            levels, regs = snap.pop(t)
            src = subs[sid][3]
            if src is None or quit_seen:
                continue
            owners = [i for i, lv in enumerate(levels) if (lv, src) in regs]
            if not owners:
                continue
            if q not in levels or (q, src) not in srcs or levels.index(q) < owners[-1]:
                out.append(("misrouted", "signal %d (source %d registered at levels %s of %s when its submitter held the main lock) "
                            "was put into queue %d (C19_routing)" % (sid, src, [levels[i] for i in owners], levels, q)))
    if r.get("stuck"):
        out.append(("deadlock", "threads are blocked on each other: %s (C19_no_deadlock)" % r["threads"]))
    return out


def nontrivial(r):
    """a context switch inside a submission: another thread's access between the first and last access of one enqueue_signal"""
    trace = r.get("trace", [])
    start = {}
    for pos, ev in enumerate(trace):
        t, k = ev[0], ev[1]
        if k == 1:
            start[t] = pos
        elif t in start and (k == 9 or k == 10):
            if any(e[0] != t for e in trace[start[t]:pos]):
                return True
    return False


def in_gap(r):
    """some submitter started a submission (read _force_quit) while the loop thread sat between close_loop() and the
    return of its handler, i.e. between the loop thread's access preceding a (27) and that (27)"""
    trace = r.get("trace", [])
    last0 = None
    for j, ev in enumerate(trace):
        if ev[0] != 0:
            continue
        if ev[1] == 27 and last0 is not None and any(e[0] != 0 and e[1] == 1 for e in trace[last0 + 1:j]):
            return True
        last0 = j
    return False


# ------------------------------------------------------------------ generators
PRIOS = [-5, 0, 0, 0, 0, 1]


def steps_of_submit(depth):
    return 9 + 4 * depth


def gen_case(rng, nsub=None, maxsig=3, allow_close=True, allow_quit=True):
    nsub = nsub or rng.choice([1, 2, 2, 3, 3, 4])
    sid = itertools.count(1)
    objs = [1, 2, 3]

    def sig(kind):
        src = rng.choice([[], [], [rng.choice(objs)], [rng.choice(objs)]])
        return [kind, next(sid), rng.choice(PRIOS), src]
    loop = []
    depth = 1
    wellformed = rng.random() < 0.75
    n = rng.randrange(2, 9)
    for _ in range(rng.randrange(0, 3)):
        loop.append([2, rng.choice(objs)])
    for _ in range(n):
        x = rng.random()
        if x < 0.40:
            loop.append([1])
        elif x < 0.55:
            loop.append([2, rng.choice(objs)])
        elif x < 0.75:
            if depth < 3:
                loop.append(sig(3))
                depth += 1
        elif x < 0.93:
            if allow_close and (depth > 1 or not wellformed):
                loop.append([4])
                depth = max(depth - 1, 0)
        elif allow_quit and not wellformed:
            loop.append([5])
    progs = [loop]
    for _ in range(nsub):
        progs.append([sig(0) for _ in range(rng.randrange(1, maxsig + 1))])
    # schedule: bursts
    total = sum(steps_of_submit(2) * len(p) for p in progs[1:]) + 8 * len(loop)
    sched = []
    nthr = len(progs)
    if rng.random() < 0.5:
        sched += [0] * rng.randrange(0, 12)         # let the loop thread register / open first
    while len(sched) < total * 1.2:
        t = rng.randrange(nthr)
        b = rng.choice([1, 1, 1, 2, 2, 3, 4, 6, 9, 14])
        sched += [t] * b
    if rng.random() < 0.7:                          # run everything to completion
        for _ in range(3):
            for t in list(range(1, nthr)) + [0]:
                sched += [t] * 60
    return dict(progs=progs, sched=sched)


def f10_cases():
    """The F10 schedule and its neighbours (the switch one or two accesses earlier / later)."""
    progs = [[[3, 1, 0, []], [4]], [[0, 2, 0, []]]]
    out = []
    for a in range(10, 18):            # accesses of the submitter before the loop thread closes the level
        for b in range(0, 9):          # accesses of close_loop (+ the handler's return) before the submitter resumes
            out.append(dict(progs=progs, sched=[0] * 20 + [1] * a + [0] * b + [1] * 20 + [0] * 10, note="F10 a=%d b=%d" % (a, b)))
    return out


def routing_cases():
    """Sources registered at one or both of two open levels; the loop thread tries to close / register while a
    submitter is inside the routing loop (on the unchanged code the lock makes those turns stutters)."""
    out = []
    # source 1 registered at level 0 only; nested level open; close_loop attempted during the routing loop
    progs = [[[2, 1], [3, 9, 0, []], [4], [1], [1]], [[0, 1, 0, [1]]]]
    for a in range(1, 12):
        for b in (3, 5, 7, 8):
            out.append(dict(progs=progs, sched=[0] * 23 + [1] * a + [0] * b + [1] * 20 + [0] * 12, note="close during routing a=%d b=%d" % (a, b)))
    # source 1 registered at both levels: must go to the inner one; two signals of one thread keep their order
    progs = [[[2, 1], [3, 9, 0, []], [2, 1], [1], [1], [1]], [[0, 1, 0, [1]], [0, 2, 0, [1]]], [[0, 3, 0, [1]]]]
    for a in range(0, 14, 2):
        for b in (0, 3, 9):
            out.append(dict(progs=progs, sched=[0] * 26 + [1] * a + [2] * b + [1] * 30 + [2] * 20 + [0] * 3, note="registered at both levels a=%d b=%d" % (a, b)))
    # registration of the inner level racing with the routing loop
    progs = [[[2, 1], [3, 9, 0, []], [2, 1], [1], [1]], [[0, 1, 0, [1]]]]
    for a in range(0, 12):
        out.append(dict(progs=progs, sched=[0] * 23 + [1] * a + [0] * 3 + [1] * 20 + [0] * 2, note="register racing with routing a=%d" % a))
    return out


def at_gap(progs, prefix, maxturns=30):
    """Extend `prefix` by loop-thread turns until (by the model) the loop thread sits between close_loop() and the
    return of its handler: its last performed accesses are the re-point (20) and the release (10)."""
    cands = [prefix + [0] * n for n in range(maxturns)]
    res = lib.model_run("conc", [[progs, c] for c in cands])
    for c, m in zip(cands, res):
        mine = [ev for ev in m[0] if ev[0] == 0]
        if len(mine) >= 2 and mine[-1][1] == 10 and mine[-2][1] == 20:
            return c
    return None


def gap_cases():
    """Submissions falling into the gap between close_loop() (which leaves _run_loop = False) and the return of the
    handler that called it (the closed level's _mainloop re-arms the flag).  Sources registered at the root level,
    which stays open, or nowhere: the signals must be put and later dispatched as at any other time."""
    out = []
    for src in ([5], []):
        progs = [[[2, 5], [3, 1, 0, []], [4], [1], [1], [1]], [[0, 2, 0, src], [0, 3, 0, src]], [[0, 4, 0, [5]]]]
        for a in (0, 1, 5, 12, 13, 15, 16, 20):     # accesses of submitter 1 before the loop thread closes the level
            pre = at_gap(progs, [0] * 23 + [1] * a + [0] * 4 + [1] * (16 if 0 < a < 16 else 0))
            if pre is None:
                continue
            for k in (1, 2, 10, 16, 32):         # accesses of the submitters inside the gap
                out.append(dict(progs=progs, sched=pre + [1] * k + [2] * k + [0] + [1] * 40 + [2] * 20 + [0] * 6,
                                note="gap src=%s a=%d k=%d" % (src, a, k)))
    # two nested levels, the inner one closed; sources at levels 0 and 1
    progs = [[[2, 5], [3, 1, 0, []], [2, 6], [3, 7, 0, []], [4], [1], [4], [1], [1], [1]],
             [[0, 2, 0, [6]], [0, 3, 0, [5]]], [[0, 4, 0, []]]]
    pre = at_gap(progs, [0] * 46)
    for k in (3, 12, 30):
        for j in (0, 5, 14):
            if pre is not None:
                out.append(dict(progs=progs, sched=pre + [1] * k + [2] * j + [0] * 2 + [1] * 40 + [2] * 30 + [0] * 14,
                                note="gap, two levels k=%d j=%d" % (k, j)))
    return out


def corpus_cases():
    out = []
    for p in sorted(glob.glob(os.path.join(CORPUS, "*.json"))):
        c = json.load(open(p))
        for x in (c if isinstance(c, list) else [c]):
            out.append(dict(progs=x["progs"], sched=x["sched"], note=x.get("note", os.path.basename(p))))
    return out


SMALL_CONFIGS = [
    # (progs, prefix schedule, name, in quick tier)   exhaustive: every stutter-free interleaving after the prefix
    ([[[1], [1]], [[0, 1, 0, []], [0, 2, 0, []]]], [], "2 signals of one thread, loop dispatches twice", True),
    ([[[2, 1], [1], [1]], [[0, 1, 0, [1]]], [[0, 2, 0, [1]]]], [0, 0, 0], "2 submitters x 1 registered signal, loop dispatches twice", True),
    ([[[3, 1, 0, []], [4]], [[0, 2, 0, []]]], [0] * 20 + [1] * 9,
     "level open, submitter inside the routing loop; loop {close + handler return} vs the rest of the submission (F10 scope, gap)", True),
    ([[[2, 5], [3, 1, 0, []], [4], [1]], [[0, 2, 0, [5]]]], [0] * 28,
     "close_loop past its drain; {pop, re-point, release, handler return, dispatch} vs 1 submission registered at the root (gap)", True),
    ([[[3, 1, 0, []], [1], [4]], [[0, 2, 0, []]]], [0] * 20, "level open; loop {dispatch, close} vs 1 unregistered submission (F10 scope)", False),
    ([[[1], [1]], [[0, 1, 0, []]], [[0, 2, 0, []]]], [], "2 submitters x 1 unregistered signal, loop dispatches twice", False),
    ([[[2, 1], [3, 9, 0, []], [4], [1]], [[0, 1, 0, [1]], [0, 2, 0, [1]]]], [0] * 23,
     "level open; loop {close, dispatch} vs 2 signals of one thread registered at level 0", False),
    ([[[2, 1], [1]], [[0, 1, 0, [1]]], [[0, 2, 0, [1]]], [[0, 3, 0, [1]]]], [0, 0, 0], "3 submitters x 1 registered signal", False),
    ([[[3, 9, 0, []], [2, 1], [4]], [[0, 1, 0, [1]]]], [0] * 20, "register in the nested level racing with the routing loop; close", False),
    ([[[5]], [[0, 1, 0, []]], [[0, 2, 0, []]]], [], "force_quit vs 2 submitters", False),
    ([[[3, 9, 0, []], [1], [4]], [[0, 1, 0, []]]], [], "loop {open, dispatch, close} vs 1 submission", False),
]


# ------------------------------------------------------------------ running
REPORTED = {}


def report(chk, key, what, replay, found):
    """chk.violation keeps the first 20 reports only: do not let one kind of failure crowd out the others."""
    REPORTED[key] = REPORTED.get(key, 0) + 1
    if REPORTED[key] <= 2 or key == KNOWN_KEY:
        chk.violation(key, what, replay, found=found)


def judge(chk, case, impl, model, origin):
    chk.count()
    chk.hist("origin=" + origin)
    if impl.get("hang"):
        chk.hist("impl=hang")
        report(chk, "impl-hang", "the implementation did not reach its next shared access under the scheduler: %s" % impl["hang"],
                      dict(kind="conc", case=case, impl=impl), True)
        return
    if nontrivial(impl):
        chk.nontriv(case)
    chk.hist("threads=%d" % len(case["progs"]))
    chk.hist("dispatched=%d" % min(len(impl["disp"]), 6))
    chk.hist("levels_end=%d" % len(impl["evq"]))
    if impl["state"][0]:
        chk.hist("force_quit")
    if in_gap(impl):
        chk.hist("submission-access-in-close-gap")
    if impl.get("errors"):
        report(chk, "impl-exception", "a thread of the implementation raised %s" % impl["errors"],
                      dict(kind="conc", case=case, impl=impl), True)
    verdicts = evaluate(case, impl)
    for key, what in verdicts:
        chk.hist("verdict=" + key)
        report(chk, key, what, dict(kind="conc", case=case, impl=impl, model=model), True)
    diff = differing(impl, model)
    if diff:
        chk.hist("model-differs")
        mv = evaluate(case, model)
        bad = [v for v in verdicts if v[0] != KNOWN_KEY]
        what = ("implementation and proved model differ on %s for schedule %s: e.g. %s: impl %s / model %s"
                % (diff, case["sched"][:80], diff[0], str(impl.get(diff[0]))[:300], str(model.get(diff[0]))[:300]))
        report(chk, "conc-differs:" + diff[0], what, dict(kind="conc", case=case, impl=impl, model=model), bool(bad))
    else:
        # the model's own outcome must satisfy the same evaluation (sanity of evaluate vs theorems)
        pass


def run_batch(chk, pool, cases, origin):
    if not cases:
        return
    models = model_cases(cases)
    for c, m in zip(cases, models):
        r = pool.run(dict(progs=c["progs"], sched=c["sched"]))
        if not r.get("hang"):
            r["pend"] = sorted(r["pend"], key=lambda e: (e[0], e[1], e[2]))
        judge(chk, c, r, m, origin)
        if len(chk.samples) < 3 and not r.get("hang") and nontrivial(r):
            chk.sample(dict(case=c, impl_places=dict(pend=r["pend"], disp=r["disp"], drop=r["drop"]), note=c.get("note", origin)))


_FAULT_SCRIPT = r"""
import sys, threading, json
sys.path.insert(0, sys.argv[1])
from dataclasses import dataclass
from simpleline.event_loop.main_loop import MainLoop
from simpleline.event_loop import AbstractSignal
class Ping(AbstractSignal):
    pass
@dataclass
class Unhashable:            # defines __eq__, hence no __hash__: `x in set` raises TypeError
    name: str
loop = MainLoop()
got = []
loop.register_signal_handler(Ping, lambda s, d: got.append(s.priority))
loop.register_signal_source("S")
res = {}
def bad():
    try:
        loop.enqueue_signal(Ping(Unhashable("u"), 1)); res["bad"] = "accepted"
    except TypeError:
        res["bad"] = "TypeError"
    except Exception as e:      # noqa
        res["bad"] = type(e).__name__
t = threading.Thread(target=bad, daemon=True); t.start(); t.join(10)
def good():
    for k in range(3):
        loop.enqueue_signal(Ping("S", 10 + k))
    res["good"] = "submitted"
t2 = threading.Thread(target=good, daemon=True); t2.start(); t2.join(40)
res["good_alive"] = t2.is_alive()
if not t2.is_alive():
    def drain():
        loop.process_signals()
        while not loop._active_queue.empty():
            loop.process_signals()
        res["drained"] = True
    t3 = threading.Thread(target=drain, daemon=True); t3.start(); t3.join(40)
res["dispatched"] = got
print(json.dumps(res)); sys.stdout.flush()
import os; os._exit(0)
"""


def check_fault_in_submission(chk):
    """A submission that FAILS inside the critical section (a source object that cannot be looked up in a set: unhashable)
    must leave every lock released: the submissions of other threads afterwards complete and are dispatched, in order
    (C19_no_deadlock / C19_lock_holders: a thread that is not inside a submission holds no lock)."""
    p = subprocess.run([lib.PY, "-c", _FAULT_SCRIPT, lib.REPO], capture_output=True, text=True, timeout=120, env=lib.ENV)
    chk.count(); chk.hist("fault-in-submission")
    try:
        r = json.loads(p.stdout.strip().splitlines()[-1])
    except Exception:      # noqa
        r = dict(error=(p.stderr or p.stdout)[-300:])
    ok = (not r.get("good_alive", True)) and r.get("good") == "submitted" and r.get("dispatched", [])[-3:] == [10, 11, 12]
    if not ok:
        report(chk, "lock-held-after-failed-submission",
               "C19_no_deadlock: after a submission that failed inside enqueue_signal (unhashable source: %s) the submissions of "
               "another thread do not complete / are not dispatched: %r" % (r.get("bad"), r),
               dict(kind="fault-in-submission", result=r), found=True)
    else:
        chk.nontriv(dict(fault="unhashable-source", first=r.get("bad")))


def run(chk, tier):
    lib.use_repo()
    check_fault_in_submission(chk)
    pool = conc_impl.ImplPool()
    t0 = time.time()
    try:
        run_batch(chk, pool, corpus_cases(), "corpus")
        run_batch(chk, pool, f10_cases(), "f10-neighbourhood")
        run_batch(chk, pool, routing_cases(), "routing")
        run_batch(chk, pool, gap_cases(), "close-gap")
        nrand = 450 if tier == "quick" else 6000
        rnd = []
        for i in range(nrand):
            if tier == "quick":
                rnd.append(gen_case(chk.rng, nsub=chk.rng.choice([2, 2, 3]), maxsig=3))
            else:
                rnd.append(gen_case(chk.rng, nsub=chk.rng.choice([2, 3, 3, 4, 4]), maxsig=3))
        for i in range(0, len(rnd), 500):
            run_batch(chk, pool, rnd[i:i + 500], "random")
        # no-close / no-quit programs: the full "nothing lost" statement must hold
        rnd = [gen_case(chk.rng, allow_close=False, allow_quit=False) for _ in range(150 if tier == "quick" else 1500)]
        run_batch(chk, pool, rnd, "random-no-close")
        # exhaustive enumeration of small configurations (Drv_concx: every maximal stutter-free schedule)
        budget = 15 if tier == "quick" else 600
        cap = 5000 if tier == "quick" else 60000
        tex = time.time()
        enumerated = {}
        for progs, pre, name, in_quick in SMALL_CONFIGS:
            if tier == "quick" and not in_quick:
                continue
            if time.time() - tex > budget:
                chk.notes.append("exhaustive: time budget reached before '%s'" % name)
                break
            scheds = lib.model_run("concx", [[progs, pre, 90, cap]], timeout=900)[0]
            complete = len(scheds) < cap
            if not complete:
                chk.notes.append("exhaustive '%s': capped at %d interleavings (depth-first prefix)" % (name, cap))
            sel = scheds
            if tier == "quick" and len(scheds) > 500:
                sel = chk.rng.sample(scheds, 250)
            done = 0
            for i in range(0, len(sel), 500):
                if time.time() - tex > budget:
                    chk.notes.append("exhaustive '%s': time budget reached after %d of %d" % (name, done, len(sel)))
                    break
                part = [dict(progs=progs, sched=pre + s, note=name) for s in sel[i:i + 500]]
                run_batch(chk, pool, part, "exhaustive")
                done += len(part)
            enumerated[name] = dict(interleavings=len(scheds), all_enumerated=complete, run=done)
        chk.extra["exhaustive_configurations"] = enumerated       # (the schema keeps "exhaustive" for a boolean)
        chk.extra["worker_restarts"] = pool.restarts
    finally:
        pool.close()
    chk.extra["known_finding_key"] = KNOWN_KEY
    if chk.evaluations and len(chk.nontrivial) * 2 < min(chk.evaluations, 400) and tier == "quick":
        chk.notes.append("fewer than half of the cases were non-trivial")


def replay(path):
    lib.use_repo()
    r = json.load(open(path))["replay"]
    if r.get("kind") == "fault-in-submission":
        p = subprocess.run([lib.PY, "-c", _FAULT_SCRIPT, lib.REPO], capture_output=True, text=True, timeout=120, env=lib.ENV)
        print(p.stdout.strip())
        try:
            x = json.loads(p.stdout.strip().splitlines()[-1])
        except Exception:      # noqa
            return 1
        return 0 if (not x.get("good_alive", True)) and x.get("dispatched", [])[-3:] == [10, 11, 12] else 1
    c = r["case"]
    pool = conc_impl.ImplPool()
    try:
        i = pool.run(dict(progs=c["progs"], sched=c["sched"]))
    finally:
        pool.close()
    m = model_cases([c])[0]
    if not i.get("hang"):
        i["pend"] = sorted(i["pend"], key=lambda e: (e[0], e[1], e[2]))
    print("case :", c)
    print("impl :", {k: i.get(k) for k in FIELDS})
    print("model:", {k: m.get(k) for k in FIELDS})
    v = [] if i.get("hang") else evaluate(c, i)
    print("verdicts:", v)
    d = ["hang"] if i.get("hang") else differing(i, m)
    print("differs:", d)
    return 1 if (d or [x for x in v if x[0] != KNOWN_KEY]) else 0
