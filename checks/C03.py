"""C03 — A nested (modal) loop is isolated: outer work is held, not lost, then resumed.
Shared machinery: harness/loop_check.py (correspondence model <-> real MainLoop on generated sessions,
then the extracted monitor chk_03 — the acceptor the theorem is about — on the implementation's traces)."""
import loop_check

RULE = ("sessions = handler programs (enqueue / raise / exit / force_quit / nested loop / close_loop / process_signals / "
        "registrations, guarded by invocation counters) + top-level calls, generated mostly well-formed with a malformed "
        "stream (double close, close at level 0, calls after force-quit) and property-specific families (ties, deep nesting); "
        "non-trivial per property: see harness/loop_check.py nontrivial()")

MANIFEST = dict(
    text="Proof: the acceptor ok_C03_partial (every enqueue goes to the innermost open level owning the source, else the active one; only the active level's queue is ever read; close pops the top; a nested loop returns only after its level left the stack) holds for every session of the model (C03_isolation), with the one exemption of finding F13 (a level opened by a handler that had already closed a loop in the same invocation returns at once: C03_strict_refuted); held-not-lost is a corollary on the reference queues (C03_held_not_lost).",
    note="Trusted: Coq kernel, extraction, harness (loop_impl.py records the implementation's events through subclasses/wrappers of public methods and a logging PriorityQueue). " + 'finding F13 is listed in known_findings.json (fingerprint newloop-after-close-in-same-handler); GLib back end not covered here.',
    technique="Coq theorem: a trace acceptor holds for every session of a fuel-indexed interpreter model of MainLoop; the same extracted acceptor judges traces of the real MainLoop; differential correspondence model<->/repo")


def run(chk, tier):
    loop_check.run(chk, tier, 'C03')


def replay(path):
    return loop_check.replay(path, 'C03')
