"""C01 — Signals are dispatched by priority, first-in first-out within a priority.
Shared machinery: harness/loop_check.py (correspondence model <-> real MainLoop on generated sessions,
then the extracted monitor chk_01 — the acceptor the theorem is about — on the implementation's traces)."""
import loop_check

RULE = ("sessions = handler programs (enqueue / raise / exit / force_quit / nested loop / close_loop / process_signals / "
        "registrations, guarded by invocation counters) + top-level calls, generated mostly well-formed with a malformed "
        "stream (double close, close at level 0, calls after force-quit) and property-specific families (ties, deep nesting); "
        "non-trivial per property: see harness/loop_check.py nontrivial()")

MANIFEST = dict(
    text="Proof: the acceptor ok_C01 (every signal taken from a queue — dispatched or peeked and re-queued — is the head of that queue's reference STABLE priority queue rebuilt from the enqueue events) holds for the trace of every session of the Gallina MainLoop/EventQueue model: every handler program, every fuel, every sequence of top-level calls (C01_dispatch_order); queue-level lemmas: pop returns the least (priority, arrival) entry, a put is a stable insert, a re-queued entry keeps its place.",
    note="Trusted: Coq kernel, extraction, harness (loop_impl.py records the implementation's events through subclasses/wrappers of public methods and a logging PriorityQueue). " + "PriorityQueue is modelled as 'returns the least entry under tuple comparison' (entries carry a unique arrival counter); GLib back end is not covered by this check.",
    technique="Coq theorem: a trace acceptor holds for every session of a fuel-indexed interpreter model of MainLoop; the same extracted acceptor judges traces of the real MainLoop; differential correspondence model<->/repo")


def run(chk, tier):
    loop_check.run(chk, tier, 'C01')
    # the heap under queue.PriorityQueue: Heapq.v (proved to refine the abstract queue, props/Heapq.v) against CPython's heapq
    import io, contextlib, heapq_corr
    buf = io.StringIO()
    with contextlib.redirect_stdout(buf):
        ok = heapq_corr.run(n=60 if tier == "quick" else 600, seed=chk.seed)
    chk.extra["heapq_model_vs_cpython"] = buf.getvalue().strip()[:400]
    if ok is False or "differences=0" not in buf.getvalue():
        chk.violation("heapq-model", "the Gallina transcription of CPython's heapq differs from the real heapq: " + buf.getvalue()[-300:],
                      dict(kind="heapq"), found=False)


def replay(path):
    return loop_check.replay(path, 'C01')
