"""adv_corr.py — correspondence of coq/theories/AdvWidgets.v with simpleline/render/adv_widgets.py (a script, not a
numbered check).

  1. harness/adv_specs.py (the Python copy of the specs) == the Gallina specs printed by bin/model advspec;
  2. sessions in which the REAL YesNoDialog / ErrorDialog / HelpScreen / GetInputScreen / GetPasswordInputScreen /
     PasswordDialog are used (quit dialog, pushed modally from an input handler, scheduled, stacked) run on the real
     App / scheduler (harness/screen_worker.py: thin logging subclasses) and on the extracted model with the Gallina
     specs: outcomes, final stack, open levels and the FULL event trace must be equal;
        - ErrorDialog: sys.exit(1) = SSysExit, fully equal (the session ends with SystemExit in both);
        - the `answer` of YesNoDialog / PasswordDialog exists from __init__ on (sc_answer0), also when the quit
          dialog is never rendered (push_screen_modal after force_quit());
        - PasswordDialog (AdvWidgets.v G3): equal up to the `source` of the InputReadySignal of its own blocking request;
  3. every extracted acceptor (bin/model smon: 4, 105, 6, 7, 8, 18, 17) must accept the implementation's traces.
Usage: VERIF_DEV=1 python checks/adv_corr.py [n] [seed]      exit 1 on any difference.
"""
import sys, os, json, random, copy
sys.path.insert(0, os.path.join(os.path.dirname(os.path.dirname(os.path.abspath(__file__))), "harness"))
import lib, screen_impl, screen_gen, screen_check, adv_specs      # noqa

CODES = [4, 105, 6, 7, 8, 18, 17]
L = screen_gen.L


def fixed_cases():
    """Hand-written sessions: each stock dialog as quit dialog / pushed modally / scheduled, all answer kinds."""
    out = []
    plain = screen_gen.spec()
    gi = adv_specs.getinput_kind([[1, ["a", "bb", "no"]], [0, ["bb", "x"]]])
    gp = adv_specs.getinput_kind([[0, ["", "no"]]], password=True)
    for kind in ["yesno", "help", "error", "password", gi, gp, adv_specs.getinput_kind([]), adv_specs.getinput_kind([[1, []]])]:
        d = adv_specs.adv_spec(kind)
        typed = [L("q"), L("x"), L("c"), L(""), L("no"), L("q"), L("bb"), L("a"), L("q"), L("yes"), L("q"), L("r"), [], L("q")]
        out.append([3000, [plain, d], typed, [1], 0, [[0, [3, 0, 0]], [1]], ["plain", kind]])
        caller = screen_gen.spec(inputs=[("1", [[1, 1, 0]], [0]), ("2", [[0, 1, 7]], [0]), ("3", [[1, 1, 0], [1, 1, 0]], [1])])
        typed = [L("1"), L("x"), L("bb"), L("no"), L("2"), L(""), L("a"), L("yes"), L("3"), L("no"), L("yes"), L("a"), [], L("1"),
                 L("q"), L("c"), L("yes"), L("a")]
        out.append([3000, [caller, d], typed, [], 0, [[0, [3, 0, 0]], [1]], ["plain", kind]])
        out.append([3000, [caller, d], typed[3:], [], 0, [[0, [3, 0, 0], [3, 1, 5], [0, 1, 0]], [1]], ["plain", kind]])
        # rejection streak (every fifth: redraw) inside the dialog
        out.append([3000, [caller, d], [L("1")] + [L("zz")] * 11 + [L("yes"), L("a")], [], 0, [[0, [3, 0, 0]], [1]], ["plain", kind]])
    # the quit dialog is never rendered: the handler calls force_quit() and returns the quit key; push_screen_modal returns at
    # once; YesNoDialog / PasswordDialog have an answer (None): redraw (discarded); the others have none: ExitMainLoop
    for kind in ["yesno", "password", "help", "error", gi]:
        fq = screen_gen.spec(inputs=[("1", [[10]], [4, lib.cps("q")])])
        out.append([3000, [fq, adv_specs.adv_spec(kind)], [L("1"), L("yes")], [1], 0, [[0, [3, 0, 0]], [1]], ["plain", kind]])
    # one dialog INSTANCE asked as an ordinary modal question (answered yes) and later used as the quit dialog (answered no):
    # the application must go on; and the other way round
    for first, second in (("yes", "no"), ("no", "yes"), ("yes", "x")):
        caller = screen_gen.spec(inputs=[("1", [[1, 1, 0]], [1])])          # ask, then redraw (and prompt again)
        out.append([3000, [caller, adv_specs.adv_spec("yesno")], [L("1"), L(first), L("q"), L(second), L("1"), L(first), L("c")], [1], 0,
                    [[0, [3, 0, 0]], [1]], ["plain", "yesno"]])
    # the quit dialog's answer is remembered: no, then yes
    out.append([3000, [plain, adv_specs.adv_spec("yesno")], [L("q"), L("no"), L("q"), L("no"), L("q"), L("yes"), L("q")], [1], 0,
                [[0, [3, 0, 0]], [1]], ["plain", "yesno"]])
    return out


def norm_password(trace, on):
    """G3: the source of InputReadySignals (class 4) is not compared in sessions with a PasswordDialog."""
    if not on:
        return trace
    return [[e[0], e[1], e[2], e[3], []] if (e[0] == 20 and e[2] == 4) else e for e in trace]


def compare(case, i, m):
    """-> None | description of the first difference"""
    kinds = case[6]
    pw = any(k == "password" for k in kinds)
    ti, tm = norm_password(i[1], pw), norm_password(m[1], pw)
    if [i[0], i[2], i[3]] == [m[0], m[2], m[3]] and ti == tm:
        return None
    if [i[0], i[2], i[3]] != [m[0], m[2], m[3]]:
        return "outcomes/stack/levels: impl %s model %s" % ([i[0], i[2], i[3]], [m[0], m[2], m[3]])
    return first_diff(ti, tm)


def error_exit(case, i):
    """The session ended with SystemExit out of the input() of an ErrorDialog: the last screen-layer event is its T_INPUT."""
    us = [e for e in i[1] if e[0] == 19]
    return bool(i[0] and i[0][-1] == 3 and us and us[-1][1] == 7 and case[6][us[-1][2][0]] == "error")


def first_diff(a, b):
    k = next((k for k in range(min(len(a), len(b))) if a[k] != b[k]), min(len(a), len(b)))
    sh = screen_check.show
    ctx = [sh(e) for e in a[max(0, k - 8):k]]
    return "first difference at event %d: impl %s | model %s; before: %s" % (
        k, sh(a[k]) if k < len(a) else None, sh(b[k]) if k < len(b) else None, ctx)


def run(n=400, seed=1, verbose=True):
    rng = random.Random(seed)
    cases = fixed_cases()
    nfixed = len(cases)
    for _ in range(n):
        cases.append(screen_gen.gen_adv_case(rng, with_error=True, with_password=True))
    allk = sorted({k for c in cases for k in c[6] if k != "plain"})
    bad = []
    for k, p, g in adv_specs.check_against_gallina(allk):
        bad.append(("spec", k, "python %s != gallina %s" % (p, g)))
    for c in cases:       # the specs in the cases are the Python copies
        for sp, k in zip(c[1], c[6]):
            assert k == "plain" or sp == adv_specs.adv_spec(k)
    impl = screen_impl.run_cases(cases, nproc=12)
    kept, stats = [], dict(hang=0, steplimit=0, error=0)
    for c, i in zip(cases, impl):
        if i[0] == "HANG":
            stats["hang"] += 1; bad.append(("hang", c, "implementation hangs")); continue
        if i[0] == "ERROR":
            stats["error"] += 1; bad.append(("error", c, str(i[1])[-600:])); continue
        if 5 in i[0]:
            stats["steplimit"] += 1; continue
        c = copy.deepcopy(c); c[0] = 100 + 6 * len(i[1])
        kept.append((c, i))
    models = lib.model_run("screen", [c[:6] for c, _ in kept])
    ninput = nreject = nquit = nexit = 0
    for (c, i), m in zip(kept, models):
        d = compare(c, i, m)
        if d:
            bad.append(("corr", c, d))
        for e in i[1]:
            if e[0] == 19 and e[1] == 19 and c[6][e[2][0]] != "plain":
                ninput += 1
                nreject += e[2][1] == 4
            if e[0] == 19 and e[1] == 19 and e[2][1] == 3 and c[3] and c[6][c[3][0]] != "plain":
                nquit += 1
        nexit += error_exit(c, i)
    for code in CODES:
        vs = screen_check.monitors(code, [(c, i[1]) for c, i in kept])
        for (c, i), v in zip(kept, vs):
            if v[0] == 0:
                bad.append(("acceptor %d" % code, c, "rejects the implementation trace at event %d: %s" % (v[1], screen_check.show(i[1][v[1]]))))
    if verbose:
        for kind, c, d in bad[:8]:
            print("DIFF [%s] %s\n   case: %s" % (kind, d, json.dumps(c) if not isinstance(c, str) else c))
    print("adv_corr: %d sessions (%d fixed + %d generated; %d compared, %d over the step limit), %d stock kinds == Gallina, "
          "%d inputs handled by real stock dialogs (%d rejected), %d quit keys with a stock quit dialog, %d SystemExit by ErrorDialog, "
          "acceptors %s on implementation traces: %s" % (
              len(cases), nfixed, n, len(kept), stats["steplimit"], len(allk), ninput, nreject, nquit, nexit, CODES,
              "%d DIFFERENCES" % len(bad) if bad else "all equal / all accepted"))
    return 1 if bad else 0


if __name__ == "__main__":
    n = int(sys.argv[1]) if len(sys.argv) > 1 else 400
    seed = int(sys.argv[2]) if len(sys.argv) > 2 else 1
    sys.exit(run(n, seed))
