"""C07 — What input() returns decides exactly one follow-up action.
Shared machinery: harness/screen_check.py (sessions on the real App/scheduler/screens/input stack in worker
subprocesses vs the extracted ScreenSem model; the extracted acceptor chk_07 of ScreenMon.v on the implementation traces)."""
import screen_check

RULE = ("sessions = a table of screen programs (stack operations, signals, raises, blocking input, ... issued from "
        "input/refresh/show_all/closed, guarded by invocation counters; failing setups; paging; quit dialog) + typed lines "
        "(item keys, c/r/q, junk, empty, EOF), generated mostly plausible with a malformed stream and a property-specific family; "
        "non-trivial per property: see harness/screen_check.py nontrivial()")

MANIFEST = dict(
    text="Proof: the acceptor chk_C07 (after the screen's answer the next event is the one the table demands: nothing / one redraw / close of the top screen / the quit protocol with the configured dialog — quit iff its answer is True or it has none — / the re-prompt of the top screen, every fifth consecutive rejection of a screen a redraw instead, any accepted line resets the count) holds for every session of the model (C07_one_followup); the answer table is total by cases and equals the table translated from /repo's InputManager._process_input on every build (C07_table, props/Translated.v); C07_counter, C07_counter_update, C07_counter_streak. props/Adv.v: the adv_widgets screens (YesNoDialog, ErrorDialog, HelpScreen, GetInputScreen, GetPasswordInputScreen, PasswordDialog) are instances of the model (Adv_*), compared with the real classes on every run.",
    note="Trusted: Coq kernel, extraction, harness (screen_worker.py records events through subclasses / name patching and releases typed lines when the loop is idle). " + "the quit dialog's answer is a per-screen attribute (missing / True / False / None), set by commands or before the first callback.",
    technique="Coq theorem: a trace acceptor holds for every application session of an interpreter model of the screen layer over the MainLoop model; the same extracted acceptor judges traces of the real implementation; differential correspondence model<->/repo")


def run(chk, tier):
    screen_check.run(chk, tier, 'C07')


def replay(path):
    return screen_check.replay(path, 'C07')
