"""C07 — What input() returns decides exactly one follow-up action.
Shared machinery: harness/screen_check.py (sessions on the real App/scheduler/screens/input stack in worker
subprocesses vs the extracted ScreenSem model; the extracted acceptor chk_07 of ScreenMon.v on the implementation traces)."""
import screen_check

RULE = ("sessions = a table of screen programs (stack operations, signals, raises, blocking input, ... issued from "
        "input/refresh/show_all/closed, guarded by invocation counters; failing setups; paging; quit dialog) + typed lines "
        "(item keys, c/r/q, junk, empty, EOF), generated mostly plausible with a malformed stream and a property-specific family; "
        "non-trivial per property: see harness/screen_check.py nontrivial()")

MANIFEST = dict(
    text="Proof: the acceptor chk_C07 (after the screen's answer the next event is the one the table demands: nothing / one redraw / close of the top screen / the quit protocol with the configured dialog — quit iff its answer is True or it has none — / the re-prompt of the top screen, every fifth consecutive rejection of a screen a redraw instead, any accepted line resets the count) holds for every session of the model (C07_one_followup); the answer table is total by cases and equals the table translated from /repo's InputManager._process_input on every build (C07_table, props/Translated.v); C07_counter, C07_counter_update, C07_counter_streak. props/Adv.v: the adv_widgets screens (YesNoDialog, ErrorDialog, HelpScreen, GetInputScreen, GetPasswordInputScreen, PasswordDialog) are instances of the model (Adv_*), compared with the real classes on every run.",
    note="Trusted: Coq kernel, extraction, harness (screen_worker.py records events through subclasses / name patching and releases typed lines when the loop is idle). " + "the quit dialog's answer is a per-screen attribute (missing / True / False / None), set by commands or before the first callback.",
    technique="Coq theorem: a trace acceptor holds for every application session of an interpreter model of the screen layer over the MainLoop model; the same extracted acceptor judges traces of the real implementation; differential correspondence model<->/repo")


_REINIT_SCRIPT = r"""
import sys, threading, json, io, os
sys.path.insert(0, sys.argv[1])
from simpleline import App
from simpleline.render.screen import UIScreen, InputState
from simpleline.render.screen_handler import ScreenHandler
from simpleline.input import input_handler as IH
script = []
block = threading.Event()
def fake_input():
    if script:
        return script.pop(0)
    block.wait(90); return ""
IH.InputHandlerRequest._get_input = staticmethod(fake_input)
log = []
class S(UIScreen):
    def refresh(self, args=None):
        log.append("refresh"); super().refresh(args)
    def show_all(self):
        log.append("show"); super().show_all()
    def input(self, args, key):
        log.append("input:" + key)
        if key == "x":
            return InputState.DISCARDED
        return key
s = S()
real_out = sys.stdout
def epoch(lines):
    del log[:]
    script[:] = list(lines)
    App.initialize()
    ScreenHandler.schedule_screen(s)
    sys.stdout = io.StringIO()
    res = {}
    def go():
        try:
            App.run(); res["o"] = "returned"
        except BaseException as e:      # noqa
            res["o"] = type(e).__name__
    t = threading.Thread(target=go, daemon=True); t.start(); t.join(40)
    sys.stdout = real_out
    return [res.get("o", "HANG"), list(log)]
out = [epoch(["r", "c"]), epoch(["x", "r", "c"]), epoch(["c"])]
print(json.dumps(out)); sys.stdout.flush()
os._exit(0)
"""
_REINIT_WANT = [["returned", ["refresh", "show", "input:r", "refresh", "show", "input:c"]],
                ["returned", ["refresh", "show", "input:x", "input:r", "refresh", "show", "input:c"]],
                ["returned", ["refresh", "show", "input:c"]]]


def check_reinitialize(chk):
    """The same screen OBJECT used by three applications in a row (App.initialize() again each time; DESIGN section 11: a
    second initialize within one session is outside the model): judged directly on the implementation — what input() returns
    decides the follow-up in the application that is running NOW: 'r' = one refresh and draw, a rejected line = a new prompt
    only, 'c' = the screen closes and run() returns."""
    import subprocess, json
    import lib
    p = subprocess.run([lib.PY, "-c", _REINIT_SCRIPT, lib.REPO], capture_output=True, text=True, timeout=120, env=lib.ENV)
    chk.count(); chk.hist("reinitialize")
    try:
        r = json.loads(p.stdout.strip().splitlines()[-1])
    except Exception:      # noqa
        r = dict(error=(p.stderr or p.stdout)[-300:])
    if r != _REINIT_WANT:
        chk.violation("reinitialize", "C07 (directly on the implementation): one screen object used by three applications in a row "
                      "(App.initialize() each time), lines r,c / x,r,c / c: expected %r, observed %r" % (_REINIT_WANT, r),
                      dict(kind="reinitialize", result=r), found=True)
    else:
        chk.nontriv(dict(reinitialize=3))


def run(chk, tier):
    import lib
    lib.use_repo()
    check_reinitialize(chk)
    screen_check.run(chk, tier, 'C07')


def replay(path):
    import json
    r = json.load(open(path)).get("replay") or {}
    if r.get("kind") == "reinitialize":
        import subprocess, lib
        p = subprocess.run([lib.PY, "-c", _REINIT_SCRIPT, lib.REPO], capture_output=True, text=True, timeout=120, env=lib.ENV)
        print(p.stdout.strip())
        try:
            return 0 if json.loads(p.stdout.strip().splitlines()[-1]) == _REINIT_WANT else 1
        except Exception:      # noqa
            return 1
    return screen_check.replay(path, 'C07')
