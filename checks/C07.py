"""C07 — What input() returns decides exactly one follow-up action.
Shared machinery: harness/screen_check.py (sessions on the real App/scheduler/screens/input stack in worker
subprocesses vs the extracted ScreenSem model; the extracted acceptor chk_07 of ScreenMon.v on the implementation traces)."""
import screen_check

RULE = ("sessions = a table of screen programs (stack operations, signals, raises, blocking input, ... issued from "
        "input/refresh/show_all/closed, guarded by invocation counters; failing setups; paging; quit dialog) + typed lines "
        "(item keys, c/r/q, junk, empty, EOF), generated mostly plausible with a malformed stream and a property-specific family; "
        "non-trivial per property: see harness/screen_check.py nontrivial()")

MANIFEST = dict(
    text="Proof: the acceptor chk_C07 (after the screen's answer the next event is the one the table demands: nothing / one redraw / close of the top screen / the quit protocol with the configured dialog / the re-prompt of the top screen, every fifth consecutive rejection of a screen a redraw instead) holds for every session of the model (C07_followup); the answer table C07_table is total by cases; C07_counter.",
    note="Trusted: Coq kernel, extraction, harness (screen_worker.py records events through subclasses / name patching and releases typed lines when the loop is idle). " + "the quit dialog's answer is a per-screen attribute set by commands (missing / True / other).",
    technique="Coq theorem: a trace acceptor holds for every application session of an interpreter model of the screen layer over the MainLoop model; the same extracted acceptor judges traces of the real implementation; differential correspondence model<->/repo")


def run(chk, tier):
    screen_check.run(chk, tier, 'C07')


def replay(path):
    return screen_check.replay(path, 'C07')
