"""C16 — rendering depends only on current content and width, not on render history.

A long-lived widget tree of the real implementation (imported from /repo) is driven through a random
history of  render(w) / container.add(item) somewhere in the tree / building and rendering ANOTHER tree.
After every render the object's get_lines() (or ValueError) is compared with
  (a) the extracted Gallina model of the object, ContainerObject.run_ops (whose only state is the tree:
      theorems C16_history_irrelevant, C16_render_again, C16_add_after_render, C16_other_widget), and
  (b) a freshly built equal tree rendered once at the same width by the implementation itself,
so that state carried from one render to the next is detected even if the model were wrong, and, for the
renders of the OTHER tree (a budgeted subset), with
  (c) the same other tree rendered alone after re-importing simpleline (fresh class/module state),
so that state shared between different objects is detected too.
A mismatch in (b) or (c) is a concrete violation of the property (fingerprint "render-history")."""
import json, copy
import lib
import render_common as rc

RULE = ("cases = (widget tree of depth <= 3, history of <= 8 operations: render at a width / add an item to a list container or "
        "window anywhere in the tree / build and render another tree); fixed histories (render 40 then 20; render, add, render; both "
        "container kinds, nested) plus random ones; after every render: long-lived object vs model of the current tree vs fresh object; "
        "non-trivial = the tree contains a list container and the history has two renders at different widths or an add after a render")

MANIFEST = dict(
    text=("Proof: in the Gallina model a render is a function of the tree and the width (C16_fuel_irrelevant: any sufficient fuel gives "
          "the same result), and the model of a long-lived object has the tree as its only state, so after any history of renders at any "
          "widths, additions anywhere in the tree and renders of other trees, a render at w returns the render of the current tree at w "
          "(C16_history_irrelevant, C16_renders_leave_tree, C16_render_again, C16_idempotent, C16_width_roundtrip, C16_add_after_render, "
          "C16_add_is_append, C16_other_widget), closed under the global context; the pre-fix behaviour (memoised column width, label "
          "list never reset) is modelled in LegacyContainers.v and refutes the same statements (C16_legacy_refuted_width/_labels).  "
          "The choice of state is tied to /repo on every run: real long-lived objects are driven through enumerated and random "
          "histories and every get_lines() is compared with the extracted model AND with a freshly built equal tree."),
    note=("Trusted: Coq kernel; extraction; harness.  The history theorems are immediate once the state is the tree; the evidence that "
          "the implementation keeps no other state is the correspondence run (it does not prove absence of hidden state for histories "
          "not explored).  Sharing one widget object under two parents and mutating widgets other than by Container.add are outside "
          "the model."),
    technique="Coq theorems over a Gallina model of the long-lived object + differential stateful correspondence run against /repo")


# ------------------------------------------------------------------ implementation side: build with handles
def build_h(spec, path, handles):
    """like render_common.build, but records every list container / window / center by its path"""
    from simpleline.render import widgets as W, containers as C
    k = spec[0]
    if k == "list":
        _, kind, columns, items, forced, spacing, pat = spec
        cls = C.ListColumnContainer if kind == "col" else C.ListRowContainer
        kids = [build_h(x, path + (i,), handles) for i, x in enumerate(items)]
        c = cls(columns, kids, columns_width=forced, spacing=spacing, numbering=pat is not None)
        if pat is not None and pat != ["", ") ", 1]:
            c.key_pattern = C.KeyPattern(pat[0] + "{:d}" + pat[1], pat[2])
        handles[path] = c
        return c
    if k == "window":
        c = C.WindowContainer(spec[1])
        for i, x in enumerate(spec[2]):
            c.add(build_h(x, path + (i,), handles))
        handles[path] = c
        return c
    if k == "center":
        c = W.CenterWidget(build_h(spec[1], path + (0,), handles))
        return c
    return rc.build(spec)


def containers_in(spec, path=()):
    """paths of the containers reachable through list / window / center children"""
    k = spec[0]
    out = []
    if k == "list":
        out.append(path)
        for i, x in enumerate(spec[3]):
            out += containers_in(x, path + (i,))
    elif k == "window":
        out.append(path)
        for i, x in enumerate(spec[2]):
            out += containers_in(x, path + (i,))
    elif k == "center":
        out += containers_in(spec[1], path + (0,))
    return out


def has_list(spec):
    k = spec[0]
    if k == "list":
        return True
    if k == "window":
        return any(has_list(x) for x in spec[2])
    if k == "center":
        return has_list(spec[1])
    if k == "column":
        return any(has_list(x) for _, items in spec[1] for x in items)
    return False


def spec_at(spec, path):
    for i in path:
        k = spec[0]
        spec = spec[3][i] if k == "list" else spec[2][i] if k == "window" else spec[1]
    return spec


def spec_add(spec, path, x):
    s = spec_at(spec, path)
    (s[3] if s[0] == "list" else s[2]).append(x)


def wire_op(op):
    if op[0] == "render":
        return [0, op[1]]
    if op[0] == "add":
        return [1, list(op[1]), rc.wire_tree(op[2])]
    return [2, rc.wire_tree(op[1]), op[2]]


def descendants(w):
    """every widget below w (list/window items, the centred widget, ColumnWidget's columns)"""
    from simpleline.render.widgets import Widget
    out = []
    kids = []
    items = getattr(w, "_items", None)
    if isinstance(items, list):
        kids += [x.widget if hasattr(x, "widget") else x for x in items]
    if isinstance(getattr(w, "_w", None), Widget):
        kids.append(w._w)
    cols = getattr(w, "_columns", None)
    if isinstance(cols, list):
        for c in cols:
            if isinstance(c, (list, tuple)) and len(c) == 2 and isinstance(c[1], list):
                kids += [x for x in c[1] if isinstance(x, Widget)]
    for k in kids:
        if isinstance(k, Widget):
            out.append(k); out += descendants(k)
    return out


def render_watching(obj, width):
    """obj.render(width), remembering what every descendant showed right after ITS OWN render inside it: drawing the
    siblings afterwards must not change a child's lines ("rendering one widget never changes how another renders")."""
    snaps = {}
    patched = []
    for d in descendants(obj):
        if id(d) in snaps or "render" in d.__dict__:
            continue
        snaps[id(d)] = None

        def mk(d):
            orig = d.render

            def r(width, *a, **k):
                res = orig(width, *a, **k)
                snaps[id(d)] = list(d.get_lines())
                return res
            return r
        d.render = mk(d); patched.append(d)
    try:
        live = rc.impl_render(obj, width)
    finally:
        for d in patched:
            del d.__dict__["render"]
    changed = None
    if live[0] == 0:
        for d in patched:
            if snaps[id(d)] is not None and list(d.get_lines()) != snaps[id(d)]:
                changed = (type(d).__name__, snaps[id(d)][:6], list(d.get_lines())[:6]); break
    return live, changed


def run_impl(tree, ops):
    """drive a long-lived object; returns per render/other op: (long-lived result, fresh result | None, current spec, width)"""
    cur = copy.deepcopy(tree)
    handles = {}
    obj = build_h(cur, (), handles)
    out = []
    for op in ops:
        if op[0] == "render":
            live, changed = render_watching(obj, op[1])
            fresh = rc.impl_render(rc.build(cur), op[1])
            out.append((live, fresh, copy.deepcopy(cur), op[1]))
            if changed:
                CHILD_CHANGED.append((copy.deepcopy(cur), op[1], changed))
        elif op[0] == "add":
            path = tuple(op[1])
            idx = len(spec_at(cur, path)[3] if spec_at(cur, path)[0] == "list" else spec_at(cur, path)[2])
            handles[path].add(build_h(op[2], path + (idx,), handles))
            spec_add(cur, path, copy.deepcopy(op[2]))
        else:
            live = rc.impl_render(rc.build(op[1]), op[2])
            out.append((live, None, op[1], op[2]))
    return out


def nontrivial(tree, ops):
    if not has_list(tree):
        return False
    ws = [op[1] for op in ops if op[0] == "render"]
    if len(set(ws)) >= 2:
        return True
    seen_render = False
    for i, op in enumerate(ops):
        if op[0] == "render":
            seen_render = True
        if op[0] == "add" and seen_render and any(o[0] == "render" for o in ops[i + 1:]):
            return True
    return False


# ------------------------------------------------------------------ cases
T = lambda s: ["text", s]
DEF = ["", ") ", 1]


def fixed_cases():
    cases = []
    for kind in ("row", "col"):
        l2 = ["list", kind, 2, [T("aaa bbb ccc"), T("dd")], None, 3, DEF]
        cases.append((l2, [("render", 40), ("render", 20)]))
        cases.append((l2, [("render", 20), ("render", 40), ("render", 20)]))
        cases.append((l2, [("render", 40), ("render", 40)]))
        l1 = ["list", kind, 1, [T("aaa bbb ccc"), T("dd")], None, 3, DEF]
        cases.append((l1, [("render", 30), ("add", [], T("c")), ("render", 30)]))
        cases.append((l1, [("render", 30), ("add", [], T("c")), ("render", 30), ("add", [], T("e f")), ("render", 12), ("render", 30)]))
        cases.append((l2, [("render", 6), ("render", 40)]))                      # ValueError first, then wide enough
        cases.append((l2, [("render", 40), ("other", l1, 9), ("render", 40)]))
        cases.append((l2, [("render", 40), ("other", ["list", kind, 2, [T("p q"), T("r"), T("s")], None, 2, ["[", "] ", 0]], 40), ("render", 40),
                           ("other", ["window", "W", [l1]], 25), ("render", 20)]))
        cases.append((["window", "Title", [T("head"), l2]], [("render", 50), ("add", [1], T("x y z")), ("render", 22), ("add", [], ["sep", 1]), ("render", 50)]))
        cases.append((["list", "row", 2, [l2, l1], None, 2, DEF], [("render", 60), ("add", [0], T("q")), ("render", 35), ("add", [1], l2), ("render", 60)]))
        cases.append((["center", l2], [("render", 60), ("add", [0], T("q")), ("render", 31), ("render", 60)]))
        cases.append((["list", kind, 3, [T(""), T("b")], None, 1, DEF], [("render", 30), ("add", [], T("")), ("render", 30), ("render", 15)]))
        cases.append((["list", kind, 2, [T("one"), T("two"), T("three")], 7, 1, ["[", "] ", 0]], [("render", 30), ("render", 10), ("add", [], T("four")), ("render", 30)]))
    return cases


def shifted(spec, d):
    """the same tree, every numbering pattern keeping its text but starting d later"""
    t = copy.deepcopy(spec)
    if t[0] == "list":
        if t[6] is not None:
            t[6] = [t[6][0], t[6][1], t[6][2] + d]
        t[3] = [shifted(x, d) for x in t[3]]
    elif t[0] == "window":
        t[2] = [shifted(x, d) for x in t[2]]
    elif t[0] == "center":
        t[1] = shifted(t[1], d)
    return t


def rand_case(rng):
    for _ in range(50):
        tree = rc.rand_tree(rng, depth=3)
        if has_list(tree) and containers_in(tree):
            break
    else:
        tree = ["list", "row", 2, [T("a b c"), T("dd")], None, 3, DEF]
    cur = copy.deepcopy(tree)
    ops = []
    widths = []
    for _ in range(rng.randrange(2, 9)):
        r = rng.random()
        if r < 0.55 or not ops:
            if widths and rng.random() < 0.35:
                w = rng.choice(widths)
            else:
                w = rng.choice([rng.randrange(1, 25), rng.randrange(20, 80), rng.randrange(20, 80), rng.randrange(60, 200), rng.randrange(60, 200), 80])
            widths.append(w)
            ops.append(("render", w))
        elif r < 0.85:
            paths = containers_in(cur)
            path = list(rng.choice(paths))
            depth_left = max(0, 2 - len(path))
            x = rc.rand_tree(rng, depth=min(1, depth_left), allow_window=False)
            ops.append(("add", path, x))
            spec_add(cur, path, copy.deepcopy(x))
        elif rng.random() < 0.5:
            ops.append(("other", rc.rand_tree(rng, depth=2), rng.choice([rng.randrange(1, 40), 80])))
        else:
            # the OTHER widget is a sibling of this one: the same tree with every list numbered from another offset
            # (same pattern text) and, half of the time, the same width: "rendering one widget never changes how another renders"
            ops.append(("other", shifted(cur, rng.choice([1, 3, 4, -1, 10])), rng.choice(widths) if widths and rng.random() < 0.5
                        else rng.choice([rng.randrange(1, 40), 80])))
    if ops[-1][0] != "render":
        ops.append(("render", rng.choice(widths) if widths and rng.random() < 0.5 else rng.randrange(5, 90)))
    return tree, ops


def show(r):
    if r is None:
        return "-"
    if r[0] == 0:
        return repr([lib.uncps(l) for l in r[1]])[:260]
    return {1: "ValueError", 2: "OutOfModel", 3: "chunk-contract", 9: "exception %s" % (r[1:] or "")}.get(r[0], str(r))


ISO_BUDGET = [0]


def isolated(spec, w):
    """render spec alone in a fresh module state (class-level / module-level state is reset by the re-import)"""
    lib.use_repo()
    return rc.impl_render(rc.build(spec), w)


CHILD_CHANGED = []


def evaluate(chk, cases, stream):
    res_m = lib.model_run("c16", [[rc.wire_tree(t), [wire_op(o) for o in ops]] for t, ops in cases])
    nbad = 0
    for (tree, ops), m in zip(cases, res_m):
        del CHILD_CHANGED[:]
        outs = run_impl(tree, ops)
        chk.count()
        for cur_, w_, (tn, before, after) in CHILD_CHANGED[:1]:
            nbad += 1
            chk.violation("child-changed-by-sibling",
                          "rendering %s at width %d: a contained %s showed %r right after its own render and %r once its siblings were "
                          "drawn (C16: rendering one widget never changes how another renders)" % (json.dumps(cur_)[:160], w_, tn, before, after),
                          dict(kind="c16", tree=tree, ops=[list(o) for o in ops], output=0), found=True)
        chk.hist("stream=" + stream); chk.hist("ops=%d" % len(ops))
        chk.hist("renders=%d" % sum(1 for o in ops if o[0] == "render")); chk.hist("adds=%d" % sum(1 for o in ops if o[0] == "add"))
        if nontrivial(tree, ops):
            chk.nontriv([tree, [list(o) for o in ops]])
        contract_bad = (len(m) == 1 and m[0] == [3])
        if contract_bad:
            chk.hist("model=chunk-contract")
        for j, (live, fresh, cur, w) in enumerate(outs):
            chk.hist("impl=" + {0: "lines", 1: "ValueError", 9: "other-exception"}[live[0]])
            replay = dict(kind="c16", tree=tree, ops=[list(o) for o in ops], output=j)
            if fresh is not None and live != fresh:
                nbad += 1
                chk.violation("render-history",
                              "output %d of the history %s on %s: the long-lived object shows %s but a freshly built equal tree rendered at "
                              "width %d shows %s (C16_history_irrelevant: the render of the current tree)"
                              % (j, json.dumps([list(o) for o in ops])[:200], json.dumps(tree)[:160], show(live), w, show(fresh)),
                              replay, found=True)
            elif not contract_bad and m[j][0] in (0, 1) and live[:2] != m[j][:2]:
                nbad += 1
                chk.violation("model-differs",
                              "output %d: implementation (long-lived and fresh agree) %s, model of the current tree %s at width %d: %s"
                              % (j, show(live), show(m[j]), w, json.dumps(cur)[:200]), replay, found=False)
            elif not contract_bad and m[j][0] == 2:
                chk.hist("model=out-of-model")
            if fresh is None and ISO_BUDGET[0] > 0:
                ISO_BUDGET[0] -= 1
                chk.hist("isolated-other-render")
                iso = isolated(cur, w)
                if iso != live:
                    nbad += 1
                    chk.violation("render-history",
                                  "output %d of the history %s on %s: the other tree %s rendered at width %d shows %s after the first tree was "
                                  "rendered, but %s when rendered alone in a fresh interpreter state (C16_other_widget: rendering one widget "
                                  "never changes how another renders)"
                                  % (j, json.dumps([list(o) for o in ops])[:200], json.dumps(tree)[:120], json.dumps(cur)[:120], w,
                                     show(live), show(iso)), replay, found=True)
        if nbad > 40:
            return


def run(chk, tier):
    lib.use_repo()
    ISO_BUDGET[0] = 150 if tier == "quick" else 3000
    fixed = fixed_cases()
    for tree, ops in fixed[:2] + fixed[3:4]:
        outs = run_impl(tree, ops)
        chk.sample(dict(tree=tree, ops=[list(o) for o in ops], outputs=[show(o[0]) for o in outs]), limit=4)
    evaluate(chk, fixed, "fixed")
    n = 4000 if tier == "quick" else 60000
    cases = [rand_case(chk.rng) for _ in range(n)]
    chk.sample(dict(tree=cases[0][0], ops=[list(o) for o in cases[0][1]]), limit=4)
    for off in range(0, len(cases), 1000):
        evaluate(chk, cases[off:off + 1000], "random")


def replay(path):
    lib.use_repo()
    r = json.load(open(path))["replay"]
    tree, ops = r["tree"], [tuple(o) for o in r["ops"]]
    outs = run_impl(tree, ops)
    m = lib.model_run("c16", [[rc.wire_tree(tree), [wire_op(o) for o in ops]]])[0]
    print("tree:", json.dumps(tree)); print("ops :", json.dumps([list(o) for o in ops]))
    bad = 0
    for j, (live, fresh, cur, w) in enumerate(outs):
        mj = m[j] if len(m) == len(outs) else None
        print("output %d (width %d): long-lived %s | fresh %s | model %s" % (j, w, show(live), show(fresh), show(mj)))
        if fresh is not None and live != fresh:
            bad = 1
        elif fresh is None and isolated(cur, w) != live:
            print("   rendered alone in a fresh interpreter state:", show(isolated(cur, w)))
            bad = 1
        elif mj is not None and mj[0] in (0, 1) and live[:2] != mj[:2]:
            bad = 1
    return bad
