"""C17 — console output is append-only and stays within the configured width.

(a) real output capture: real UIScreen objects with random content in self.window, App.initialize() with a
    GlobalConfiguration of width w, ScreenScheduler._draw_screen(ScreenData(screen)) with sys.stdout captured; the
    press-ENTER prompts of paging go through the real InputHandler.create_thread_object(prompt)._ask_input() (only
    the final input() is replaced).  The captured character stream and the outcome (completed / ValueError) are
    compared with the extracted ScreenOut.draw_output (entry `screenout`).
(b) the property evaluated DIRECTLY on the captured stream: no BS/TAB/VT/FF/CR/ESC/DEL (nor any control character
    but the line feed) unless it is a non-whitespace character of the application's strings; the two-line separator
    of exactly w "=" first unless no_separator, and nothing else added; every terminal line, trailing blanks removed,
    at most w long for fitting trees.
(c) InputHandlerRequest.text_prompt() of random prompts: the same character and width properties, and equality with
    the model (text of str(prompt) rendered by the extracted model, joined, plus one blank).
The theorems of props/C17.v determine the model's stream for every input, so a disagreement is a concrete violation."""
import io, json, re, sys, types
import lib
from lib import cps, uncps
import render_common as rc

RULE = ("draws: random windows (title None/''/short/long, 0..7 items: texts incl. tabs, CR, VT, FF, ESC streams, entries, separators, "
        "centred widgets, checkboxes, numbered/unnumbered row/column lists nested to depth 2, ColumnWidgets, forced widths) x width in 1..120 "
        "(biased to 1..30, 80) x height in {3..12, 30} x no_separator; non-trivial = completed draw with >= 2 items and (a title that wraps "
        "or a press-ENTER prompt or a wrapped text).  prompts: random Prompt objects (messages None/''/text/multi-line/with control characters, "
        "0..6 options) x width 1..120; non-trivial = the prompt wraps to >= 2 lines.")

MANIFEST = dict(
    text=("Proof: ScreenOut.draw_output is a line-by-line Gallina model of what ScreenScheduler._draw_screen writes (separator = "
          "'\\n'.join(2*[width*'=']) printed, then UIScreen.show_all: window render, _print_widget page by page, press-ENTER prompts written by "
          "InputHandlerRequest as text_prompt).  For every width, height, widget tree and outcome (completed or ended by an exception): every character "
          "written is a line feed, a blank, '=', a character of the press-ENTER prompt, or a character of the application's strings that is not in "
          "textwrap._whitespace (C17_charset_render through draw/write/wrap/munge and all containers, C17_charset_draw, C17_charset_prompt, "
          "C17_prompt_str_chars); so no BS/TAB/VT/FF/CR/ESC/DEL is written unless the application's strings contain it as a non-blank "
          "(C17_charset_framework, C17_charset_framework_prompt), the only control character of the framework is the line feed (C17_append_only, "
          "C17_own_chars_plain) and every line feed ends a printed line (C17_lines_have_no_newline, C17_stream_fits_screen, C17_stream_lines); the "
          "separator is exactly two lines of exactly w '=' and comes first unless disabled (C17_separator_width, C17_separator_first, "
          "C17_separator_lines, C17_no_separator, C17_no_separator_no_rule); every terminal line of a draw of a fitting tree (texts, separators, centred "
          "widgets, checkboxes with title/text, lists without forced column width, windows, nested) is at most w long after removing trailing blanks "
          "(C17_width, C17_tree_within_width, C17_width_fits_screen), the prompt's lines are at most w long plus one trailing blank (C17_width_prompt). "
          "All closed under the global context.  The model is tied to /repo on every run by comparing the captured stdout of real draws with the "
          "extracted model, character by character."),
    note=("Trusted: Coq kernel; extraction; harness; CPython's print/str.join/sys.stdout.write as modelled (print(x) writes x and one line feed); textwrap "
          "chunking enters as a checked oracle.  Width theorems exclude by hypothesis what is wider than the screen by construction: ColumnWidget, lists with "
          "columns_width (C17_overflow_* examples) and the title-less checkbox (C17_titleless_checkbox_refuted: a FINDING, reported under the key "
          "titleless-checkbox-wider-than-width).  The echo of what the user types is the terminal's, not the framework's: the width theorem is about "
          "draw_terminal (ENTER echoed after a press-ENTER prompt); the raw stream has the next page directly behind the prompt.  Password prompts go to "
          "getpass with the same text_prompt.  'Every draw of a session is preceded by the separator' is the screen-layer theorem (ScreenSem), stated "
          "separately; here one draw.  Log output (logging module) is not console output of the framework."),
    technique="Coq theorems over a Gallina model of _draw_screen/show_all/text_prompt + differential correspondence of captured stdout against /repo")

FORBIDDEN = {8, 9, 11, 12, 13, 27, 127}
TW_SPACE = set("\t\n\x0b\x0c\r ")
_SEEN = {}


def _viol(chk, key, what, replay, found=True):
    _SEEN[key] = _SEEN.get(key, 0) + 1
    if _SEEN[key] <= 2:
        chk.violation(key, what, replay, found=found)


# ------------------------------------------------------------------ tree helpers
def tree_strings(t):
    """the application's strings of a tree spec (labels included)"""
    k = t[0]
    if k == "text":
        return [t[1]]
    if k == "entry":
        return [t[1], t[2] or ""]
    if k == "sep":
        return []
    if k == "center":
        return tree_strings(t[1])
    if k == "column":
        return [s for _, items in t[1] for x in items for s in tree_strings(x)]
    if k == "checkbox":
        box, data = rc.checkbox_parts(*t[1:5])
        return [box] + data
    if k == "list":
        out = [s for x in t[3] for s in tree_strings(x)]
        if t[6] is not None:
            out += [t[6][0], t[6][1], "-0123456789"]
        return out
    if k == "window":
        return ([t[1]] if t[1] else []) + [s for x in t[2] for s in tree_strings(x)]
    raise ValueError(k)


def fitting(t):
    """ScreenOut.fitting_tree: the class of C17_width"""
    k = t[0]
    if k in ("text", "entry", "sep"):
        return True
    if k == "center":
        return fitting(t[1])
    if k == "column":
        return False
    if k == "checkbox":
        return bool(rc.checkbox_parts(*t[1:5])[1])
    if k == "list":
        return t[4] is None and t[5] >= 0 and all(fitting(x) for x in t[3])
    if k == "window":
        return all(fitting(x) for x in t[2])
    raise ValueError(k)


def debox(t):
    """the same tree with every title-less checkbox replaced by a text widget of its box (which wraps instead of
    keeping a fixed column of 3); (tree, number replaced)"""
    k = t[0]
    if k == "checkbox":
        box, data = rc.checkbox_parts(*t[1:5])
        return (t, 0) if data else (["text", box], 1)
    if k == "center":
        x, n = debox(t[1])
        return ["center", x], n
    if k == "list":
        xs = [debox(x) for x in t[3]]
        return ["list", t[1], t[2], [x for x, _ in xs], t[4], t[5], t[6]], sum(n for _, n in xs)
    if k == "window":
        xs = [debox(x) for x in t[2]]
        return ["window", t[1], [x for x, _ in xs]], sum(n for _, n in xs)
    if k == "column":
        cols, n = [], 0
        for cw, items in t[1]:
            xs = [debox(x) for x in items]
            cols.append([cw, [x for x, _ in xs]])
            n += sum(m for _, m in xs)
        return ["column", cols, t[2]], n
    return t, 0


# ------------------------------------------------------------------ running a real draw
class _Runaway(Exception):
    pass


class _Out(io.TextIOBase):
    def __init__(self):
        super().__init__()
        self.raw = []          # the characters written by the process
        self.term = []         # the same with the echo of ENTER after every press-ENTER prompt
        self.asks = 0

    def writable(self):
        return True

    def write(self, s):
        self.raw.append(s)
        self.term.append(s)
        return len(s)


_APP = dict(n=0)


def _app():
    from simpleline import App
    if _APP["n"] % 300 == 0:
        App.initialize()
    _APP["n"] += 1
    return App


def impl_draw(win, w, H, no_sep, max_asks=400):
    """win = ["window", title, items].  Returns dict(raw, term, outcome, asks)."""
    from simpleline.render.screen import UIScreen
    from simpleline.render.screen_stack import ScreenData
    from simpleline.input.input_handler import InputHandler
    App = _app()
    App.get_configuration().width = w
    sched = App.get_scheduler()
    loop = App.get_event_loop()

    class Screen(UIScreen):
        pass

    s = Screen(win[1], H)
    for k, x in enumerate(win[2]):
        obj = rc.build(x)
        if (len(str(x)) + w + k) % 3 == 0:
            # this item was shown before (an application keeps its containers and adds them to a fresh window on every
            # refresh): what it contributes now must not depend on that
            for w0 in (w, max(1, w // 2)):
                try:
                    with lib.time_limit(20):
                        obj.render(w0)
                except Exception:      # noqa  (a refusal of the earlier render is not this draw's business)
                    pass
        s.window.add(obj)
    s.no_separator = no_sep
    out = _Out()
    raised = []

    def ask(prompt):
        out.asks += 1
        if out.asks > max_asks:
            raise _Runaway()
        handler = InputHandler(source=s.input_manager)
        req = handler.create_thread_object(prompt)          # InputHandlerRequest(App width, prompt, handler)
        req._get_input = lambda: ""                          # the user presses ENTER
        r = req._ask_input()                                 # sys.stdout.write(text_prompt()); flush
        out.term.append("\n")                                # ... and the terminal echoes the line break
        return r
    s._ask_user_input_blocking = ask
    real_enqueue = loop.enqueue_signal

    def enqueue(sig):
        info = getattr(sig, "exception_info", None)
        raised.append(info[0].__name__ if info else type(sig).__name__)
    loop.enqueue_signal = enqueue
    real = sys.stdout
    sys.stdout = out
    try:
        sched._draw_screen(ScreenData(s))
    except _Runaway:
        raised.append("runaway")
    except Exception as e:   # noqa  (_draw_screen lets ExitMainLoop through only)
        raised.append("escaped:" + type(e).__name__)
    finally:
        sys.stdout = real
        loop.enqueue_signal = real_enqueue
    outcome = 0 if not raised else (1 if raised == ["ValueError"] else [9] + raised)
    return dict(raw="".join(out.raw), term="".join(out.term), outcome=outcome, asks=out.asks)


def model_draws(cases):
    """cases: [(win, w, H, no_sep)] -> [[0, stream, outcome] | [3]]"""
    return lib.model_run("screenout", [[bool(ns), rc.wire_tree(win), w, H] for win, w, H, ns in cases])


# ------------------------------------------------------------------ the property on a stream
def direct_chars(stream, strings):
    """None or a sentence: a control character that is not a non-whitespace character of the application's strings"""
    app = set("".join(strings)) - TW_SPACE
    for i, ch in enumerate(stream):
        o = ord(ch)
        if ch == "\n" or (32 <= o and o != 127):
            continue
        if ch in app:
            continue
        return "character %r at offset %d of the output is not a line feed and not a non-blank character of the application's strings" % (ch, i)
    return None


def too_long(term, w):
    return [l for l in term.split("\n") if len(l.rstrip(" ")) > w]


def direct_separator(raw, w, no_sep, raw_without):
    sep = "=" * w + "\n" + "=" * w + "\n"
    if no_sep:
        return None
    if not raw.startswith(sep):
        return "the draw does not start with two lines of exactly %d '=': it starts with %r" % (w, raw[:2 * w + 6])
    if raw_without is not None and raw != sep + raw_without:
        return "the draw with separator is not the separator followed by the draw without it"
    return None


# ------------------------------------------------------------------ generators
CTRL_WORDS = ["tab\there", "cr\rhere", "vt\x0bhere", "ff\x0chere", "a\r\nb", "\t", "x\t\ty", "end\r", "\x0c\x0b"]
ESC_WORDS = ["\x1b[2Jclear", "bs\x08\x08", "del\x7f", "\x1b[1A", "bell\x07", "nul\x00x", "unit\x1fsep"]


def rand_ctrl_text(rng, esc):
    parts = []
    for _ in range(rng.randrange(1, 7)):
        r = rng.random()
        if r < 0.45:
            parts.append(rng.choice(CTRL_WORDS))
        elif r < 0.6 and esc:
            parts.append(rng.choice(ESC_WORDS))
        else:
            parts.append(rng.choice(rc.WORDS))
        parts.append(rng.choice([" ", " ", "\t", "\n", "\r", ""]))
    return "".join(parts)


def gen_window(rng, stream):
    """stream: 'plain' (render_common trees), 'fit' (fitting trees only), 'ctrl' (TAB/CR/VT/FF in the texts), 'esc' (ESC/BS/DEL too)"""
    title = rng.choice([None, "", "Title", "A longer title of the screen that may well have to be wrapped", rc.rand_text(rng, 6, False)])
    if stream in ("ctrl", "esc") and rng.random() < 0.4:
        title = rand_ctrl_text(rng, stream == "esc").replace("\n", " ")
    items = []
    for _ in range(rng.randrange(0, 8)):
        if stream in ("ctrl", "esc"):
            r = rng.random()
            if r < 0.5:
                items.append(["text", rand_ctrl_text(rng, stream == "esc")])
            elif r < 0.8:
                items.append(["list", rng.choice(["row", "col"]), rng.randrange(1, 4),
                              [["text", rand_ctrl_text(rng, stream == "esc")] for _ in range(rng.randrange(0, 5))],
                              None, rng.choice([3, 1]), rng.choice([["", ") ", 1], None, ["\t", "\r ", 9]])])
            else:
                items.append(["checkbox", rng.choice(["x", "\t"]), rand_ctrl_text(rng, stream == "esc").replace("\n", " "), None, True])
            continue
        for _try in range(20):
            t = rc.rand_tree(rng, 2, False)
            if stream != "fit" or fitting(t):
                break
        else:
            t = ["text", rc.rand_text(rng)]
        items.append(t)
    return ["window", title, items]


def rand_width(rng):
    return rng.choice([80, 80, 40, 20, rng.randrange(1, 121), rng.randrange(1, 31), rng.randrange(1, 12)])


def rand_height(rng):
    return rng.choice([30, 30, 30, 12, 8, 6, 5, 4, 3, rng.randrange(3, 13)])


# ------------------------------------------------------------------ (a) + (b)
DIRECTED_CHECKBOX = [
    dict(kind="render", tree=["checkbox", "x", None, None, True], w=2),
    dict(kind="render", tree=["list", "row", 1, [["checkbox", "x", None, None, True]], None, 3, ["", ") ", 1]], w=5),
    dict(kind="draw", win=["window", None, [["list", "row", 1, [["checkbox", "x", None, None, True]], None, 3, ["", ") ", 1]]]], w=5, H=30,
         no_sep=True),
]


def check_directed(chk):
    """the known finding, on the real implementation, on every run"""
    from simpleline import App
    for c in DIRECTED_CHECKBOX:
        chk.count()
        if c["kind"] == "render":
            r = rc.impl_render(rc.build(c["tree"]), c["w"])
            lines = [uncps(l) for l in r[1]] if r[0] == 0 else []
        else:
            d = impl_draw(c["win"], c["w"], c["H"], c["no_sep"])
            lines = d["term"].split("\n")
        long = [l for l in lines if len(l.rstrip(" ")) > c["w"]]
        chk.hist("directed:titleless-checkbox=%s" % ("overflow" if long else "fits"))
        if long:
            chk.violation("titleless-checkbox-wider-than-width",
                          "C17_titleless_checkbox_refuted: a CheckboxWidget without title and text keeps its 3-character box: %r is longer than the width %d (%s)"
                          % (long[0], c["w"], c["kind"]), dict(c, lines=lines), found=True)
    App.get_configuration().width = 80


def check_draws(chk, tier):
    rng = chk.rng
    n = dict(quick=dict(plain=1200, fit=1200, ctrl=600, esc=400), thorough=dict(plain=25000, fit=25000, ctrl=12000, esc=6000))[tier]
    cases = []
    for stream in ("plain", "fit", "ctrl", "esc"):
        for _ in range(n[stream]):
            cases.append((gen_window(rng, stream), rand_width(rng), rand_height(rng), rng.random() < 0.3, stream))
    # boundary sweep: one fixed window at every width 1..120, separator on
    sweep = ["window", "Boundary sweep of the configured width",
             [["text", "some words to be wrapped at every width, e.g. this semi-detached sentence"],
              ["list", "col", 2, [["text", "alpha beta"], ["text", "gamma"], ["checkbox", "x", "done", "really", True]], None, 3, ["", ") ", 1]]]]
    for w in range(1, 121):
        cases.append((sweep, w, 6, False, "sweep"))
    model = model_draws([(win, w, H, ns) for win, w, H, ns, _ in cases])
    first = True
    for (win, w, H, ns, stream), m in zip(cases, model):
        d = impl_draw(win, w, H, ns)
        chk.count()
        case = dict(kind="draw", win=win, w=w, H=H, no_sep=ns)
        strings = tree_strings(win)
        chk.hist("draw:%s" % stream)
        chk.hist("draw:outcome=%s" % (d["outcome"] if isinstance(d["outcome"], int) else "other"))
        chk.hist("draw:asks=%s" % (d["asks"] if d["asks"] < 3 else "3+"))
        chk.hist("draw:width<=20" if w <= 20 else "draw:width>20")
        if d["outcome"] == 0 and len(win[2]) >= 2:
            content = d["raw"].split("\n")
            title_wraps = bool(win[1]) and len(win[1]) > w
            text_wraps = any(x[0] == "text" and any(len(l) > w for l in x[1].split("\n")) for x in win[2])
            if title_wraps or d["asks"] >= 1 or text_wraps:
                chk.nontriv(case)
        if first and d["outcome"] == 0 and d["asks"] >= 1:
            first = False
            chk.sample(dict(case, raw=d["raw"]))
        # ---- (b) the property, directly
        msg = direct_chars(d["raw"], strings)
        if msg:
            _viol(chk, "control-char", "C17_append_only/C17_charset_framework: %s [width %d]" % (msg, w), dict(case, impl=d, model=m))
        raw_without = None
        if not ns and d["outcome"] == 0 and rng.random() < 0.5:
            raw_without = impl_draw(win, w, H, True)["raw"]
        msg = direct_separator(d["raw"], w, ns, raw_without)
        if msg:
            _viol(chk, "separator", "C17_separator_first/C17_separator_width: %s [width %d]" % (msg, w), dict(case, impl=d, model=m))
        long = too_long(d["term"], w)
        if long:
            if fitting(win):
                _viol(chk, "line-too-long", "C17_width: the line %r has %d characters at width %d" % (long[0], len(long[0].rstrip(" ")), w),
                      dict(case, impl=d, model=m))
            else:
                dwin, nbox = debox(win)
                if nbox and fitting(dwin):
                    # the tree is fitting but for title-less checkboxes: is the overflow exactly theirs?
                    d2 = impl_draw(dwin, w, H, ns)
                    if not too_long(d2["term"], w):
                        chk.hist("draw:titleless-checkbox-overflow")
                        chk.violation("titleless-checkbox-wider-than-width",
                                      "C17_titleless_checkbox_refuted: %r is longer than the width %d only because of the fixed 3-character box of a "
                                      "CheckboxWidget without title and text" % (long[0], w), dict(case, impl=d), found=True)
                    else:
                        _viol(chk, "line-too-long", "C17_width: the line %r has %d characters at width %d (also with the title-less checkboxes "
                              "replaced by texts)" % (long[0], len(long[0].rstrip(" ")), w), dict(case, impl=d, model=m))
                else:
                    chk.hist("draw:wider-by-construction")     # ColumnWidget / forced column width: outside the theorem
        # ---- (a) correspondence
        if m[0] != 0:
            chk.hist("draw:model=chunk-contract")          # the oracle does not meet chunks_ok: outside the model
            continue
        if m[2] == 2:
            chk.hist("draw:model=out-of-model")            # a negative draw column (forced widths wider than the screen)
            continue
        if not isinstance(d["outcome"], int):
            _viol(chk, "stream-differs", "a draw ended with %s; the model of _draw_screen knows completed / ValueError only" % (d["outcome"],),
                  dict(case, impl=d, model=m), found=(m[2] in (0, 1)))
            continue
        if cps(d["raw"]) != m[1] or d["outcome"] != m[2]:
            _viol(chk, "stream-differs", "C17_charset_draw/C17_stream_fits_screen: the draw wrote %r (outcome %s); the proved model gives %r (outcome %s) "
                  "[width %d height %d]" % (d["raw"][-160:], d["outcome"], uncps(m[1])[-160:], m[2], w, H), dict(case, impl=d, model=m),
                  found=(m[2] in (0, 1)))
    from simpleline import App
    App.get_configuration().width = 80


# ------------------------------------------------------------------ (c) prompts
PKEYS = ["c", "q", "r", "h", "1", "10", "yes", "no", "a b", "", "é", "k\te", "k\x1by"]
PDESCS = ["to quit", "to continue", "to refresh", "", "x", "to do  it", "a, b", "]", "very long description of an option that goes on and on",
          "tab\there", "cr\rhere", "esc\x1b[0m"]
PMSGS = [None, "", "Please make a selection from the above", "Pick", "a\nb", "  ", "Installation is going to be performed now: confirm",
         "\nPress ENTER to continue", "message with\ttab and\rreturn", "averyveryveryveryveryveryverylongwordthatmustbesplit", "esc\x1b[2J"]


def gen_prompt(rng):
    return dict(msg=rng.choice(PMSGS), opts=[[rng.choice(PKEYS), rng.choice(PDESCS)] for _ in range(rng.randrange(0, 7))],
                default=rng.random() < 0.3)


def build_prompt(c):
    from simpleline.render.prompt import Prompt
    p = Prompt(c["msg"])
    if c["default"]:
        p.add_refresh_option()
        p.add_continue_option()
        p.add_quit_option()
    for k, d in c["opts"]:
        p.add_option(k, d)
    return p


def impl_text_prompt(c, w):
    import logging
    from simpleline.input.input_handler import InputHandlerRequest
    logging.getLogger("simpleline").disabled = True
    p = build_prompt(c)
    try:
        return str(p), [0, InputHandlerRequest(w, p, types.SimpleNamespace(source=None)).text_prompt()]
    except ValueError:
        return str(p), [1]


def prompt_strings(c):
    out = [c["msg"] or ""] + [k + d for k, d in c["opts"]]
    if c["default"]:
        out += ["r to refresh", "c to continue", "q to quit"]
    return out


def direct_prompt(tp, w, strings):
    msg = direct_chars(tp, strings)
    if msg:
        return "control-char", "C17_charset_framework_prompt: " + msg
    if not tp.endswith(" "):
        return "line-too-long", "C17_width_prompt: the prompt %r does not end with one blank" % tp[-20:]
    lines = tp.split("\n")
    for l in lines:
        if len(l.rstrip(" ")) > w:
            return "line-too-long", "C17_width_prompt: the prompt line %r has %d characters at width %d" % (l, len(l.rstrip(" ")), w)
    for l in lines[:-1]:
        if len(l) > w:
            return "line-too-long", "C17_width_prompt: the prompt line %r has %d characters at width %d" % (l, len(l), w)
    if len(lines[-1]) > w + 1:
        return "line-too-long", "C17_width_prompt: the last prompt line %r has %d characters at width %d" % (lines[-1], len(lines[-1]), w)
    return None


def check_prompts(chk, tier):
    rng = chk.rng
    n = 3000 if tier == "quick" else 60000
    cases = [(dict(msg="Please make a selection from the above", opts=[], default=True), w) for w in range(1, 121)]
    cases += [(gen_prompt(rng), rand_width(rng)) for _ in range(n)]
    impls = [impl_text_prompt(c, w) for c, w in cases]
    model = rc.model_render([(["text", s], w) for (c, w), (s, _) in zip(cases, impls)])
    for (c, w), (s, tp), m in zip(cases, impls, model):
        chk.count()
        case = dict(kind="prompt", case=c, w=w)
        chk.hist("prompt:outcome=%d" % tp[0])
        if tp[0] == 0:
            if tp[1].count("\n") >= 1:
                chk.nontriv(case)
            chk.hist("prompt:lines=%s" % (min(tp[1].count("\n") + 1, 4)))
            d = direct_prompt(tp[1], w, prompt_strings(c))
            if d:
                _viol(chk, d[0], "%s [width %d]" % (d[1], w), dict(case, impl=tp, str=s))
        want = [0, "\n".join(uncps(l) for l in m[1]) + " "] if m[0] == 0 else [m[0]]
        if tp != want:
            _viol(chk, "stream-differs", "C17_width_prompt/C17_charset_prompt: text_prompt of %r at width %d is %r, the proved model gives %r"
                  % (s, w, tp, want), dict(case, impl=tp, model=want, str=s), found=(m[0] in (0, 1)))
    chk.sample(dict(prompt=cases[39][0], w=cases[39][1], text_prompt=impls[39][1]))


# ------------------------------------------------------------------ entry points
def check_help_screen(chk, tier):
    """adv_widgets.HelpScreen with a help FILE: its refresh() shows the file's text as one TextWidget followed by a separator;
    the window it renders must be, line for line, what the proved model renders for that tree (title "Help", the text, a blank
    line) — in particular no line is wider than the width."""
    import tempfile, os
    from simpleline.render.adv_widgets import HelpScreen
    rng = chk.rng
    fixed = ["    an indented entry of a list that is long enough to be wrapped more than once at small widths\nplain line",
             "Usage:\n\n  -v   be verbose, print more messages than anybody could possibly want to read in a single line\n  -q   quiet",
             "", "one line"]
    texts = fixed + [rc.rand_text(rng, 12) for _ in range(dict(quick=40, thorough=400)[tier])]
    cases = []
    for t in texts:
        if "\r" in t or "\x0b" in t or "\x0c" in t:
            continue          # universal-newline translation of the file object is not the subject here
        for w in (rng.choice([20, 33, 40, 80]), rng.randrange(4, 60)):
            cases.append((t, w))
    models = rc.model_render([(["window", "Help", [["text", t], ["sep", 1]]], w) for t, w in cases])
    for (t, w), m in zip(cases, models):
        chk.count(); chk.hist("help-screen")
        fd, path = tempfile.mkstemp(prefix="verif_help_", suffix=".txt")
        try:
            with os.fdopen(fd, "w", encoding="utf-8") as f:
                f.write(t)
            hs = HelpScreen(path)
            hs.refresh()
            i = rc.impl_render(hs.window, w)
        finally:
            os.unlink(path)
        if i != m:
            lines = [uncps(l) for l in i[1]] if i[0] == 0 else i
            wide = i[0] == 0 and any(len(l) > w for l in lines)
            _viol(chk, "help-screen", "C17_width / C17_charset_render: HelpScreen showing the file text %r at width %d renders %r, the proved model %r"
                  % (t[:80], w, lines[:8], ([uncps(l) for l in m[1]][:8] if m[0] == 0 else m)),
                  dict(kind="help", text=t, w=w), found=wide)
            return
        if i[0] == 0 and len(i[1]) > 3:
            chk.nontriv(dict(help=t[:40], w=w))


def run(chk, tier):
    lib.use_repo()
    import logging
    logging.getLogger("simpleline").disabled = True
    check_directed(chk)
    check_help_screen(chk, tier)
    check_draws(chk, tier)
    check_prompts(chk, tier)

    # whole application sessions on the real App (harness/screen_check.py): the separator before every draw
    # (acceptor chk_C17sep of ScreenMon.v) and a scan of everything written to the console, including re-printed prompts
    import screen_check
    screen_check.run(chk, tier, "C17")

def replay(path):
    lib.use_repo()
    r = json.load(open(path))["replay"]
    k = r["kind"]
    if k == "draw":
        d = impl_draw(r["win"], r["w"], r["H"], r["no_sep"])
        m = model_draws([(r["win"], r["w"], r["H"], r["no_sep"])])[0]
        print("impl :", repr(d["raw"]), d["outcome"])
        print("model:", repr(uncps(m[1])) if m[0] == 0 else m, m[2] if m[0] == 0 else "")
        long = too_long(d["term"], r["w"])
        msg = direct_chars(d["raw"], tree_strings(r["win"]))
        print("direct: control-char=%s too-long=%r separator=%s" % (msg, long[:1], direct_separator(d["raw"], r["w"], r["no_sep"], None)))
        same = m[0] == 0 and cps(d["raw"]) == m[1] and d["outcome"] == m[2]
        return 0 if same and not msg and not (long and fitting(r["win"])) else 1
    if k == "help":
        import tempfile, os
        from simpleline.render.adv_widgets import HelpScreen
        fd, path = tempfile.mkstemp(prefix="verif_help_", suffix=".txt")
        with os.fdopen(fd, "w", encoding="utf-8") as f:
            f.write(r["text"])
        hs = HelpScreen(path); hs.refresh()
        i = rc.impl_render(hs.window, r["w"]); os.unlink(path)
        m = rc.model_render([(["window", "Help", [["text", r["text"]], ["sep", 1]]], r["w"])])[0]
        print("impl :", [uncps(l) for l in i[1]] if i[0] == 0 else i)
        print("model:", [uncps(l) for l in m[1]] if m[0] == 0 else m)
        return 0 if i == m else 1
    if k == "render":
        i = rc.impl_render(rc.build(r["tree"]), r["w"])
        print("impl :", [uncps(l) for l in i[1]] if i[0] == 0 else i)
        return 1 if i[0] == 0 and any(len(l) > r["w"] for l in i[1]) else 0
    if k == "prompt":
        s, tp = impl_text_prompt(r["case"], r["w"])
        m = rc.model_render([(["text", s], r["w"])])[0]
        want = [0, "\n".join(uncps(l) for l in m[1]) + " "] if m[0] == 0 else [m[0]]
        print("impl :", tp); print("model:", want)
        return 0 if tp == want and not (tp[0] == 0 and direct_prompt(tp[1], r["w"], prompt_strings(r["case"]))) else 1
    print("nothing to replay for kind", k)
    return 1
