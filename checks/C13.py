"""C13 — list containers show every item once, in order, without overlap, within width.

Correspondence: the real ListRowContainer / ListColumnContainer (imported from /repo) against the
extracted Gallina `render_tree` (Containers.v) on the same (tree, width): full get_lines() or ValueError.
The theorems of props/C13.v determine the model's answer (ordering maps, row heights, refusal, column
positions, width bound), so a disagreement is a concrete violation.  In addition the property is
evaluated DIRECTLY on the implementation's output for flat lists of letter-only texts: every label
occurs exactly once, labels are laid out row-major / column-major on a grid, no letter of any item is
lost (overlap), everything else is a blank, no line is longer than the width (no forced column width), and ValueError is raised
exactly when the refusal condition of C13_refusal holds."""
import json, math, collections
import lib
import render_common as rc

RULE = ("cases = (kind row/col, columns, items, forced column width|None, spacing, numbering pattern|None, width); "
        "exhaustive over item count x columns (quick 0..8 x 1..4, thorough 0..12 x 1..5) x kind x spacing 0..4 x "
        "4 numberings (default, off, '[{}] ' from 0, '{}. ' from 98 so labels widen at 99->100) x widths around the refusal "
        "boundary and generous ones x 3 text families (1-3 words, with empty items) ; forced column widths; lists nested in "
        "lists; random widget trees under a list; a malformed stream (columns <= 0, negative spacing/width); "
        "non-trivial = the list is drawn, has at least 2 rows (items > columns) and some cell wraps (more lines than rows)")

MANIFEST = dict(
    text=("Proof: for every item count and column count the ordering maps of ListRowContainer/ListColumnContainer put item i at "
          "(column i mod c, row i div c) resp. (column i div p, row i mod p), p = ceil(n/c), each column increasing, the columns a "
          "partition of 0..n-1 (C13_order_row*, C13_order_col*, column-major: concat = 0..n-1); a list is drawn only if every item keeps "
          ">= 1 character column beside its label and is refused with ValueError otherwise (C13_refusal, C13_refused_narrow, "
          "C13_refused_label, C13_refused_label_texts); the height of a row is the maximum over its items of max(item lines, label lines) "
          "(C13_row_heights, C13_row_items_row/col, C13_item_height_numbered); with spacing >= 0, column k starts at "
          "k*(columns_width+spacing) and the item at (k, r) is drawn at row rowstart(r) = sum of the row heights above (C13_layout, "
          "C13_placements), the rectangles of different items are disjoint (C13_no_overlap, C13_item_inside_rect), every label and item "
          "is readable in full at its place in the final buffer (C13_cells), every other cell is a blank and the buffer is, cell for cell and "
          "in height, the function 'content of the covering label/item, blank where a stamp on the row starts further right, no cell "
          "otherwise' of the proved placements (C13_blank_elsewhere, C13_blank_outside_rects, C13_render_determined, C13_buffer_ext), and without a forced width every line is at most w long, "
          "for texts, separators, centred widgets, list containers and windows nested in any way (C13_within_width, using C11_width); "
          "all closed under the global context.  The model is tied to /repo on every run by rendering the same enumerated and random "
          "trees with the real containers and the extracted model, and the property is also evaluated directly on the implementation's lines."),
    note=("Trusted: Coq kernel; extraction; harness.  The _partial theorems are the same statements relative to explicit hypotheses on "
          "the sub-widgets (rendered at width w' they are at most w' wide), for item kinds outside the 'plain' class (ColumnWidget, "
          "CheckboxWidget, lists with a forced column width can be wider than asked: for them only the hypothesis-relative statements hold).  "
          "Spacing < 0, columns <= 0 and a forced column width reaching a negative column are outside the model (OutOfModel).  "
          "textwrap's chunker is an oracle checked per case."),
    technique="Coq theorems over a Gallina model of the list containers + differential correspondence run and direct evaluation against /repo")

PATS = [["", ") ", 1], None, ["[", "] ", 0], ["", ". ", 98]]
WORDS = ["a", "bb", "item", "number", "x", "hello", "zz"]


def texts(n, fam):
    out = []
    for i in range(n):
        if fam == 2 and i % 4 == 1:
            out.append("")
            continue
        k = 1 + (i + fam) % 3
        out.append(" ".join(WORDS[(i * (fam + 1) + j) % len(WORDS)] for j in range(k)))
    return out


def label(pat, i):
    return pat[0] + str(i + pat[2]) + pat[1]


def py_int_div(a, b):
    return int(a / b)


def columns_width(spec, w):
    _, kind, c, items, forced, s, pat = spec
    if forced is not None:
        return forced
    return py_int_div(w - (c - 1) * s, c)


def refusal_expected(spec, w):
    """C13_refusal / C13_refused_*: for a flat list of text items, ValueError iff ..."""
    _, kind, c, items, forced, s, pat = spec
    if not items:
        return False
    cw = columns_width(spec, w)
    if cw <= 0:
        return True
    if pat is not None:
        return any(cw - len(label(pat, i)) <= 0 for i in range(len(items)))
    return False


def is_flat_letters(spec):
    return all(x[0] == "text" and all(ch.isalpha() or ch == " " for ch in x[1]) for x in spec[3])


def find_token(lines, tok, tight=False):
    """positions (line, col) where tok stands as a whole token (tight: the key pattern does not end in a blank, the item's
    text follows its label directly)"""
    out = []
    for li, l in enumerate(lines):
        start = 0
        while True:
            j = l.find(tok, start)
            if j < 0:
                break
            before = l[j - 1] if j > 0 else " "
            after = l[j + len(tok)] if j + len(tok) < len(l) else " "
            if not before.isdigit() and (after == " " or tight):
                out.append((li, j))
            start = j + 1
    return out


def direct_eval(spec, w, res):
    """Evaluate the property on the implementation's result; returns (key, sentence) or None."""
    _, kind, c, items, forced, s, pat = spec
    n = len(items)
    exp_refuse = refusal_expected(spec, w)
    if res[0] == 1:
        if not exp_refuse:
            return ("refusal", "ValueError although every item has room (C13_refused_* do not apply, the model draws it)")
        return None
    if res[0] != 0:
        return None
    if exp_refuse:
        return ("refusal", "drawn although C13_refusal demands a ValueError (an item or its label has no room)")
    lines = [lib.uncps(l) for l in res[1]]
    if forced is None and s >= 0 and any(len(l) > max(w, 0) for l in lines):
        return ("too-wide", "a line is longer than the requested width %d (C13_within_width)" % w)
    # no letter of any item may be lost or duplicated
    want = collections.Counter(ch for x in items for ch in x[1] if ch.isalpha())
    got = collections.Counter(ch for l in lines for ch in l if ch.isalpha())
    if pat is None:
        if want != got:
            return ("overlap", "the letters shown differ from the letters of the items (something was overwritten)")
        if any(not (ch.isalpha() or ch == " ") for l in lines for ch in l):
            return ("not-blank", "a cell outside every item is not a blank (C13_blank_elsewhere)")
        return None
    allowed = set(" ") | {ch for i in range(n) for ch in label(pat, i)}
    if any(not (ch.isalpha() or ch in allowed) for l in lines for ch in l):
        return ("not-blank", "a cell outside every label and item holds a character that is not a blank (C13_blank_elsewhere)")
    # numbered: every label exactly once, on the grid, in order
    pos = []
    for i in range(n):
        tok = label(pat, i).strip()
        p = find_token(lines, tok, tight=not label(pat, i).endswith(" "))
        if len(p) != 1:
            if len(p) == 0 and any(x[1].strip() == "" for x in items):
                return ("empty-item-row", "label %r of item %d is not shown: an item that renders to no line lost its row "
                        "(C13_item_height_numbered, C13_row_heights)" % (tok, i))
            return ("overlap" if len(p) == 0 else "order", "label %r of item %d occurs %d times (C13_order_*_partition: exactly once)" % (tok, i, len(p)))
        pos.append(p[0])
    if want != got:
        return ("overlap", "the letters shown differ from the letters of the items (something was overwritten)")
    # blank elsewhere: apart from the letters of the items and the labels (each found once) everything is a space
    other = sum(1 for l in lines for ch in l if not ch.isalpha() and ch != " ")
    if other != sum(len(label(pat, i).replace(" ", "")) for i in range(n)):
        return ("not-blank", "a cell outside every label and item is not a blank (C13_blank_elsewhere, C13_render_determined)")
    p_col = math.ceil(n / c) if n else 0
    def grid(i):
        return (i % c, i // c) if kind == "row" else (i // p_col, i % p_col)
    colpos, rowpos = {}, {}
    for i in range(n):
        k, r = grid(i)
        li, cj = pos[i]
        if colpos.setdefault(k, cj) != cj or rowpos.setdefault(r, li) != li:
            return ("order", "item %d is not on the grid position (column %d, row %d) that C13_order_%s gives" % (i, k, r, kind))
    ks = sorted(colpos)
    rs = sorted(rowpos)
    if any(colpos[a] >= colpos[b] for a, b in zip(ks, ks[1:])) or any(rowpos[a] >= rowpos[b] for a, b in zip(rs, rs[1:])):
        return ("order", "columns / rows are not laid out in increasing order (C13_order_%s, C13_no_overlap)" % kind)
    if s >= 0:
        cw = columns_width(spec, w)
        for k in ks:
            if colpos[k] != k * (cw + s):
                return ("overlap", "column %d starts at %d, not at k*(columns_width+spacing)=%d (C13_layout_partial)" % (k, colpos[k], k * (cw + s)))
    return None


# ------------------------------------------------------------------ case generation
def widths_for(c, s, pat, n, forced):
    if forced is not None:
        return [20]
    lab = max([len(label(pat, i)) for i in range(max(n, 1))]) if pat is not None else 0
    wb = c * lab + (c - 1) * s          # columns_width == longest label: the refusal boundary
    return sorted({wb - 1, wb, wb + 1, wb + c - 1, wb + c, wb + 2 * c + 1, wb + 4 * c, 30, 79})


def gen_exhaustive(tier):
    nmax, cmax = (8, 4) if tier == "quick" else (12, 5)
    cases = []
    for n in range(0, nmax + 1):
        for c in range(1, cmax + 1):
            for kind in ("row", "col"):
                for s in range(0, 5):
                    for pi, pat in enumerate(PATS):
                        for fam in range(3):
                            if tier == "quick" and (n + c + s + pi + fam) % 3 != 0:
                                continue
                            items = [["text", t] for t in texts(n, fam)]
                            ws = widths_for(c, s, pat, n, None)
                            if tier == "quick":
                                ws = ws[(n + s) % 2::2]
                            for w in ws:
                                cases.append((["list", kind, c, items, None, s, pat], w))
                            if (n + c + s + fam) % 4 == 0:
                                for forced in (0, 2, 4, 5, 9):
                                    cases.append((["list", kind, c, items, forced, s, pat], 20))
    return cases


def gen_nested(tier, rng):
    cases = []
    outer_n = range(0, 5) if tier == "thorough" else range(1, 4)
    for n_out in outer_n:
        for c_out in (1, 2, 3):
            for kind_out in ("row", "col"):
                for pat_out in (PATS[0], None):
                    inner = []
                    for i in range(n_out):
                        n_in = (i * 2 + c_out) % 4
                        inner.append(["list", "col" if (i + c_out) % 2 else "row", 1 + (i % 2),
                                      [["text", t] for t in texts(n_in, i % 3)], None, 1 + (i % 3),
                                      PATS[(i + n_out) % len(PATS)]])
                    for w in (8, 14, 20, 27, 40, 60):
                        cases.append((["list", kind_out, c_out, inner, None, 2, pat_out], w))
    # list inside a window / centred, and mixed items
    for w in (10, 25, 50):
        l = ["list", "row", 2, [["text", "alpha beta"], ["sep", 1], ["text", ""], ["checkbox", "x", "title", "txt", True]], None, 3, PATS[0]]
        cases.append((["window", "Title", [l, ["center", l]]], w))
    return cases


def gen_random(tier, rng):
    cases = []
    nr = 600 if tier == "quick" else 40000
    for _ in range(nr):
        t = rc.rand_tree(rng, depth=2, allow_window=False)
        if t[0] != "list":
            t = ["list", rng.choice(["row", "col"]), rng.randrange(1, 5), [t] + [rc.rand_tree(rng, 1, False) for _ in range(rng.randrange(0, 6))],
                 rng.choice([None] * 4 + [7, 15]), rng.choice([0, 1, 3, 3]), rng.choice(PATS)]
        cases.append((t, rng.choice([rng.randrange(1, 30), rng.randrange(20, 90), 80])))
    return cases


def gen_malformed(rng):
    base = [["text", "aa bb"], ["text", "c"]]
    out = []
    for c in (0, -1):
        out.append((["list", "row", c, base, None, 3, PATS[0]], 20))
    for s in (-1, -4):
        out.append((["list", "col", 2, base, None, s, PATS[0]], 20))
        out.append((["list", "row", 2, [], None, s, None], 20))
    for w in (0, -3):
        out.append((["list", "row", 2, base, None, 3, PATS[0]], w))
        out.append((["list", "row", 2, [], None, 3, PATS[0]], w))
    out.append((["list", "row", 3, base, 30, 3, PATS[0]], 10))
    return out


def nontrivial(spec, w, res):
    if spec[0] != "list" or res[0] != 0:
        return False
    n, c = len(spec[3]), spec[2]
    if c <= 0 or n <= c:
        return False
    rows = math.ceil(n / c)
    return len(res[1]) > rows


def classify_mismatch(spec, w, i, m):
    if (i[0] == 1) != (m[0] == 1):
        return "refusal"
    if i[0] == 0 and spec[0] == "list" and spec[4] is None and any(len(l) > max(w, 0) for l in i[1]):
        return "too-wide"
    return "layout-differs"


def build_grown(spec):
    """The tree of `spec` built WITHOUT the last item of one of its list containers (a nested one when there is one, else the
    top one) plus the function that adds that item afterwards: a container shown once and then extended must lay out like
    one built complete.  None when the spec has no list item to withhold."""
    if spec[0] != "list" or not spec[3]:
        return None
    inner_at = next((k for k, x in enumerate(spec[3]) if x[0] == "list" and x[3]), None)
    if inner_at is None:
        short = list(spec); short[3] = spec[3][:-1]
        obj = rc.build(short)
        return obj, (lambda: obj.add(rc.build(spec[3][-1])))
    inner = spec[3][inner_at]
    ishort = list(inner); ishort[3] = inner[3][:-1]
    iobj = rc.build(ishort)
    outer = list(spec); outer[3] = []
    obj = rc.build(outer)
    for k, x in enumerate(spec[3]):
        obj.add(iobj if k == inner_at else rc.build(x))
    return obj, (lambda: iobj.add(rc.build(inner[3][-1])))


def evaluate(chk, cases, label_, first_width=None, grow=False):
    """first_width: the object is rendered once at that width before the render under test (a container that
    was already shown and is shown again at another width must lay out, fit and refuse exactly as a fresh one)."""
    bad = 0
    for off in range(0, len(cases), 4000):
        part = cases[off:off + 4000]
        res_m = rc.model_render(part)
        for (spec, w), m in zip(part, res_m):
            obj = rc.build(spec)
            if grow:
                g = build_grown(spec)
                if g is not None:
                    obj, add_last = g
                    rc.impl_render(obj, w)            # shown once, incomplete, at the SAME width
                    add_last()
            if first_width is not None:
                rc.impl_render(obj, first_width)
            i = rc.impl_render(obj, w)
            chk.count()
            chk.hist("stream=" + label_)
            chk.hist("impl=" + {0: "lines", 1: "ValueError", 9: "other-exception"}[i[0]])
            if spec[0] == "list":
                chk.hist("kind=%s" % spec[1]); chk.hist("n=%d" % min(len(spec[3]), 13)); chk.hist("columns=%d" % spec[2])
            if nontrivial(spec, w, i):
                chk.nontriv([spec, w])
            d = None
            if spec[0] == "list" and spec[2] > 0 and spec[5] >= 0 and is_flat_letters(spec):
                d = direct_eval(spec, w, i)
                chk.hist("direct-eval")
            if m[0] == 2:
                chk.hist("model=out-of-model")
            elif m[0] == 3:
                chk.hist("model=chunk-contract")
            if d is not None:
                bad += 1
                chk.violation(d[0], "ListContainer %s, width %d: %s; implementation %s, model %s"
                              % (json.dumps(spec)[:160], w, d[1], show(i), show(m)),
                              dict(kind="c13", spec=spec, width=w), found=True)
            elif m[0] in (0, 1) and i[:2] != m[:2]:
                bad += 1
                chk.violation(classify_mismatch(spec, w, i, m),
                              "render differs from the proved model (C13 theorems fix the layout): %s width %d -> implementation %s, model %s"
                              % (json.dumps(spec)[:160], w, show(i), show(m)),
                              dict(kind="c13", spec=spec, width=w), found=True)
            if bad > 60:
                return


def show(r):
    if r[0] == 0:
        return repr([lib.uncps(l) for l in r[1]])[:300]
    return {1: "ValueError", 2: "OutOfModel", 3: "chunk-contract"}.get(r[0], str(r))


def run(chk, tier):
    lib.use_repo()
    # the defect fixed by e6103fb, as a fixed first case
    fixed = [(["list", "row", 1, [["text", ""], ["text", "b"]], None, 3, PATS[0]], 20),
             (["list", "col", 2, [["text", "a"], ["text", ""], ["text", "c"]], None, 3, PATS[0]], 30)]
    for spec, w in fixed:
        chk.sample(dict(spec=spec, width=w, impl=show(rc.impl_render(rc.build(spec), w))), limit=6)
    evaluate(chk, fixed, "fixed")
    ex = gen_exhaustive(tier)
    for spec, w in ex[len(ex) // 2: len(ex) // 2 + 2]:
        chk.sample(dict(spec=spec, width=w, impl=show(rc.impl_render(rc.build(spec), w))), limit=6)
    evaluate(chk, ex, "exhaustive")
    evaluate(chk, gen_nested(tier, chk.rng), "nested")
    evaluate(chk, gen_random(tier, chk.rng), "random")
    evaluate(chk, gen_malformed(chk.rng), "malformed")
    # shown before at a generous width, then again at the width under test (re-rendered objects)
    again = gen_random(tier, chk.rng)
    evaluate(chk, again[:len(again) // 3], "shown-before-at-60", first_width=60)
    evaluate(chk, ex[::7], "exhaustive-shown-before-at-47", first_width=47)
    # shown once at the same width with one item (of a nested list, when there is one) still missing, then completed
    evaluate(chk, again[len(again) // 3:2 * len(again) // 3], "completed-after-a-render", grow=True)


def replay(path):
    lib.use_repo()
    r = json.load(open(path))["replay"]
    spec, w = r["spec"], r["width"]
    i = rc.impl_render(rc.build(spec), w)
    m = rc.model_render([(spec, w)])[0]
    print("spec :", json.dumps(spec)); print("width:", w)
    print("impl :", show(i)); print("model:", show(m))
    d = None
    if spec[0] == "list" and spec[2] > 0 and spec[5] >= 0 and is_flat_letters(spec):
        d = direct_eval(spec, w, i)
        print("direct evaluation:", d)
    return 1 if (d is not None or (m[0] in (0, 1) and i[:2] != m[:2])) else 0
