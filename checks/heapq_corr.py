#!/venv/bin/python
"""heapq_corr.py — correspondence of coq/theories/Heapq.v (the extracted `bin/model heapq`) with CPython's real heapq.

Not a numbered check: the theorems of coq/theories/props/Heapq.v are about the Gallina transcription of
Lib/heapq.py; this script checks that the transcription computes what the real thing computes, on the tuples
EventQueue stores: (priority, counter, signal) with pairwise distinct (priority, counter).

Compared, per operation sequence on an initially empty list: every popped tuple (or "IndexError / Empty" on an
empty list) AND the final list element by element (the array layout, not just its content), against
  * heapq as imported (the C accelerator _heapq when present),
  * the pure-Python Lib/heapq.py (loaded with _heapq hidden): the text Heapq.v was transcribed from,
  * queue.PriorityQueue (put / get_nowait / .queue): what EventQueue really calls.
The third tuple component is an object whose comparison methods raise: distinct counters mean it is never compared.

Cases: exhaustive — all permutations of 1..7 distinct priorities pushed then drained; all priority vectors over
{0,1,2} up to length 6 (ties, counters in arrival order); all sequences of length <= 8 over {pop, push 0, push 1};
all permutations of up to 6 distinct (p, c) keys with ties in p pushed in every order;
random — n sequences of up to 300 pushes over few priorities (many ties), pops interleaved, re-puts of popped entries
with their old counter (get_top_event_if_priority does that), then drained.

usage: checks/heapq_corr.py [n] [seed]      (run(n) from Python); prints one summary line; exit 1 on any difference."""
import sys, os, random, itertools, importlib.util, queue
sys.dont_write_bytecode = True
sys.path.insert(0, os.path.join(os.path.dirname(os.path.abspath(__file__)), "..", "harness"))
import heapq as heapq_c
import lib


class Sig:
    """the signal in the tuple: must never be looked at by a comparison"""
    __slots__ = ("i",)

    def __init__(self, i):
        self.i = i

    def _no(self, other):
        raise AssertionError("the third tuple component was compared")
    __lt__ = __le__ = __gt__ = __ge__ = __eq__ = __ne__ = _no
    __hash__ = object.__hash__


def load_pure_heapq():
    """Lib/heapq.py without the C accelerator."""
    saved = sys.modules.get("_heapq", False)
    sys.modules["_heapq"] = None          # `from _heapq import ...` raises ImportError
    try:
        spec = importlib.util.spec_from_file_location("heapq_pure", heapq_c.__file__)
        m = importlib.util.module_from_spec(spec)
        spec.loader.exec_module(m)
    finally:
        if saved is False:
            del sys.modules["_heapq"]
        else:
            sys.modules["_heapq"] = saved
    assert m.heappush.__module__ == "heapq_pure" and m.heappop.__module__ == "heapq_pure", "C accelerator leaked in"
    return m


def run_heapq(mod, ops):
    heap, popped = [], []
    for op in ops:
        if op[0] == 0:
            mod.heappush(heap, (op[1], op[2], Sig(op[3])))
        else:
            try:
                p, c, s = mod.heappop(heap)
                popped.append([[p, c, s.i]])
            except IndexError:
                popped.append([])
    return [0, popped, [[p, c, s.i] for (p, c, s) in heap]]


def run_pq(ops):
    pq, popped = queue.PriorityQueue(), []
    for op in ops:
        if op[0] == 0:
            pq.put((op[1], op[2], Sig(op[3])))
        else:
            try:
                p, c, s = pq.get_nowait()
                popped.append([[p, c, s.i]])
            except queue.Empty:
                popped.append([])
    return [0, popped, [[p, c, s.i] for (p, c, s) in pq.queue]]


# ------------------------------------------------------------------ cases
def push_all_then_drain(keys):
    """keys: list of (p, c); id = position"""
    return [[0, p, c, i] for i, (p, c) in enumerate(keys)] + [[1]] * (len(keys) + 1)


def exhaustive():
    fam = {}
    l = fam.setdefault("perm<=7", [])
    for k in range(1, 8):
        for perm in itertools.permutations(range(k)):
            l.append(push_all_then_drain([(p - 3, c) for c, p in enumerate(perm)]))
    l = fam.setdefault("ties<=6", [])
    for k in range(1, 7):
        for ps in itertools.product((0, 1, 2), repeat=k):
            l.append(push_all_then_drain(list(zip(ps, range(k)))))
    l = fam.setdefault("ops<=8", [])
    for k in range(0, 9):
        for shape in itertools.product((None, 0, 1), repeat=k):
            ops, c = [], 0
            for s in shape:
                if s is None:
                    ops.append([1])
                else:
                    ops.append([0, s, c, c]); c += 1
            l.append(ops)
    l = fam.setdefault("keyorders<=6", [])
    for k in range(1, 7):
        keys = [(c % 2, c) for c in range(k)]          # ties in p, distinct counters, pushed in EVERY order
        for perm in itertools.permutations(keys):
            l.append(push_all_then_drain(list(perm)))
    return fam


PRIO_SETS = [(0,), (0, 1), (-20, 0), (-20, 0, 20), (0, 1, 2, 3, 4), (-20, -10, 0, 10, 20, 30, 40)]


def random_case(rng):
    npush = rng.choice([rng.randint(1, 20), rng.randint(20, 120), rng.randint(120, 300), 300])
    prios = rng.choice(PRIO_SETS)
    ppop = rng.choice([0.0, 0.1, 0.3, 0.5])
    preput = rng.choice([0.0, 0.0, 0.2])
    ops, c, live, pushed = [], 0, [], 0     # live: what the queue holds, kept with the real heapq
    while pushed < npush:
        r = rng.random()
        if r < ppop:
            ops.append([1])
            if live:
                m = heapq_c.heappop(live)
                if rng.random() < preput:              # self._queue.put(entry): the same (p, c, signal) goes back
                    ops.append([0, m[0], m[1], m[2]])
                    heapq_c.heappush(live, m)
        else:
            p = rng.choice(prios)
            ops.append([0, p, c, c + 1000 * (c % 3)])
            heapq_c.heappush(live, (p, c, c + 1000 * (c % 3)))
            c += 1; pushed += 1
    if rng.random() < 0.8:
        ops += [[1]] * (len(live) + 1)                 # drain (and one pop too many)
    else:
        ops += [[1]] * rng.randint(0, len(live))       # leave a non-trivial final list
    return ops


def run(n=300, seed=None, extra_impls=()):
    """Compare model and implementations; returns the number of differing cases (0 = agreement)."""
    seed = int(os.environ.get("VERIF_SEED", "20240229")) if seed is None else seed
    rng = random.Random(seed)
    fam = exhaustive()
    fam["random"] = [random_case(rng) for _ in range(n)]
    pure = load_pure_heapq()
    impls = [("heapq(" + heapq_c.heappop.__module__ + ")", lambda ops: run_heapq(heapq_c, ops)),
             ("Lib/heapq.py", lambda ops: run_heapq(pure, ops)),
             ("queue.PriorityQueue", run_pq)] + list(extra_impls)
    bad, total, pops, maxlen, nonempty_final = 0, 0, 0, 0, 0
    counts = {}
    for name, cases in fam.items():
        counts[name] = len(cases)
        model = lib.model_run("heapq", cases, timeout=1200)
        for ops, m in zip(cases, model):
            total += 1
            pops += sum(1 for o in ops if o[0] == 1)
            maxlen = max(maxlen, sum(1 for o in ops if o[0] == 0))
            nonempty_final += bool(m[2])
            if m[0] != 0:
                bad += 1
                print("MODEL FAILURE status=%s (1 IndexError, 2 OutOfFuel) family=%s ops=%s" % (m[0], name, lib.sx(ops)[:2000]))
                continue
            for iname, f in impls:
                try:
                    r = f(ops)
                except AssertionError as e:            # Sig compared: the keys were not enough
                    r = ["AssertionError: %s" % e]
                if r != m:
                    bad += 1
                    what = "exception" if len(r) < 3 else "popped" if r[1] != m[1] else "final list"
                    print("DIFFERENCE (%s) model vs %s, family=%s\n  ops=%s\n  model=%s\n  impl =%s"
                          % (what, iname, name, lib.sx(ops)[:2000], lib.sx(m)[:2000], (r[0] if len(r) < 3 else lib.sx(r)[:2000])))
                    break
    print("heapq_corr: %s cases=%d (%s) pops=%d max_pushes=%d nonempty_final=%d impls=%s seed=%d differences=%d"
          % ("OK" if bad == 0 else "FAILED", total, " ".join("%s=%d" % kv for kv in counts.items()), pops, maxlen,
             nonempty_final, ",".join(i for i, _ in impls), seed, bad))
    return bad


if __name__ == "__main__":
    n = int(sys.argv[1]) if len(sys.argv) > 1 else 300
    seed = int(sys.argv[2]) if len(sys.argv) > 2 else None
    sys.exit(1 if run(n, seed) else 0)
