"""C09 — The application stops exactly when told to, completely, and says so once.
Shared machinery: harness/loop_check.py (correspondence model <-> real MainLoop on generated sessions,
then the extracted monitor chk_09 — the acceptor the theorem is about — on the implementation's traces)."""
import loop_check

RULE = ("sessions = handler programs (enqueue / raise / exit / force_quit / nested loop / close_loop / process_signals / "
        "registrations, guarded by invocation counters) + top-level calls, generated mostly well-formed with a malformed "
        "stream (double close, close at level 0, calls after force-quit) and property-specific families (ties, deep nesting); "
        "non-trivial per property: see harness/loop_check.py nontrivial()")

MANIFEST = dict(
    text='Proof: the acceptor ok_C09 (after force-quit no handler, enqueue, dispatch or nested loop; while an exit is in flight only unwinding, then the quit callback exactly once with the registered argument, then run() returns; run() returns ONLY after an exit / the close of its level / force-quit) holds for every session of the model — every handler program, fuel and list of top-level calls (C09_stops; the last clause by a potential argument: #levels + [stop flag raised] never grows across a call that ends normally or with an ordinary exception and drops across a main loop that returns: C09_mainloop_returns_only_when_told, C09_call_potential); C09_force_quit_discards, C09_force_quit_no_new_loop, C09_force_quit_no_handler, C09_failing_handler_does_not_stop, C09_failing_handler_continues, C09_empty_queue_blocks_not_stops. Screen level (props/C09s.v): App.run() refuses an empty stack unless configured (C09s_run_refuses_empty), closing the last screen / processing an empty stack raises ExitMainLoop (C09s_last_screen_closes_exits, C09s_process_screen_empty_exits, C09s_process_input_result_empty_exits) and an ExitMainLoop raised at any modal depth reaches run() without another handler starting (C09s_exit_through_*, C09s_exit_reaches_run).',
    note="Trusted: Coq kernel, extraction, harness (loop_impl.py records the implementation's events through subclasses/wrappers of public methods and a logging PriorityQueue). " + 'the screen-level clauses (last screen closes, run() refuses an empty stack) are checked with the screen layer; a handler that catches ExitMainLoop is outside the model.',
    technique="Coq theorem: a trace acceptor holds for every session of a fuel-indexed interpreter model of MainLoop; the same extracted acceptor judges traces of the real MainLoop; differential correspondence model<->/repo")


def run(chk, tier):
    loop_check.run(chk, tier, 'C09')
    # the screen-level clauses (the last screen closes; run() refuses an empty stack; exit from callbacks at any modal
    # depth): whole application sessions, model <-> implementation, and the same acceptor chk_C09 on their traces
    import screen_check
    screen_check.run(chk, tier, "C09")


def replay(path):
    return loop_check.replay(path, 'C09')
