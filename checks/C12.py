"""C12 — a screen prints exactly its content then its prompt; paging loses nothing.

Correspondence of the real code (imported from /repo) with the extracted Gallina models, on the same cases:
  (a) UIScreen._print_widget      vs Paging.print_widget   (entry `paging`)  — all (n, H) of a sweep, event by event
  (b) Prompt edits + str(prompt)  vs Prompt.prompt_str     (entry `prompt`)  — random edit sequences
  (c) WindowContainer.render      vs Containers.render     (entry `render`)  — random windows, add/add_separator/add_with_separator
  (d) InputHandlerRequest.text_prompt vs Prompt.text_prompt (entry `prompt`) — random prompts x widths
  (e) end to end: the real _print_widget with the real blocking input reading a fake stdin (subprocess):
      bytes written and number of typed lines consumed vs the model's events.
The theorems of props/C12.v determine the model's answer on every one of these inputs, so a disagreement is a
concrete violation; the property is also evaluated directly on the implementation's output."""
import json, os, subprocess, sys, io, types
import lib
from lib import cps, uncps, opt
import render_common as rc

RULE = ("paging: every (n lines, height H) with H in 3..12 (thorough 3..30), n <= 3H, distinct lines, plus windows paged by show_all; "
        "non-trivial = at least one press-ENTER prompt.  prompt: random sequences of <= 10 edits over 6 keys drawn from a pool with "
        "multi-character keys, prefixes of each other, upper/lower case, digits, empty and non-ASCII keys, messages None/''/text; "
        "non-trivial = >= 3 edits including a removal of a present key or an overwrite.  window: random title (None/''/text), <= 8 items "
        "(texts, separators through add_separator(n)/add_with_separator, nested list containers, other widgets) at random widths; "
        "non-trivial = non-empty title and >= 2 items rendered without error.")

MANIFEST = dict(
    text=("Proof: for every list of lines and every screen height >= 3 the Gallina print_widget (a line-by-line model of UIScreen._print_widget, "
          "Python integers and slices) prints every line exactly once in order (C12_paging_prints_all), as full pages of exactly H-2 lines each followed "
          "by one press-ENTER prompt and a last page of 1..H-2 lines without prompt (C12_paging_pages), consumes exactly (n-1)/(H-2) typed lines "
          "(C12_paging_ask_count, _ceil, C12_paging_short_no_prompt) and its loop terminates (C12_paging_terminates); with the typed lines threaded through the same loop (print_widget_in) the run consumes exactly "
          "the first (n-1)/(H-2) typed lines whatever they contain, leaves the rest untouched and writes the same stream (C12_paging_consumes_one_line_per_prompt, "
          "C12_paging_output_independent_of_typed, C12_paging_in_agrees), and with fewer typed lines it blocks at a prompt after exactly the pages before it "
          "(C12_paging_blocks_without_typed_line); a window renders to its title lines, "
          "one blank line and the concatenation of its items' own renders in the order added, separators being n blank lines (C12_window_titled, "
          "C12_window_untitled, C12_separator, C12_draw_appends, C12_show_all); after any sequence of prompt edits str(prompt) is the message followed by the "
          "bracketed list of exactly the currently defined options, strictly sorted by key in code-point order, each as 'k' desc joined by ', ' "
          "(C12_prompt_refines_map, C12_prompt_sorted, C12_prompt_format, C12_prompt_str, C12_prompt_listing_unique, C12_str_lt_lexicographic); all closed "
          "under the global context.  The models are tied to /repo on every run by executing the extracted models and the real classes on the same cases, "
          "including an end-to-end run of the real blocking input on a fake stdin."),
    note=("Trusted: Coq kernel; extraction; harness; CPython's print/list slicing/dict order/sorted on str/str.join/% formatting as modelled; "
          "textwrap chunking enters as a checked oracle; gettext without catalogue (identity).  A press-ENTER prompt is one call of "
          "_ask_user_input_blocking, modelled as reading and dropping one element of the typed-line list (one input() call in InputHandlerRequest._get_input); "
          "the end-to-end runs compare the bytes written and the unread remainder of a fake stdin, and the blocked state on an open pipe, with that model.  "
          "End of input (EOFError, read as an empty line by the code) is not a typed line and is outside the model.  "
          "The prompt printed after the content by the scheduler (InputManager.get_input) is modelled up to text_prompt; option descriptions and "
          "keys are strings.  Heights < 3 are outside the theorems (real height <= 0 loops forever asking: the model's out-of-fuel outcome)."),
    technique="Coq theorems over Gallina models of _print_widget / Prompt / WindowContainer + differential correspondence run against /repo")


_SEEN = {}


def _viol(chk, key, what, replay, found=True):
    """at most two reports per kind of failure, so that one kind cannot crowd out the others"""
    _SEEN[key] = _SEEN.get(key, 0) + 1
    if _SEEN[key] <= 2:
        chk.violation(key, what, replay, found=found)


# ------------------------------------------------------------------ (a) paging
class _Recorder(io.TextIOBase):
    """stdout replacement: text written between two ASKs is one segment."""

    def __init__(self):
        super().__init__()
        self.events = []      # ["T", text] | ["ASK", prompt_text]

    def writable(self):
        return True

    def write(self, s):
        if self.events and self.events[-1][0] == "T":
            self.events[-1][1] += s
        else:
            self.events.append(["T", s])
        return len(s)


class _TooManyAsks(Exception):
    pass


def _events_of(rec):
    """-> list of ["P", line] / ["ASK"] ; None if some printed text is not a sequence of whole lines"""
    out = []
    prompts = []
    for e in rec.events:
        if e[0] == "ASK":
            out.append(["ASK"])
            prompts.append(e[1])
        else:
            if not e[1].endswith("\n"):
                return None, prompts
            for l in e[1][:-1].split("\n"):
                out.append(["P", l])
    return out, prompts


def impl_paging_lines(lines, H, max_asks=None, screen=None, use_show_all=False):
    """Run the real _print_widget (or show_all) with _ask_user_input_blocking replaced on the instance."""
    from simpleline.render.screen import UIScreen
    from simpleline.render.widgets import Widget

    class LinesWidget(Widget):
        def __init__(self, ls):
            super().__init__()
            self._ls = ls

        def get_lines(self):
            return list(self._ls)

    s = screen if screen is not None else UIScreen(screen_height=H)
    if screen is None and H >= 3 and len(lines) % 3 == 2 and not use_show_all:
        # this screen has been drawn before (a refresh): paging must start afresh on every draw
        try:
            with lib.time_limit(20):
                s._ask_user_input_blocking = lambda prompt: ""
                _real = sys.stdout; sys.stdout = _Recorder()
                try:
                    s._print_widget(LinesWidget(["earlier %d" % k for k in range(2 * H + 1)]))
                finally:
                    sys.stdout = _real
        except (Exception, lib.Hang):      # noqa
            pass
    rec = _Recorder()

    def ask(prompt):
        if max_asks is not None and sum(1 for e in rec.events if e[0] == "ASK") >= max_asks:
            raise _TooManyAsks()
        rec.events.append(["ASK", str(prompt)])
        return ""
    s._ask_user_input_blocking = ask
    real = sys.stdout
    sys.stdout = rec
    status = "done"
    try:
        if use_show_all:
            s.show_all()
        else:
            s._print_widget(LinesWidget(lines))
    except _TooManyAsks:
        status = "runaway"
    except Exception as e:  # noqa
        status = "exc:" + type(e).__name__
    finally:
        sys.stdout = real
    evs, prompts = _events_of(rec)
    return status, evs, prompts


def model_paging(cases):
    """cases: [(lines, H)] -> [[["P", line] | ["ASK"] | ["OOF"]]]"""
    res = lib.model_run("paging", [[[cps(l) for l in lines], H] for lines, H in cases])
    out = []
    for r in res:
        evs = []
        for e in r:
            if e[0] == 0:
                evs.append(["P", uncps(e[1])])
            elif e[0] == 1:
                evs.append(["ASK"])
            else:
                evs.append(["OOF"])
        out.append(evs)
    return out


PRESS_ENTER = "\nPress ENTER to continue: "


def direct_paging(lines, H, evs):
    """The property evaluated on the implementation's own events; returns None or (key, sentence)."""
    P = H - 2
    n = len(lines)
    printed = [e[1] for e in evs if e[0] == "P"]
    if printed != lines:
        return ("paging-lost-line", "C12_paging_prints_all: printed lines differ from the content (%d printed for %d lines)" % (len(printed), n))
    pages = [[]]
    for e in evs:
        if e[0] == "ASK":
            pages.append([])
        else:
            pages[-1].append(e[1])
    if any(len(p) > P for p in pages):
        return ("paging-page-too-long", "C12_paging_pages: a page of %d lines exceeds height - 2 = %d" % (max(len(p) for p in pages), P))
    asks = len(pages) - 1
    want = 0 if n == 0 else (n - 1) // P
    if asks != want:
        return ("paging-ask-count", "C12_paging_ask_count: %d press-ENTER prompts for %d lines at height %d, theorem says %d" % (asks, n, H, want))
    if asks and len(pages[-1]) == 0:
        return ("paging-trailing-prompt", "C12_paging_pages: a press-ENTER prompt after the last page")
    if any(len(p) != P for p in pages[:-1]):
        return ("paging-short-page", "C12_paging_pages: a page followed by a prompt has fewer than height - 2 lines")
    return None


def check_paging(chk, tier):
    hmax = 12 if tier == "quick" else 30
    cases = []
    for H in range(3, hmax + 1):
        for n in range(0, 3 * H + 1):
            cases.append((["line %d of %d" % (i, n) for i in range(n)], H))
    # a few with blank / repeated lines and big heights
    for H, n in [(4, 9), (5, 5), (30, 100), (30, 27), (30, 28), (30, 29), (100, 250), (7, 40)]:
        cases.append(([("" if i % 3 == 0 else "x" * (i % 5)) for i in range(n)], H))
    model = model_paging(cases)
    bad_prompt_reported = False
    for (lines, H), m in zip(cases, model):
        status, evs, prompts = impl_paging_lines(lines, H, max_asks=len(lines) + 5)
        chk.count()
        n = len(lines)
        asks = sum(1 for e in (evs or []) if e[0] == "ASK")
        chk.hist("paging:asks=%s" % (asks if asks < 3 else "3+"))
        case = dict(kind="paging", lines=lines, H=H)
        if asks >= 1:
            chk.nontriv(case)
        if n in (H - 3, H - 2, H - 1) or n in (2 * (H - 2), 2 * (H - 2) + 1):
            chk.hist("paging:boundary")
        if status != "done" or evs is None:
            _viol(chk, "paging-abnormal", "C12_paging_terminates/C12_paging_pages: _print_widget(%d lines, height %d) ended with %s" % (n, H, status),
                          dict(case, impl=[status, evs], model=m), found=True)
            continue
        d = direct_paging(lines, H, evs)
        if d:
            _viol(chk, d[0], "%s [n=%d H=%d]" % (d[1], n, H), dict(case, impl=evs, model=m), found=True)
        elif evs != m:
            _viol(chk, "paging-events", "C12_paging_pages: event sequence of _print_widget(%d lines, height %d) differs from the proved model" % (n, H),
                          dict(case, impl=evs, model=m), found=True)
        if any(p != PRESS_ENTER for p in prompts) and not bad_prompt_reported:
            bad_prompt_reported = True
            _viol(chk, "paging-prompt-text", "the paging prompt is %r, not the press-ENTER prompt" % prompts[0],
                          dict(case, impl=prompts), found=True)
    chk.sample(dict(paging=dict(n=7, H=5, impl=impl_paging_lines(["l%d" % i for i in range(7)], 5)[1])))
    # heights below 3: outside the property; the model (Python integers and slices) must still agree, including
    # "never terminates" (model: out of fuel after n + 1 rounds; implementation: still asking after n + 1 prompts)
    low = [(["l%d" % i for i in range(n)], H) for H in range(-3, 3) for n in range(0, 7)]
    for (lines, H), m in zip(low, model_paging(low)):
        n = len(lines)
        status, evs, _ = impl_paging_lines(lines, H, max_asks=n + 1)
        chk.count()
        oof = bool(m) and m[-1] == ["OOF"]
        chk.hist("paging-low:%s" % ("runaway" if oof else "terminates"))
        want_status = "runaway" if oof else "done"
        mm = m[:-1] if oof else m
        if status != want_status or evs != mm:
            _viol(chk, "paging-low-height-model", "model of _print_widget disagrees with the code at unsupported height %d, %d lines: %s %s vs %s"
                          % (H, n, status, evs, m), dict(kind="paging-low", lines=lines, H=H, impl=[status, evs], model=m), found=False)


# ------------------------------------------------------------------ (e) end to end with the real input
_E2E_SCRIPT = r"""
import sys, io, json
sys.dont_write_bytecode = True
sys.path.insert(0, sys.argv[1])
from simpleline import App
from simpleline.render.screen import UIScreen
from simpleline.render.widgets import Widget
class W(Widget):
    def __init__(self, ls):
        super().__init__(); self._ls = ls
    def get_lines(self):
        return list(self._ls)
App.initialize()
if sys.argv[2] == "pipe":
    # the typed lines come from the real stdin (a pipe that stays open): the run may block
    n, H = int(sys.argv[3]), int(sys.argv[4])
    UIScreen(screen_height=H)._print_widget(W(["l%d" % i for i in range(n)]))
    sys.stdout.write("<<returned>>"); sys.stdout.flush()
    sys.exit(0)
cases = json.loads(sys.stdin.read())
res = []
real_out = sys.stdout
for k, (n, H, typed) in enumerate(cases):
    sys.stdin = io.StringIO("".join(t + "\n" for t in typed))
    out = io.StringIO()
    sys.stdout = out
    try:
        scr = UIScreen(screen_height=H)
        if k % 2:
            # every other screen hides what the user types for ITS prompt (a password screen): the "press ENTER to continue"
            # prompts between the pages are ordinary console reads all the same, the password function is not asked
            scr.hide_user_input = True
            scr.password_func = lambda prompt: "<<password function asked: %r>>" % (prompt,)
        scr._print_widget(W(["l%d" % i for i in range(n)]))
        st = "done"
    except Exception as e:
        st = "exc:" + type(e).__name__
    finally:
        sys.stdout = real_out
    res.append([st, out.getvalue(), sys.stdin.read()])
real_out.write(json.dumps(res))
"""

TYPED_POOL = ["", "q", "c", "r", "any text", " ", "\t", "1", "yes please", "déjà vu", "ENTER", "  x  ", "\\n", "0"]


def impl_e2e(cases):
    """cases: [(n, H, typed)] -> [[status, text written, text left unread on stdin]]"""
    p = subprocess.run([lib.PY, "-c", _E2E_SCRIPT, lib.REPO, "batch"], input=json.dumps(cases), capture_output=True, text=True,
                       timeout=90, env=lib.ENV)
    if p.returncode != 0:
        return None, p.stderr[-800:]
    return json.loads(p.stdout), None


def impl_e2e_pipe(n, H, typed, want_len, settle=0.7, limit=20.0):
    """Run _print_widget reading an open pipe that delivers only `typed`; returns what it wrote before it stopped
    writing (it is then killed), and whether it returned."""
    import time
    p = subprocess.Popen([lib.PY, "-c", _E2E_SCRIPT, lib.REPO, "pipe", str(n), str(H)], stdin=subprocess.PIPE,
                         stdout=subprocess.PIPE, stderr=subprocess.DEVNULL, env=lib.ENV)
    try:
        p.stdin.write("".join(t + "\n" for t in typed).encode())
        p.stdin.flush()
        os.set_blocking(p.stdout.fileno(), False)
        buf = b""
        t0 = time.time()
        last_change = t0
        while time.time() - t0 < limit:
            try:
                chunk = p.stdout.read()
            except BlockingIOError:
                chunk = None
            if chunk:
                buf += chunk
                last_change = time.time()
            elif len(buf) >= want_len and time.time() - last_change > settle:
                break               # got at least what the model expects and it has been quiet since
            elif p.poll() is not None and not chunk:
                break
            time.sleep(0.05)
    finally:
        p.kill()
        p.wait()
    text = buf.decode()
    returned = text.endswith("<<returned>>")
    return text[:-len("<<returned>>")] if returned else text, returned


def model_paging_in(cases):
    """cases: [(n, H, typed)] -> [(text written, typed lines left, status)]"""
    res = lib.model_run("paging", [[[cps("l%d" % i) for i in range(n)], H, [cps(t) for t in typed]] for n, H, typed in cases])
    out = []
    for evs, left, st in res:
        text = "".join((uncps(e[1]) + "\n") if e[0] == 0 else (PRESS_ENTER if e[0] == 1 else "<<out of fuel>>") for e in evs)
        out.append((text, [uncps(l) for l in left], st))
    return out


def check_e2e(chk, tier):
    rng = chk.rng
    shapes = [(n, H) for H in (3, 4, 5, 8) for n in (0, 1, H - 3, H - 2, H - 1, 2 * H - 4, 2 * H - 3, 3 * H)]
    shapes = [(n, H) for n, H in shapes if n >= 0] + [(7, 4)]
    if tier != "quick":
        shapes += [(n, H) for H in range(4, 13) for n in range(0, 3 * H + 1, 2)]
    cases = []
    for n, H in shapes:
        asks = 0 if n == 0 else (n - 1) // (H - 2)
        typed = [rng.choice(TYPED_POOL) for _ in range(asks + rng.choice([0, 0, 1, 2, 3]))]
        cases.append((n, H, typed))
    cases.append((7, 4, ["", "q", "any text"]))
    cases.append((7, 4, ["any text", "any text", "", "q", ""]))
    try:
        res, err = impl_e2e(cases)
    except subprocess.TimeoutExpired:
        res, err = None, "timeout"
    if res is None:
        _viol(chk, "e2e-abnormal", "C12_paging_terminates: the end-to-end paging run did not finish: %s" % err,
              dict(kind="e2e", cases=cases), found=False)
        return
    model = model_paging_in(cases)
    for (n, H, typed), (st, text, left), (mtext, mleft, mst) in zip(cases, res, model):
        chk.count()
        consumed = len(typed) - len(mleft)
        want_left = "".join(t + "\n" for t in mleft)
        chk.hist("e2e:consumed=%s" % (consumed if consumed < 3 else "3+")); chk.hist("e2e:left=%d" % len(mleft))
        case = dict(kind="e2e", n=n, H=H, typed=typed)
        if consumed >= 1:
            chk.nontriv(case)
        if st != "done" or mst != 0 or text != mtext or left != want_left:
            key = "e2e-typed-lines" if (st == "done" and text == mtext) else "e2e-paging"
            _viol(chk, key, "C12_paging_consumes_one_line_per_prompt end to end: %d lines at height %d with typed lines %r wrote %r and left %r "
                  "unread; the proved model gives %r and %r" % (n, H, typed, text[-120:], left, mtext[-120:], want_left),
                  dict(case, impl=[st, text, left], model=[mtext, want_left]), found=True)
    chk.sample(dict(e2e=dict(n=7, H=4, typed=cases[-1][2], impl=res[-1])))
    # fewer typed lines than prompts, stdin still open: the run must stop at a prompt having written exactly the
    # pages before it (C12_paging_blocks_without_typed_line)
    blocked = [(7, 4, ["q"]), (9, 5, [])]
    if tier != "quick":
        blocked += [(7, 4, []), (7, 4, ["", "x"]), (20, 6, ["a", "", "b"]), (4, 3, ["", ""])]
    mb = model_paging_in(blocked)
    for (n, H, typed), (mtext, mleft, mst) in zip(blocked, mb):
        text, returned = impl_e2e_pipe(n, H, typed, len(mtext.encode()))
        chk.count()
        chk.hist("e2e-blocked")
        case = dict(kind="e2e-blocked", n=n, H=H, typed=typed)
        chk.nontriv(case)
        if returned or mst != 1 or text != mtext or mleft:
            _viol(chk, "e2e-blocked", "C12_paging_blocks_without_typed_line end to end: %d lines at height %d with only %r typed: returned=%s wrote %r; "
                  "the proved model blocks after %r" % (n, H, typed, returned, text[-120:], mtext[-120:]),
                  dict(case, impl=[returned, text], model=[mtext, mst]), found=True)


# ------------------------------------------------------------------ (b) prompt
KEY_POOL = ["a", "ab", "abc", "b", "B", "Z", "1", "10", "9", "r", "q", "c", "h", "", "\u00e9", "z", "zz", "\U0001F600", "\uffff", " ", "a b", "'"]
DESCS = ["to quit", "to continue", "", "x", "to do  it", "déjà", "a, b", "]", "very long description of an option that goes on"]
MSGS = [None, "", "Please make a selection from the above", "Pick", "a\nb", "  ", "Installation is going to be performed now: confirm"]


def gen_prompt_case(rng):
    keys = rng.sample(KEY_POOL, 6)
    if rng.random() < 0.5:
        keys = keys[:4] + ["r", "c"]
    msg = rng.choice(MSGS)
    ops = []
    for _ in range(rng.randrange(0, 11)):
        r = rng.random()
        if r < 0.3:
            ops.append(["add", rng.choice(keys), rng.choice(DESCS)])
        elif r < 0.45:
            ops.append(["update", rng.choice(keys), rng.choice(DESCS)])
        elif r < 0.65:
            ops.append(["remove", rng.choice(keys)])
        elif r < 0.75:
            ops.append(["msg", rng.choice(MSGS)])
        else:
            ops.append([rng.choice(["refresh", "continue", "quit", "help"]), rng.choice([None, None] + DESCS)])
    return dict(msg=msg, ops=ops, printed=rng.random() < 0.5)


def impl_prompt(case):
    import logging
    from simpleline.render.prompt import Prompt
    logging.getLogger("simpleline").disabled = True
    p = Prompt(case["msg"])
    printed = case.get("printed")
    if printed:
        str(p)                       # the prompt is shown between edits (a screen that keeps its Prompt)
    for o in case["ops"]:
        if printed:
            str(p)
        k = o[0]
        if k == "add":
            p.add_option(o[1], o[2])
        elif k == "update":
            p.update_option(o[1], o[2])
        elif k == "remove":
            p.remove_option(o[1])
        elif k == "msg":
            p.set_message(o[1])
        else:
            f = getattr(p, "add_%s_option" % k)
            if o[1] is None:
                f()
            else:
                f(o[1])
    return p


def wire_prompt(case, extra=None):
    from simpleline.render.prompt import Prompt
    default = dict(refresh=Prompt.REFRESH_DESCRIPTION, quit=Prompt.QUIT_DESCRIPTION, help=Prompt.HELP_DESCRIPTION)
    default["continue"] = Prompt.CONTINUE_DESCRIPTION
    code = dict(refresh=4, quit=6, help=7)
    code["continue"] = 5
    ops = []
    for o in case["ops"]:
        k = o[0]
        if k == "add":
            ops.append([0, cps(o[1]), cps(o[2])])
        elif k == "update":
            ops.append([1, cps(o[1]), cps(o[2])])
        elif k == "remove":
            ops.append([2, cps(o[1])])
        elif k == "msg":
            ops.append([3, opt(o[1], cps)])
        else:
            ops.append([code[k], cps(default[k] if o[1] is None else o[1])])
    return [opt(case["msg"], cps), ops, [] if extra is None else [extra]]


def prompt_nontrivial(case):
    from simpleline.render.prompt import Prompt
    special = dict(refresh=Prompt.REFRESH, quit=Prompt.QUIT, help=Prompt.HELP)
    special["continue"] = Prompt.CONTINUE
    if len(case["ops"]) < 3:
        return False
    present = set()
    hit = False
    for o in case["ops"]:
        if o[0] == "msg":
            continue
        k = special.get(o[0], o[1] if o[0] in ("add", "update", "remove") else None)
        if o[0] == "remove":
            hit = hit or k in present
            present.discard(k)
        else:
            hit = hit or k in present
            present.add(k)
    return hit


def direct_prompt(p, s):
    """the property text evaluated on the real object: message + bracketed key-sorted list of the options defined"""
    parts = []
    if p.message:
        parts.append(p.message)
    if p.options:
        parts.append("[" + ", ".join("'%s' %s" % (k, p.options[k]) for k in sorted(p.options)) + "]")
    want = (" ".join(parts) + ": ") if parts else ""
    return s == want


def check_prompt(chk, tier):
    rng = chk.rng
    n = 3000 if tier == "quick" else 60000
    cases = [dict(msg="Please make a selection from the above", ops=[["refresh", None], ["continue", None], ["quit", None]]),
             dict(msg=None, ops=[]), dict(msg="", ops=[]), dict(msg=None, ops=[["add", "b", "1"], ["add", "ab", "2"], ["add", "a", "3"],
                                                                                ["update", "b", "4"], ["add", "z", "5"], ["remove", "z"]])]
    cases += [gen_prompt_case(rng) for _ in range(n)]
    impls = []
    extras = []
    for c in cases:
        p = impl_prompt(c)
        s = str(p)
        impls.append((p, s))
        # (d) text_prompt at a random width, chunk oracle of the implementation's own string
        if rng.random() < 0.5:
            w = rng.choice([rng.randrange(5, 121), rng.randrange(5, 30), 80])
            extras.append([w, rc.chunks_of(s)])
        else:
            extras.append(None)
    res = lib.model_run("prompt", [wire_prompt(c, e) for c, e in zip(cases, extras)])
    from simpleline.input.input_handler import InputHandlerRequest
    for c, (p, s), e, m in zip(cases, impls, extras, res):
        chk.count()
        chk.hist("prompt:ops=%d" % len(c["ops"])); chk.hist("prompt:options=%d" % len(p.options))
        chk.hist("prompt:msg=%s" % ("None" if c["msg"] is None else ("empty" if c["msg"] == "" else "text")))
        if prompt_nontrivial(c):
            chk.nontriv(dict(kind="prompt", case=c))
        rep = dict(kind="prompt", case=c, impl=s, model=uncps(m[0]))
        if cps(s) != m[0]:
            key = "prompt-str-direct" if not direct_prompt(p, s) else "prompt-str"
            _viol(chk, key, "C12_prompt_str/C12_prompt_format: str(prompt) = %r, the proved model gives %r after %s"
                          % (s, uncps(m[0]), c["ops"]), rep, found=True)
            continue
        if not direct_prompt(p, s):
            _viol(chk, "prompt-str-direct", "C12_prompt_str: str(prompt) = %r is not message + key-sorted bracketed options" % s, rep, found=True)
        if [[cps(k), cps(v)] for k, v in p.options.items()] != m[1]:
            _viol(chk, "prompt-options", "C12_prompt_refines_map: options %r differ from the model's %r" % (list(p.options.items()), m[1]), rep, found=True)
        if e is not None:
            chk.count()
            chk.hist("textprompt:width<30" if e[0] < 30 else "textprompt:width>=30")
            try:
                tp = [0, cps(InputHandlerRequest(e[0], p, types.SimpleNamespace(source=None)).text_prompt())]
            except ValueError:
                tp = [1]
            want = m[2][0] if m[2] else None
            if tp != want:
                _viol(chk, "text-prompt", "text_prompt of %r at width %d is %r, the model gives %r"
                              % (s, e[0], uncps(tp[1]) if tp[0] == 0 else tp, uncps(want[1]) if want and want[0] == 0 else want),
                              dict(kind="textprompt", case=c, width=e[0], impl=tp, model=want), found=True)
            elif tp[0] == 0:
                # direct: the prompt text is kept up to white space (long words may be broken), ends with one blank, no line wider than the width
                t = uncps(tp[1])
                if "".join(t.split()) != "".join(s.split()) or not t.endswith(" ") or any(len(l) > e[0] for l in t[:-1].split("\n")):
                    _viol(chk, "text-prompt-direct", "text_prompt of %r at width %d loses text or overflows: %r" % (s, e[0], t),
                                  dict(kind="textprompt", case=c, width=e[0], impl=tp, model=want), found=True)
    # the default prompt of a screen, literally
    from simpleline.render.screen import UIScreen
    d = str(UIScreen().prompt())
    chk.count()
    chk.sample(dict(default_prompt=d))
    if d != "Please make a selection from the above ['c' to continue, 'q' to quit, 'r' to refresh]: " or cps(d) != res[0][0]:
        _viol(chk, "default-prompt", "C12_default_prompt: UIScreen().prompt() is %r" % d, dict(kind="default-prompt", impl=d), found=True)


# ------------------------------------------------------------------ (c) window
def gen_window(rng):
    title = rng.choice([None, "", "Title", "A longer title of the screen that may wrap", rc.rand_text(rng, 5, False)])
    entries = []
    for _ in range(rng.randrange(0, 9)):
        r = rng.random()
        if r < 0.2:
            entries.append(["sep", rng.randrange(0, 4)])
            continue
        k = rng.random()
        if k < 0.55:
            item = ["text", rc.rand_text(rng)]
        elif k < 0.8:
            item = ["list", rng.choice(["row", "col"]), rng.randrange(1, 4), [["text", rc.rand_text(rng, 4)] for _ in range(rng.randrange(0, 6))],
                    None, rng.choice([3, 1, 0]), rng.choice([["", ") ", 1], None])]
        else:
            item = rc.rand_tree(rng, 1, False)
        if r < 0.5:
            entries.append(["addsep", item, rng.choice([1, 1, 2, 0])])
        else:
            entries.append(["add", item])
    lists = [e[1] for e in entries if e[0] != "sep" and e[1][0] == "list" and e[1][3]]
    if lists and rng.random() < 0.35:
        # one text is a direct item of the window AND an item of a list container of the same window: build_window makes it
        # ONE widget object (a notice shown on top and again inside the table).  Each use renders it right before drawing it.
        txt = ["text", rng.choice(["a fairly long notice that wraps differently in a narrow column than in the whole window",
                                   "n/a", rc.rand_text(rng, 6) or "shared"])]
        l = rng.choice(lists)
        l[3][rng.randrange(len(l[3]))] = list(txt)
        entries.insert(rng.randrange(len(entries) + 1), [rng.choice(["add", "add", "addsep"]), list(txt), 1][:3])
        entries = [e if e[0] != "add" else e[:2] for e in entries]
    return dict(title=title, entries=entries)


def window_items(win):
    items = []
    for e in win["entries"]:
        if e[0] == "sep":
            items.append(["sep", e[1]])
        elif e[0] == "add":
            items.append(e[1])
        else:
            items.append(e[1]); items.append(["sep", e[2]])
    return items


def build_window(win, container=None):
    from simpleline.render.containers import WindowContainer
    c = container if container is not None else WindowContainer(win["title"])
    local = {}          # equal plain texts among the window's direct items and its list containers' items: one shared object

    def mk(x):
        if x[0] == "text" and len(x[1]) % 3 != 2:
            if x[1] not in local:
                local[x[1]] = rc.build(x)
            return local[x[1]]
        return rc.build(x, local if x[0] == "list" else None)
    for e in win["entries"]:
        if e[0] == "sep":
            c.add_separator(e[1])
        elif e[0] == "add":
            c.add(mk(e[1]))
        else:
            c.add_with_separator(mk(e[1]), blank_lines=e[2])
    return c


def own_lines(spec, width):
    w = rc.build(spec)
    w.render(width)
    return w.get_lines()


def direct_window(win, width, lines):
    """output == title lines + [""] + concatenation of each item's own fresh render lines"""
    want = []
    if win["title"]:
        want += own_lines(["text", win["title"]], width) + [""]
    for it in window_items(win):
        want += own_lines(it, width)
    return want == lines, want


def check_window(chk, tier):
    rng = chk.rng
    n = 500 if tier == "quick" else 8000
    cases = []
    for _ in range(n):
        win = gen_window(rng)
        width = rng.choice([80, 80, 40, 20, rng.randrange(1, 101), rng.randrange(8, 30)])
        cases.append((win, width))
    trees = [(["window", win["title"], window_items(win)], width) for win, width in cases]
    model = rc.model_render(trees)
    for (win, width), m in zip(cases, model):
        wobj = build_window(win)
        if rng.random() < 0.5:
            # the window was shown before (same content, the same or another width): what it shows now must not depend on
            # that — blank separators "where requested and nothing else" also on the second draw
            for _ in range(rng.choice([1, 1, 2])):
                try:
                    wobj.render(rng.choice([width, width, 80, 33, max(1, width - 3)]))
                except Exception:      # noqa  (a refusal at the other width is not this draw's business)
                    pass
            chk.hist("window:drawn-before")
        i = rc.impl_render(wobj, width)
        chk.count()
        chk.hist("window:items=%d" % len(window_items(win))); chk.hist("window:outcome=%s" % i[0])
        chk.hist("window:title=%s" % ("None" if win["title"] is None else ("empty" if not win["title"] else "text")))
        case = dict(kind="window", win=win, width=width)
        if i[0] == 0 and win["title"] and len(window_items(win)) >= 2:
            chk.nontriv(case)
        lines = [uncps(l) for l in i[1]] if i[0] == 0 else None
        ok_direct, want = (True, None)
        if i[0] == 0:
            try:
                ok_direct, want = direct_window(win, width, lines)
            except Exception as e:  # noqa
                ok_direct, want = False, "item failed on its own: %s" % type(e).__name__
        if not ok_direct:
            _viol(chk, "window-content", "C12_window_titled/C12_window_untitled: the window's lines are not title + blank + the items' own lines at width %d: %r vs %r"
                          % (width, lines, want), dict(case, impl=i, model=m, want=want), found=True)
        elif i != m:
            _viol(chk, "window-render", "C12_window_titled: WindowContainer.render differs from the proved model at width %d: %r vs %r"
                          % (width, i, m), dict(case, impl=i, model=m), found=(m[0] in (0, 1)))
    # show_all: the real screen renders its window at the configured width and pages it
    from simpleline import App
    from simpleline.render.screen import UIScreen
    App.initialize()
    k = 150 if tier == "quick" else 2000
    sa = []
    for _ in range(k):
        win = gen_window(rng)
        width = rng.choice([80, 40, 25, rng.randrange(10, 90)])
        H = rng.choice([4, 5, 6, 8, 10, 30])
        sa.append((win, width, H))
    mres = rc.model_render([(["window", win["title"], window_items(win)], width) for win, width, H in sa])
    todo = []
    for (win, width, H), m in zip(sa, mres):
        if m[0] == 0:
            todo.append((win, width, H, [uncps(l) for l in m[1]]))
    mev = model_paging([(lines, H) for _, _, H, lines in todo])
    for (win, width, H, mlines), m in zip(todo, mev):
        App.get_configuration().width = width
        s = UIScreen(win["title"], H)
        build_window(win, s.window)
        status, evs, _ = impl_paging_lines(None, H, max_asks=len(mlines) + 5, screen=s, use_show_all=True)
        chk.count()
        asks = sum(1 for e in (evs or []) if e[0] == "ASK")
        chk.hist("show_all:asks=%s" % (asks if asks < 3 else "3+"))
        case = dict(kind="show_all", win=win, width=width, H=H)
        if asks >= 1:
            chk.nontriv(case)
        if status != "done" or evs != m:
            _viol(chk, "show-all", "C12_show_all: show_all of a window at width %d, height %d gives %s %r, the proved model %r"
                          % (width, H, status, evs, m), dict(case, impl=[status, evs], model=m), found=True)
    App.get_configuration().width = 80
    chk.sample(dict(window=cases[0][0], width=cases[0][1], impl=rc.impl_render(build_window(cases[0][0]), cases[0][1])))


# ------------------------------------------------------------------ entry points
def run(chk, tier):
    lib.use_repo()
    check_paging(chk, tier)
    check_prompt(chk, tier)
    check_window(chk, tier)
    check_e2e(chk, tier)


def replay(path):
    lib.use_repo()
    r = json.load(open(path))["replay"]
    k = r["kind"]
    if k in ("paging", "paging-low"):
        i = impl_paging_lines(r["lines"], r["H"], max_asks=len(r["lines"]) + (1 if k == "paging-low" else 5))
        m = model_paging([(r["lines"], r["H"])])[0]
        print("impl :", i[0], i[1]); print("model:", m)
        mm = m[:-1] if (m and m[-1] == ["OOF"]) else m
        return 0 if i[1] == mm else 1
    if k == "prompt":
        p = impl_prompt(r["case"])
        m = lib.model_run("prompt", [wire_prompt(r["case"])])[0]
        print("impl :", repr(str(p)), list(p.options.items())); print("model:", repr(uncps(m[0])), m[1])
        return 0 if cps(str(p)) == m[0] else 1
    if k == "textprompt":
        from simpleline.input.input_handler import InputHandlerRequest
        p = impl_prompt(r["case"])
        tp = InputHandlerRequest(r["width"], p, types.SimpleNamespace(source=None)).text_prompt()
        m = lib.model_run("prompt", [wire_prompt(r["case"], [r["width"], rc.chunks_of(str(p))])])[0]
        print("impl :", repr(tp)); print("model:", m[2])
        return 0 if m[2] and m[2][0] == [0, cps(tp)] else 1
    if k == "window":
        win, width = r["win"], r["width"]
        i = rc.impl_render(build_window(win), width)
        m = rc.model_render([(["window", win["title"], window_items(win)], width)])[0]
        print("impl :", i); print("model:", m)
        return 0 if i == m else 1
    if k == "show_all":
        from simpleline import App
        from simpleline.render.screen import UIScreen
        App.initialize()
        App.get_configuration().width = r["width"]
        s = UIScreen(r["win"]["title"], r["H"])
        build_window(r["win"], s.window)
        i = impl_paging_lines(None, r["H"], max_asks=1000, screen=s, use_show_all=True)
        print("impl :", i[0], i[1]); print("model:", r.get("model"))
        return 0 if i[1] == r.get("model") else 1
    if k == "e2e":
        c = (r["n"], r["H"], r.get("typed", ["typed %d" % i for i in range(r["n"] + 3)]))
        res, err = impl_e2e([c])
        mtext, mleft, mst = model_paging_in([c])[0]
        want = ["done", mtext, "".join(t + "\n" for t in mleft)]
        print("impl :", res, err); print("model:", want)
        return 0 if res and res[0] == want else 1
    if k == "e2e-blocked":
        c = (r["n"], r["H"], r["typed"])
        mtext, mleft, mst = model_paging_in([c])[0]
        text, returned = impl_e2e_pipe(c[0], c[1], c[2], len(mtext.encode()))
        print("impl :", returned, repr(text)); print("model:", mst, repr(mtext))
        return 0 if (not returned and mst == 1 and text == mtext) else 1
    print("nothing to replay for kind", k)
    return 1
