"""C14 — the number shown next to an item is the number that selects it.
Correspondence: real Container/KeyPattern (imported from /repo) vs the extracted Gallina
process_user_input / get_widget_label on the same (pattern, items, key).  The theorems of
props/C14.v determine the model's answer for every in-model input, so any disagreement on such an
input is a concrete violation of the property (the replay is the input)."""
import json, itertools
import lib
from lib import cps, opt

RULE = ("cases = (numbering on/off, pattern prefix/suffix, offset, items with/without callback, key); "
        "enumerated over offsets x item counts x a key family (displayed numbers, neighbours, 0, negatives, "
        "blanks/sign/underscore/leading-zero spellings, text, empty, non-strings) plus random ASCII keys; "
        "non-trivial = numbering on, offset != 1 and the key parses to a number within 2 of the displayed range")

MANIFEST = dict(
    text=("Proof: for every pattern prefix/suffix, every offset (any integer), every item list and every key, the Gallina "
          "process_user_input (a line-by-line model of Container.process_user_input / KeyPattern) fires exactly the item whose displayed "
          "number int() reads from the key and nothing otherwise (C14_roundtrip, C14_selected, C14_nothing_else, C14_numbers_distinct, "
          "C14_not_a_string, C14_numbering_off, C14_at_most_one_callback, parse_int (dec z) = Some z), closed under the global context. "
          "The model is tied to /repo on every run by executing the extracted model and the real containers on the same enumerated and random cases."),
    note=("Trusted: Coq kernel; extraction (ExtrOcamlBasic); harness; CPython's int()/str.format modelled for ASCII (validated against int() on every key used, "
          "non-ASCII digits/blanks and the 4300-digit limit are outside the model); patterns of the family prefix{:d}suffix; callbacks are events."),
    technique="Coq theorem over a Gallina model of KeyPattern/process_user_input + differential correspondence run against /repo")

PATTERNS = [("", ") "), ("[", "] "), ("", "."), ("#", " - ")]


def item_widget(k):
    """What an item shows is not the property's business: besides TextWidget, items are plain Widget subclasses and
    ColumnWidgets (no `.text`, no `.title`), all rendering to the single line "w"."""
    from simpleline.render.widgets import TextWidget, Widget, ColumnWidget

    class Plain(Widget):
        def render(self, width):
            super().render(width)
            self.write("w")
    if k % 5 == 0:
        return TextWidget("")         # an item that renders to no line at all: its number is displayed all the same
    if k % 3 == 1:
        return Plain()
    if k % 3 == 2:
        return ColumnWidget([(1, [TextWidget("w")])], 0)
    return TextWidget("w")


def impl_case(case):
    """case = dict(kind, numbering, prefix, suffix, offset, items=[(cb|None, data)], key)"""
    from simpleline.render.containers import ListRowContainer, ListColumnContainer, WindowContainer, KeyPattern
    from simpleline.render.widgets import TextWidget
    fired = []
    kind = case["kind"]
    if kind == "row":
        c = ListRowContainer(1)
    elif kind == "col":
        c = ListColumnContainer(1)
    else:
        c = WindowContainer("t")
    if kind != "win":
        if case["numbering"]:
            c.key_pattern = KeyPattern(case["prefix"] + "{:d}" + case["suffix"], case["offset"])
        else:
            c.key_pattern = None
    for cb, data in case["items"]:
        if cb is None:
            c.add(item_widget(len(fired) + data), None, data)
        elif cb % 2 == 1:
            # a bound method of an object nothing else refers to (`container.add(w, Handler(...).select, data)`): the
            # container item itself must keep its callback alive
            class Handler:
                def __init__(self, cb):
                    self.cb = cb

                def select(self, d):
                    fired.append([self.cb, d])
            c.add(item_widget(data), Handler(cb).select, data)
        else:
            c.add(item_widget(data), (lambda d, cb=cb: fired.append([cb, d])), data)
    hist = case.get("history")
    if hist and kind != "win" and case["numbering"]:
        # the container was already shown with ANOTHER numbering before the current one was set
        final = c.key_pattern
        c.key_pattern = KeyPattern(hist[0] + "{:d}" + hist[1], hist[2])
        c.render(80)
        c.key_pattern = final
    key = case["key"]
    k = key[1] if isinstance(key, list) else key
    # the container inside containers that do NOT number their items (a window; a list with numbering switched off): such a
    # container never selects anything, whatever it holds (C14_numbering_off)
    outer_says = None
    if len(case["items"]) % 2 == 0:
        win = WindowContainer("outer"); win.add(TextWidget("plain")); win.add(c)
        lst = ListRowContainer(2, numbering=False); lst.add(TextWidget("plain")); lst.add(c)
        for outer in (win, lst):
            r = outer.process_user_input(k)
            if r is not False or fired:
                outer_says = "?a container that does not number its items answered %r for key %r and fired %r" % (r, k, fired)
                break
    handled = c.process_user_input(k)
    labels = []
    if c.key_pattern is not None:
        # what is DISPLAYED next to each item: read it off the rendered container (one item "w" per row)
        c.render(80)
        lines = c.get_lines()
        empty = [d % 5 == 0 for cb, d in case["items"]]
        if len(lines) == len(case["items"]) and all(e or l.endswith("w") for e, l in zip(empty, lines)):
            # an empty item's line is its label alone (trailing blanks are not part of a rendered line)
            want = [case["prefix"] + str(case["offset"] + i) + case["suffix"] for i in range(len(lines))]
            labels = [cps(l[:-1]) if not e else (cps(w_) if l == w_.rstrip() else cps("?label of an empty item: %r" % l))
                      for e, l, w_ in zip(empty, lines, want)]
        else:
            labels = [cps("?unexpected render: %r" % (lines[:3],))]
    if outer_says:
        labels = [cps(outer_says)]
    return [1 if handled is True else (0 if handled is False else 2), fired, labels]


def wire(case):
    numbering = case["numbering"] and case["kind"] != "win"
    pat = [[cps(case["prefix"]), cps(case["suffix"]), case["offset"]]] if numbering else []
    items = [[opt(cb), d] for cb, d in case["items"]]
    key = case["key"]
    k = [cps(key)] if isinstance(key, str) else []
    return [pat, items, k]


def keys_for(off, n, rng):
    ks = set()
    for z in list(range(off - 2, off + n + 2)) + [0, -1, 1]:
        ks.add(str(z))
    mid = off + (n // 2)
    ks.update(["", " ", "x", "q", "1.0", "%d.0" % mid, " %d" % mid, "%d " % mid, "\t%d\n" % mid, "0%d" % mid if mid >= 0 else "-0%d" % -mid,
               "+%d" % mid if mid >= 0 else "+-%d" % -mid, "1_0", "_1", "1_", "1__0", "1 0", "0x1", "1e0", "--1", "+", "-", "- 1",
               "%d)" % mid, "\x1f%d" % mid, "%d\x0c" % mid, "00", "-0", "+0"])
    out = list(ks) + [None, 3, 1.0, b"1", True]
    return out


def gen_cases(tier, rng):
    cases = []
    nmax = 6 if tier == "quick" else 12
    for off in range(-3, 13):
        for n in range(0, nmax + 1):
            items = [((None if (i % 3 == 1) else 100 + i), 1000 + 7 * i) for i in range(n)]
            pre, suf = PATTERNS[(off + n) % len(PATTERNS)]
            kind = ["row", "col"][(off + n) % 2]
            for key in keys_for(off, n, rng):
                cases.append(dict(kind=kind, numbering=True, prefix=pre, suffix=suf, offset=off, items=items, key=key))
            if n in (0, 3):
                for key in ["1", str(off), "", None]:
                    cases.append(dict(kind=kind, numbering=False, prefix=pre, suffix=suf, offset=off, items=items, key=key))
                    cases.append(dict(kind="win", numbering=False, prefix=pre, suffix=suf, offset=off, items=items, key=key))
    # histories: rendered once under another numbering, then re-numbered
    for off in (0, 1, 5, 11):
        for n in (1, 3, 10):
            items = [(100 + i, 7 * i) for i in range(n)]
            for key in [str(off), str(off + n - 1), str(off + 1), "1", str(off + 7)]:
                cases.append(dict(kind=["row", "col"][(off + n) % 2], numbering=True, prefix="", suffix=") ", offset=off,
                                  items=items, key=key, history=["", ") ", off + 7]))
    # big offsets / many items / random ASCII keys
    alphabet = "0123456789" * 3 + "+-_ \t\n\x0b\x1c.xe"
    nr = 1500 if tier == "quick" else 30000
    for _ in range(nr):
        off = rng.choice([0, 1, 1, 2, 5, -7, 10, 99, 1000, -1000, 123456789])
        n = rng.choice([0, 1, 2, 5, 11, 30])
        items = [((None if rng.random() < 0.2 else rng.randrange(50)), rng.randrange(1000)) for _ in range(n)]
        if rng.random() < 0.6:
            z = rng.randrange(off - 2, off + n + 3)
            key = rng.choice(["%d", " %d", "%d ", "0%d", "+%d", "%d_", "%d.", "%dx"]) % z
            if rng.random() < 0.2 and abs(z) >= 10:
                key = key[:2] + "_" + key[2:]
        else:
            key = "".join(rng.choice(alphabet) for _ in range(rng.randrange(0, 6)))
        pre, suf = rng.choice(PATTERNS)
        cases.append(dict(kind=rng.choice(["row", "col"]), numbering=True, prefix=pre, suffix=suf, offset=off, items=items, key=key))
    return cases


def nontrivial(case):
    if not case["numbering"] or case["offset"] == 1 or not isinstance(case["key"], str):
        return False
    try:
        z = int(case["key"])
    except ValueError:
        return False
    return case["offset"] - 2 <= z <= case["offset"] + len(case["items"]) + 1


def compare(chk, cases):
    res_m = lib.model_run("c14", [wire(c) for c in cases])
    bad = []
    for c, m in zip(cases, res_m):
        i = impl_case(c)
        chk.count()
        chk.hist("kind=" + c["kind"]); chk.hist("handled=%s" % i[0]); chk.hist("fired=%d" % len(i[1]))
        if nontrivial(c):
            chk.nontriv(c)
        mm = [m[0], m[1], m[2]]
        if i != mm:
            bad.append((c, i, mm))
    return bad


def run(chk, tier):
    lib.use_repo()
    cases = gen_cases(tier, chk.rng)
    for c in cases[:3] + cases[-2:]:
        chk.sample(dict(case=c, impl=impl_case(c)), limit=5)
    bad = compare(chk, cases)
    for c, i, m in bad[:50]:
        what = ("process_user_input/labels differ from the proved model: offset=%s items=%d key=%r -> implementation "
                "(handled, fired, labels)=%s, theorem C14_selected/C14_nothing_else demand %s"
                % (c["offset"], len(c["items"]), c["key"], i[:2], m[:2]))
        if i[2] != m[2]:
            key = "label-differs"
        elif i[0] != m[0] or i[1] != m[1]:
            key = "selection-differs:off=%s" % ("1" if c["offset"] == 1 else "not1")
        chk.violation(key, what, dict(kind="c14", case=c, impl=i, model=m), found=True)
    # model of int() against CPython on its own (validates PyInt.v; not a property of /repo)
    strs = sorted({c["key"] for c in cases if isinstance(c["key"], str)})
    pm = lib.model_run("parseint", [lib.cps(s) for s in strs])
    for s, m in zip(strs, pm):
        try:
            z = [int(s)]
        except ValueError:
            z = []
        chk.count()
        if z != m:
            chk.violation("parse_int-model", "model of int() disagrees with CPython on %r: %s vs %s" % (s, m, z),
                          dict(kind="parseint", s=s), found=False)
    chk.extra["distinct_keys_checked_against_int"] = len(strs)


def replay(path):
    lib.use_repo()
    r = json.load(open(path))["replay"]
    c = r["case"]
    i = impl_case(c)
    m = lib.model_run("c14", [wire(c)])[0]
    print("case:", c); print("impl :", i); print("model:", m)
    return 0 if i == m else 1
