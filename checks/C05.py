"""C05 — A modal screen blocks its caller and shields everything beneath it.
Shared machinery: harness/screen_check.py (sessions on the real App/scheduler/screens/input stack in worker
subprocesses vs the extracted ScreenSem model; the extracted acceptor chk_05 of ScreenMon.v on the implementation traces)."""
import screen_check

RULE = ("sessions = a table of screen programs (stack operations, signals, raises, blocking input, ... issued from "
        "input/refresh/show_all/closed, guarded by invocation counters; failing setups; paging; quit dialog) + typed lines "
        "(item keys, c/r/q, junk, empty, EOF), generated mostly plausible with a malformed stream and a property-specific family; "
        "non-trivial per property: see harness/screen_check.py nontrivial()")

MANIFEST = dict(
    text="Partial. Proof (Coq, closed under the global context), for every table of screens, every typed-line sequence, every fuel and every list of top-level actions: while a modal entry (or what replaced it) is on the stack no entry strictly beneath it is set up, refreshed or drawn, and every modal return matches a frame opened by exactly that push (C05_modal_shield_partial); the entries beneath an open modal frame are the same list at every stack primitive (C05_beneath_untouched, C05_only_stack_primitives_move); the caller's remaining commands resume from the state the nested loop left (C05_caller_resumes); a modal push returns only after its entry was closed, under the trace hypothesis excluding finding F13 (C05_returns_only_after_close_partial, C05_hypothesis_meaning); no screen all of whose entries lie beneath an open modal screen gets input, under three trace conditions — every prompt is issued for the top entry's screen, no entry of a screen is popped while a request of that screen is unanswered, no modal screen is pushed while a request is unanswered (C05_input_shield_partial; C05_full_partial: the whole strict acceptor under these and no_f13). Refuted on the faithful model and reproduced event for event on the implementation: the strict return clause (C05_strict_refuted, F13) and the unconditional input clause (C05_input_beneath_modal_refuted: six sessions, each violating exactly one of the three conditions — findings F16/1-6); C05_conditions_independent, C05_conditions_satisfiable. The theorems cover signals sourced at a shielded screen (a dialog calling parent.redraw()/close()). The full acceptor chk_C05 is run on every implementation trace; the F13/F16 fingerprints are known findings.",
    note="setup() callbacks run commands of their own in the model: C05_input_shield_partial and C05_beneath_untouched hold for them under setup_cmds_ok (a setup() with commands reports success), C05_modal_shield_setup_cmds_partial for the acceptor relaxed at the return of such a setup(); the other C05 theorems carry plain_setup; C05_failing_setup_with_commands_refuted is finding F19 seen from C05. Trusted: Coq kernel, extraction, harness (screen_worker.py records events through subclasses / name patching and releases typed lines when the loop is idle). " + 'findings F13 (modal-push-after-close-in-same-callback) and F16 (input-beneath-modal:* — six mechanisms with one root cause: ready signals are routed by source registration, not by stack position) are listed in known_findings.json.',
    technique="Coq theorem: a trace acceptor holds for every application session of an interpreter model of the screen layer over the MainLoop model; the same extracted acceptor judges traces of the real implementation; differential correspondence model<->/repo")


def run(chk, tier):
    screen_check.run(chk, tier, 'C05')


def replay(path):
    return screen_check.replay(path, 'C05')
