"""C05 — A modal screen blocks its caller and shields everything beneath it.
Shared machinery: harness/screen_check.py (sessions on the real App/scheduler/screens/input stack in worker
subprocesses vs the extracted ScreenSem model; the extracted acceptor chk_05 of ScreenMon.v on the implementation traces)."""
import screen_check

RULE = ("sessions = a table of screen programs (stack operations, signals, raises, blocking input, ... issued from "
        "input/refresh/show_all/closed, guarded by invocation counters; failing setups; paging; quit dialog) + typed lines "
        "(item keys, c/r/q, junk, empty, EOF), generated mostly plausible with a malformed stream and a property-specific family; "
        "non-trivial per property: see harness/screen_check.py nontrivial()")

MANIFEST = dict(
    text='Proof: the acceptor chk_C05_partial (while a modal entry — or what replaced it — is on the stack no entry beneath it is set up, refreshed or drawn and no screen beneath gets input; every modal push returns for a frame opened earlier) holds for every session of the model (C05_modal_shield); the strict form (returns only after the entry was closed) is refuted by finding F13 (C05_strict_refuted: close_screen + push_screen_modal in one callback) and proved under the hypothesis excluding it.',
    note="Trusted: Coq kernel, extraction, harness (screen_worker.py records events through subclasses / name patching and releases typed lines when the loop is idle). " + 'finding F13 is listed in known_findings.json (fingerprint modal-push-after-close-in-same-callback).',
    technique="Coq theorem: a trace acceptor holds for every application session of an interpreter model of the screen layer over the MainLoop model; the same extracted acceptor judges traces of the real implementation; differential correspondence model<->/repo")


def run(chk, tier):
    screen_check.run(chk, tier, 'C05')


def replay(path):
    return screen_check.replay(path, 'C05')
