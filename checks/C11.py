"""C11 — text never exceeds its width and nothing but whitespace is lost in wrapping.
Correspondence: the real TextWidget / EntryWidget (imported from /repo) vs the extracted Gallina render_text
(entry `render` on a ["text", s] tree; the chunks of every source line come from CPython's own
TextWrapper()._split_chunks and the contract chunks_ok is re-checked in Gallina on every case).
The theorems of props/C11.v determine the model's answer for every text and width, so a disagreement is a
violation of the property; besides, the property is evaluated DIRECTLY on the implementation's lines
(every line <= w, non-blank characters conserved in order, no empty line without a blank source line, every
source line break starts a line) so that the kind of failure is named in the fingerprint."""
import json, itertools, textwrap
import lib
import render_common as rc

RULE = ("cases = (text, width); exhaustive over the alphabet {a,b,' ','\\n','\\t','-'} up to length 6 (quick) / 8 (thorough; "
        "lengths 7, 8 up to the a<->b renaming) x widths 1..6, plus random texts up to 400 characters (long words, hyphenated words, "
        "runs of blanks, tabs, \\r \\v \\f, unicode blanks, lines of exactly the width) x widths 1..100, EntryWidget texts, and "
        "widths 0, -1, -7 (ValueError) ; histories on one Widget (default content, max_width, earlier write / set_cursor_position, then "
        "write(..., wordwrap=True) with row / col given (0 included) or omitted, widths given / defaulted / <= 0 / missing, block on/off) compared "
        "cell by cell plus cursor ; non-trivial = some source line needs >= 2 output lines or has length exactly w, or (histories) a "
        "non-empty word-wrapped write starting with the cursor away from (0, 0)")

MANIFEST = dict(
    text=("Proof: for every text, every chunk oracle meeting the run-time-checked contract and every width, the Gallina render_text "
          "(line-by-line model of TextWidget.render / Widget.write(wordwrap) / Widget._wrap_words / textwrap.TextWrapper._wrap_chunks, "
          "_handle_long_word, _munge_whitespace) terminates within its fuel for every chunk list (C11_fuel_enough, C11_step_progress), "
          "yields lines of length <= w (C11_width), keeps every non-blank character exactly once and in order (C11_conservation), is the "
          "concatenation of the wrapped source lines with one empty line per source line that wraps to nothing (C11_line_structure, "
          "C11_wrapped_lines_nonempty, C11_blank_line_only_from_blank_source, C11_blank_run_wraps_to_nothing, C11_every_source_line_starts_a_line), each line being the "
          "longest fitting prefix of the remaining chunks (C11_greedy, C11_greedy_inner), words longer than w being cut at a break point "
          "in [1, w] (C11_long_words_split, C11_break_point_bounds), and widths <= 0 rejected (C11_nonpositive_width_rejected); "
          "Widget.write(text, row, col, width, block, wordwrap=True) on any buffer / cursor / max_width types exactly those lines, line k at row+k "
          "from column col (k = 0 or block) or 0, all other cells kept, cursor behind the last line (C11_write_is_typing_the_wrap, C11_write_lines_placed, "
          "C11_write_other_cells_kept, C11_write_padding, C11_write_no_other_cell, C11_write_height, C11_write_cursor, C11_render_is_write); closed under "
          "the global context.  The model is tied to /repo on every run by executing the extracted model and the real widgets on the same "
          "exhaustive and random cases, and the property is also evaluated directly on the implementation's lines."),
    note=("Trusted: Coq kernel; extraction; harness; the chunking regex of textwrap (TextWrapper._split) is an oracle: its output is data of "
          "the model and only its contract (concatenation = munged line, no empty chunk) is checked, in Gallina, on every case; "
          "CPython's str.expandtabs/translate/strip/isspace are modelled (validated on every case by the correspondence); widths are ints."),
    technique="Coq theorems over a Gallina model of textwrap._wrap_chunks + typewriter, differential correspondence run against /repo, direct property evaluation")

ALPHABET = "ab \n\t-"
UBLANKS = ["\xa0", "\u2003", "\u2009", "\u3000", "\x1c", "\x1f", "\x85", "\u2028", "\u200b"]   # the last is NOT a blank
WORDS = ["a", "I", "to", "the", "item", "number", "hello", "world", "longerword", "averyveryverylongword", "hy-phen",
         "semi-detached", "mother-in-law", "e.g.", "1)", "[x]", "--", "a--b", "-x", "x-", "---", "q?", "Zz", "1-2-3",
         "\xe9t\xe9", "na\xefve-ish", "\u4e2d\u6587", "a\u200bb",
         "https://example.org/a-very-long/path-with-hyphens/index.html", "ftp://h/x", "see://"]


# ------------------------------------------------------------------ implementation / model / specification
def impl(case):
    kind, s, w = case["kind"], case["s"], case["w"]
    if kind == "entry":
        tree = ["entry", case["title"], case["value"]]
    else:
        tree = ["text", s]
    obj = rc.build(tree)
    if case.get("first_w") is not None:
        rc.impl_render(obj, case["first_w"])      # the same widget object was rendered before at another width
    return rc.impl_render(obj, w)


def tree_of(case):
    return ["text", case["s"]]     # EntryWidget(title, value) is TextWidget(title + "\n" + value)


def spec_lines(s, w):
    """What C11_line_structure says, computed with CPython's own textwrap (an independent cross-check of the model)."""
    if not s:
        return [0, []]
    if w <= 0:
        return [1]
    out = []
    for line in s.split("\n"):
        ls = textwrap.wrap(line, w)
        out.extend(ls if ls else [""])
    if out == [""]:
        out = []
    return [0, [lib.cps(l) for l in out]]


def nonblank(s):
    return "".join(c for c in s if not c.isspace())


def direct_property(s, w, res):
    """Evaluate the property on the implementation's own output; returns [(key, sentence)]."""
    bad = []
    if not s:
        if res != [0, []]:
            bad.append(("empty-text", "C11_empty_text: the empty text must render to no line, got %r" % (res,)))
        return bad
    if w <= 0:
        if res != [1]:
            bad.append(("nonpositive-width-accepted", "C11_nonpositive_width_rejected: width %d must raise ValueError, got %r" % (w, res[:1])))
        return bad
    if res[0] != 0:
        bad.append(("unexpected-error", "rendering at width %d >= 1 must succeed (C11_never_out_of_model, C11_width), got %r" % (w, res)))
        return bad
    lines = [lib.uncps(l) for l in res[1]]
    src = s.split("\n")
    too_long = [l for l in lines if len(l) > w]
    if too_long:
        bad.append(("line-too-long", "C11_width: line %r has %d > %d characters" % (too_long[0], len(too_long[0]), w)))
    if nonblank("".join(lines)) != nonblank(s):
        bad.append(("chars-lost", "C11_conservation: non-blank characters of the output %r differ from those of the source %r"
                    % (nonblank("".join(lines))[:60], nonblank(s)[:60])))
    n_empty = sum(1 for l in lines if l == "")
    n_blank_src = sum(1 for l in src if l == "" or l.isspace())
    if n_empty > n_blank_src:
        bad.append(("spurious-blank-line", "C11_wrapped_lines_nonempty/C11_blank_line_only_from_blank_source: %d empty output lines but only %d "
                    "blank source lines" % (n_empty, n_blank_src)))
    if len(lines) < len(src) and not (lines == [] and len(src) == 1):
        bad.append(("line-break-lost", "C11_every_source_line_starts_a_line: %d output lines for %d source lines" % (len(lines), len(src))))
    if not lines and nonblank(s):
        bad.append(("chars-lost", "C11_conservation: nothing rendered for a text with non-blank characters"))
    return bad


def nontrivial(s, w, spec):
    if w < 1 or not s:
        return False
    for line in s.split("\n"):
        if len(line) == w:
            return True
    if spec[0] == 0 and len(spec[1]) > s.count("\n") + 1:
        return True
    return False


# ------------------------------------------------------------------ case generation
def canonical_ab(p):
    for c in p:
        if c == "a":
            return True
        if c == "b":
            return False
    return True


def exhaustive_texts(maxlen, sym_from):
    for n in range(0, maxlen + 1):
        for p in itertools.product(ALPHABET, repeat=n):
            if n >= sym_from and not canonical_ab(p):
                continue
            yield "".join(p)


def rand_text(rng, maxlen):
    target = rng.choice([rng.randrange(0, 30), rng.randrange(0, 120), rng.randrange(0, maxlen + 1)])
    parts, n = [], 0
    while n < target:
        r = rng.random()
        if r < 0.35:
            p = rng.choice(WORDS)
        elif r < 0.45:
            p = "".join(rng.choice("abcxyzABC0123456789.,;") for _ in range(rng.randrange(1, 13)))
        elif r < 0.52:
            p = "".join(rng.choice("abc-") for _ in range(rng.randrange(15, 130)))
        elif r < 0.75:
            p = " " * rng.choice([1, 1, 1, 2, 3, 7])
        elif r < 0.80:
            p = "\t" * rng.choice([1, 1, 2])
        elif r < 0.90:
            p = "\n" * rng.choice([1, 1, 1, 2, 3])
        elif r < 0.93:
            p = rng.choice(["\r", "\x0b", "\x0c", "\r\n"])
        elif r < 0.97:
            p = rng.choice(UBLANKS)
        else:
            p = rng.choice([" \n ", "\n ", " \n", "- ", " -", "- -"])
        parts.append(p)
        n += len(p)
    return "".join(parts)[:maxlen]


def rand_width(rng, s):
    r = rng.random()
    lines = [l for l in s.split("\n") if l]
    if r < 0.3 and lines:
        return max(1, min(100, len(rng.choice(lines)) + rng.choice([0, 0, 0, -1, 1])))       # a line of exactly the width
    if r < 0.45 and lines:
        return max(1, min(100, len(rng.choice(lines).expandtabs()) + rng.choice([0, 0, -1, 1])))
    if r < 0.7:
        return rng.randrange(1, 13)
    return rng.randrange(1, 101)


def random_cases(rng, n):
    out = []
    for _ in range(n):
        s = rand_text(rng, 400)
        for _ in range(rng.choice([1, 2, 3])):
            out.append(dict(kind="text", s=s, w=rand_width(rng, s)))
            if rng.random() < 0.3:
                w2 = rand_width(rng, s)
                out.append(dict(kind="text", s=s, w=w2, first_w=rng.choice([max(1, w2 - 1), max(1, w2 // 2), 3, 8, w2 + 7])))
    return out


def entry_cases(rng, n):
    out = []
    for _ in range(n):
        title = rand_text(rng, 40).replace("\n", " ") or "t"
        value = rng.choice([None, "", rand_text(rng, 60), rand_text(rng, 60)])
        s = title + ("\n" + value if value else "")
        out.append(dict(kind="entry", title=title, value=value, s=s, w=rand_width(rng, s)))
    return out


def boundary_cases(rng):
    out = []
    texts = ["", " ", "\n", "a", "abcd\nef", "abcd\n\nef", "abcd \nef", " \x1c", "ab  cdefgh", " abcdef", "a\n", "\na", "\t", "x\ty",
             "aaaa bb\n\n cccccccccc d", "a-b-c-d-e-f", "------", "-a-", "a" * 50, " " * 9 + "a", "a" + " " * 9, "\xa0", "a\xa0b \xa0 c",
             "one two  three   four\tfive", "exactly10!\nexactly10!\n\nexactly10!"]
    texts += [rand_text(rng, 50) for _ in range(20)]
    for s in texts:
        for w in [0, -1, -7, 1, 2, 3, 4, 5, 9, 10, 11, 1000]:
            out.append(dict(kind="text", s=s, w=w))
    return out


# ------------------------------------------------------------------ comparison
def classify(case, i, m, spec):
    """i: implementation, m: model (what the theorems demand).  Returns (key, sentence) or None."""
    if i == m:
        return None
    s, w = case["s"], case["w"]
    dp = direct_property(s, w, i)
    if dp:
        return dp[0]
    if i[0] != 0:
        return ("unexpected-error", "rendering %r at width %d must give %r (C11_line_structure), got %r" % (s[:60], w, m, i))
    return ("not-the-greedy-wrap", "C11_line_structure/C11_greedy: rendering %r at width %d gives %r, the greedy word-wrap of its source lines is %r"
            % (s[:60], w, [lib.uncps(l) for l in i[1]][:8], [lib.uncps(l) for l in m[1]][:8] if m[0] == 0 else m))


def evaluate(chk, cases, tag, with_spec=True):
    """Run implementation, model and (with_spec) the textwrap specification on the cases; record evidence and violations."""
    res_m = rc.model_render([(tree_of(c), c["w"]) for c in cases])
    for c, m in zip(cases, res_m):
        s, w = c["s"], c["w"]
        i = impl(c)
        spec = spec_lines(s, w) if with_spec else m
        chk.count()
        if nontrivial(s, w, spec):
            chk.nontriv([s, w])
        chk.hist(tag)
        chk.hist("outcome=%s" % ("lines" if i[0] == 0 else "ValueError" if i[0] == 1 else "other"))
        if tag != "exhaustive":
            chk.hist("len<=%d" % (10 if len(s) <= 10 else 50 if len(s) <= 50 else 150 if len(s) <= 150 else 400))
            chk.hist("w<=%d" % (0 if w <= 0 else 6 if w <= 6 else 20 if w <= 20 else 100 if w <= 100 else 1000))
        if m[0] in (2, 3):
            chk.violation("model-out-of-contract", "the model left its domain on %r width %d: %r (2 = out of fuel, excluded by C11_fuel_enough; "
                          "3 = chunk contract violated by CPython's splitter)" % (s[:80], w, m), dict(kind="c11", case=c, impl=i, model=m), found=False)
            continue
        if m != spec:
            chk.violation("textwrap-model", "the model of textwrap disagrees with CPython's textwrap.wrap on %r width %d: model %r, CPython %r"
                          % (s[:80], w, m, spec), dict(kind="c11", case=c, impl=i, model=m, spec=spec), found=False)
            continue
        # the property evaluated on the implementation alone
        dp = direct_property(s, w, i)
        for key, what in dp[:1]:
            chk.violation(key, "%s [TextWidget(%r).render(%d) -> %r]" % (what, s[:80], w, [lib.uncps(l) for l in i[1]][:10] if i[0] == 0 else i),
                          dict(kind="c11", case=c, impl=i, model=m), found=True)
        if not dp:
            v = classify(c, i, m, spec)
            if v:
                chk.violation(v[0], v[1], dict(kind="c11", case=c, impl=i, model=m), found=True)


# ------------------------------------------------------------------ histories on one widget: write(..., wordwrap=True) anywhere
# op = ["wrap", s, row, col, width, block] | ["plain", s, row, col, width, block] | ["cursor", row, col]
# history = dict(kind="hist", default=str, maxw=int|None, ops=[op, ...])
PARAGRAPH = "alpha beta gamma delta epsilon zeta eta theta iota kappa lambda mu"


def rows_of(w):
    return [lib.cps("".join(r)) for r in w.content]


def impl_history(h):
    """Run the history on ONE real Widget; per op [0, rows, [row, col]] | [1] ValueError | [4] TypeError | [9, name];
    also the cursor before each op (what the theorems' defaults refer to)."""
    from simpleline.render.widgets import Widget
    w = Widget(max_width=h["maxw"], default=h["default"]) if h["default"] else Widget(max_width=h["maxw"])
    out, before = [], []
    for o in h["ops"]:
        before.append((rows_of(w), list(w.cursor)))
        try:
            if o[0] == "cursor":
                w.set_cursor_position(o[1], o[2])
            else:
                w.write(o[1], row=o[2], col=o[3], width=o[4], block=o[5], wordwrap=(o[0] == "wrap"))
            out.append([0, rows_of(w), list(w.cursor)])
        except ValueError:
            out.append([1])
        except TypeError:
            out.append([4])
        except Exception as e:   # noqa
            out.append([9, type(e).__name__])
    return out, before


def wire_history(h):
    buf = [lib.cps(l) for l in h["default"].split("\n")] if h["default"] else []
    ops = []
    for o in h["ops"]:
        if o[0] == "cursor":
            ops.append([2, o[1], o[2]])
        else:
            txt = rc.wire_text(o[1]) if o[0] == "wrap" else lib.cps(o[1])
            ops.append([0 if o[0] == "wrap" else 1, txt, lib.opt(o[2]), lib.opt(o[3]), lib.opt(o[4]), bool(o[5])])
    return [buf, [0, 0], lib.opt(h["maxw"]), ops]


def expected_after_wrap(rows, cursor, maxw, o):
    """The theorems C11_write_* evaluated in Python: the state a wordwrap write must leave, from the state before it.
    Returns [0, rows, cursor] | [1] | [4]."""
    _, s, row, col, width, block = o
    if not s:
        return [0, rows, cursor]                                     # C11_write_empty_text
    r = cursor[0] if row is None else row                            # an explicit 0 is 0
    c = cursor[1] if col is None else col
    if width is None and maxw:
        width = maxw - c
    if width is None:
        return [4]                                                   # C11_write_no_width
    if width <= 0:
        return [1]                                                   # C11_write_nonpositive_width
    L = []
    for line in s.split("\n"):
        L.extend(textwrap.wrap(line, width) or [""])                 # wrapped_lines (C11_line_structure / C11_greedy)
    new = [list(x) for x in rows]
    if L != [""]:                                                    # C11_write_height
        while len(new) < r + len(L):
            new.append([])
    for k, l in enumerate(L):                                        # C11_write_lines_placed / _padding / _other_cells_kept
        st = c if (k == 0 or block) else 0
        if l:
            rowk = new[r + k]
            if len(rowk) < st + len(l):
                rowk.extend([32] * (st + len(l) - len(rowk)))
            rowk[st:st + len(l)] = lib.cps(l)
    last = len(L) - 1
    cur = [r + last, (c if (last == 0 or block) else 0) + len(L[-1])]    # C11_write_cursor
    return [0, new, cur], (r, c, width, L)


def classify_wrap(o, before, got, want):
    """got / want: [0, rows, cursor] | [1] | [4]; names the theorem of props/C11.v that fails."""
    exp, info = want if isinstance(want, tuple) else (want, None)
    if got == exp:
        return None
    call = "write(%r, row=%r, col=%r, width=%r, block=%r, wordwrap=True) with the cursor at %s" % (o[1][:40], o[2], o[3], o[4], o[5], tuple(before[1]))
    if got[0] != 0 or exp[0] != 0:
        return ("write-outcome", "C11_write_nonpositive_width/C11_write_no_width/C11_write_is_typing_the_wrap: %s gives outcome %r, must be %r" % (call, got[:1], exp[:1]))
    r, c, w, L = info if info else (0, 0, 0, [])
    rows = got[1]
    for k, l in enumerate(L):
        st = c if (k == 0 or o[5]) else 0
        if not l:
            continue
        have = rows[r + k][st:st + len(l)] if r + k < len(rows) else None
        if have != lib.cps(l):
            return ("wrapped-line-misplaced", "C11_write_lines_placed: %s must put line %d %r at row %d from column %d, found %r there"
                    % (call, k, l, r + k, st, None if have is None else lib.uncps(have)))
    if rows != exp[1]:
        return ("other-cell-changed", "C11_write_other_cells_kept/C11_write_padding/C11_write_no_other_cell/C11_write_height: %s leaves rows %r, must be %r"
                % (call, [lib.uncps(x) for x in rows][:6], [lib.uncps(x) for x in exp[1]][:6]))
    return ("cursor-wrong", "C11_write_cursor: %s leaves the cursor at %r, must be %r" % (call, got[2], exp[2]))


def rand_heading(rng):
    return rng.choice(["H", "Head", "Title: ", "ab\ncd", "x\n", "one two", "0123456789", "  "])


def history_cases(rng, tier):
    out = []
    # sweep: a heading of n characters, then the paragraph word-wrapped with row / col given (0 included) or not
    for n in range(0, 5):
        for row, col in [(None, None), (0, 0), (1, 0), (0, None), (None, 0), (1, 3), (2, None)]:
            for width in [1, 4, 7, 12]:
                for block in [False, True]:
                    ops = ([["plain", "H" * n, None, None, None, False]] if n else []) + [["wrap", PARAGRAPH[:30], row, col, width, block]]
                    out.append(dict(kind="hist", default="", maxw=None, ops=ops))
    for _ in range(250 if tier == "quick" else 6000):
        default = rng.choice(["", "", "H", "Head\nxx", "abc\n\ndefgh  ij", "0123456789abcdef\n0123456789abcdef\n0123456789abcdef"])
        maxw = rng.choice([None, None, None, 0, 5, 10, 20])
        ops = []
        for _ in range(rng.choice([1, 1, 2])):
            if rng.random() < 0.5:
                ops.append(["plain", rand_heading(rng), rng.choice([None, None, 0, 1, 3]), rng.choice([None, None, 0, 2, 6]),
                            rng.choice([None, None, 3, 8, 0]), rng.random() < 0.3])
            else:
                ops.append(["cursor", rng.randrange(0, 5), rng.randrange(0, 10)])
        for _ in range(rng.choice([1, 1, 2, 3])):
            s = rng.choice([PARAGRAPH[:rng.randrange(0, 60)], rand_text(rng, 60), rand_text(rng, 25), " ", "a\n\nb"])
            ops.append(["wrap", s, rng.choice([None, None, 0, 0, 1, 2, 5]), rng.choice([None, None, 0, 0, 1, 3, 8]),
                        rng.choice([None] if (maxw and rng.random() < 0.6) else [1, 2, 5, 7, 12, 30, 30, 0, -1, None]), rng.random() < 0.35])
            if rng.random() < 0.2:
                ops.append(["cursor", rng.randrange(0, 4), rng.randrange(0, 6)])
        out.append(dict(kind="hist", default=default, maxw=maxw, ops=ops))
    return out


def evaluate_histories(chk, hists):
    res_m = lib.model_run("wwrite", [wire_history(h) for h in hists])
    for h, m in zip(hists, res_m):
        got, before = impl_history(h)
        chk.count()
        chk.hist("history")
        stopped = False
        for k, o in enumerate(h["ops"]):
            if k >= len(m):
                break
            mk = m[k]
            if mk[0] in (2, 3):
                chk.hist("history-op=outside-model" if mk[0] == 2 else "history-op=contract")
                if mk[0] == 3:
                    chk.violation("model-out-of-contract", "chunk contract violated by CPython's splitter on %r" % (o[1][:60],),
                                  dict(kind="hist", case=h, op=k), found=False)
                break
            chk.hist("history-op=%s/%s" % (o[0], {0: "ok", 1: "ValueError", 4: "TypeError", 9: "other"}[got[k][0]]))
            if o[0] == "wrap":
                if before[k][1] != [0, 0] and o[1]:
                    chk.nontriv(["hist", h["default"], h["maxw"], h["ops"][:k + 1]])
                want = expected_after_wrap(before[k][0], before[k][1], h["maxw"], o)
                exp = want[0] if isinstance(want, tuple) else want
                if mk != exp:
                    chk.violation("textwrap-model", "the model of Widget.write(wordwrap) disagrees with the theorems evaluated with CPython's textwrap on "
                                  "history %r op %d: model %r, expected %r" % (h, k, mk, exp), dict(kind="hist", case=h, op=k, model=mk, spec=exp), found=False)
                    break
                v = classify_wrap(o, before[k], got[k], want)
                if v:
                    chk.violation(v[0], v[1], dict(kind="hist", case=h, op=k, impl=got[k], model=mk), found=True)
                    break
            elif got[k] != mk:
                # plain write / set_cursor_position are C15's subject; here they only set the scene
                chk.violation("scene-differs", "history %r: op %d (%s) leaves %r, the model %r" % (h, k, o[0], got[k], mk),
                              dict(kind="hist", case=h, op=k, impl=got[k], model=mk), found=False)
                break



def batches(it, n):
    buf = []
    for x in it:
        buf.append(x)
        if len(buf) >= n:
            yield buf
            buf = []
    if buf:
        yield buf


def run(chk, tier):
    lib.use_repo()
    rng = chk.rng
    # the defect fixed by 628ec11 and a few hand-picked boundaries first
    b = boundary_cases(rng)
    for c in b[:2] + [x for x in b if x["s"] == "abcd\nef" and x["w"] == 4] + [x for x in b if x["s"].startswith("aaaa bb") and x["w"] == 5]:
        chk.sample(dict(case=c, impl=[lib.uncps(l) for l in impl(c)[1]] if impl(c)[0] == 0 else impl(c)), limit=6)
    evaluate(chk, b, "boundary")
    hs = history_cases(rng, tier)
    chk.sample(dict(case=hs[60], impl=impl_history(hs[60])[0]), limit=7)
    evaluate_histories(chk, hs)
    evaluate(chk, random_cases(rng, 1200 if tier == "quick" else 25000), "random")
    evaluate(chk, entry_cases(rng, 300 if tier == "quick" else 3000), "entry")
    maxlen, sym_from = (6, 99) if tier == "quick" else (8, 7)
    gen = (dict(kind="text", s=s, w=w) for s in exhaustive_texts(maxlen, sym_from) for w in range(1, 7))
    n = 0
    for batch in batches(gen, 120000):
        # the independent textwrap.wrap cross-check of the model is run on the texts of length <= 6 only
        evaluate(chk, batch, "exhaustive", with_spec=len(batch[-1]["s"]) <= 6)
        n += len(batch)
        if len(chk.violations) >= 20:
            break
    chk.extra["exhaustive_cases"] = n
    chk.extra["exhaustive_scope"] = "alphabet %r, length <= %d, widths 1..6%s" % (ALPHABET, maxlen, "" if sym_from > maxlen else " (length >= %d up to a<->b renaming)" % sym_from)


def replay_history(r):
    h, k = r["case"], r["op"]
    got, before = impl_history(h)
    m = lib.model_run("wwrite", [wire_history(h)])[0]
    show = lambda x: [[lib.uncps(l) for l in x[1]], x[2]] if x[0] == 0 else x
    print("history:", h)
    for j, o in enumerate(h["ops"]):
        print(" op %d %r\n   impl : %s\n   model: %s" % (j, o, show(got[j]), show(m[j]) if j < len(m) else "-"))
    bad = 0
    for j, o in enumerate(h["ops"]):
        if j >= len(m) or m[j][0] in (2, 3):
            break
        if o[0] == "wrap":
            v = classify_wrap(o, before[j], got[j], expected_after_wrap(before[j][0], before[j][1], h["maxw"], o))
            if v:
                print("property violated:", v[0], "-", v[1])
                bad = 1
        if got[j] != m[j]:
            bad = 1
    return bad


def replay(path):
    lib.use_repo()
    r = json.load(open(path))["replay"]
    if r.get("kind") == "hist":
        return replay_history(r)
    c = r["case"]
    i = impl(c)
    m = rc.model_render([(tree_of(c), c["w"])])[0]
    spec = spec_lines(c["s"], c["w"])
    show = lambda x: [lib.uncps(l) for l in x[1]] if x[0] == 0 else x
    print("case :", c)
    print("impl :", show(i))
    print("model:", show(m))
    print("textwrap spec:", show(spec))
    dp = direct_property(c["s"], c["w"], i)
    for key, what in dp:
        print("property violated:", key, "-", what)
    return 0 if (i == m and not dp) else 1
