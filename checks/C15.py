"""C15 — drawing and writing into a widget change exactly the intended cells.
Correspondence: real simpleline.render.widgets.Widget objects (imported from /repo) vs the extracted Gallina
draw / write (entry `widget`) on the same sequences of operations, comparing `content` and `cursor` after every
operation.  The theorems of props/C15.v determine every cell, every row length, the height and the cursor of the
model's answer, so a disagreement is a concrete violation; the theorems are ALSO evaluated directly on the
implementation's before/after buffers (spec_draw / spec_write below are transcriptions of the theorem statements,
not of the code) which names the theorem that fails."""
import json, itertools
import lib
from lib import cps

RULE = ("case = initial target (Widget(default=...), ragged rows, possibly empty) + initial cursor + optional max_width "
        "+ 1..4 operations draw(src,row,col,block) / write(text,row,col,width,block) with row/col explicit (0..10) or taken "
        "from the cursor, widths None / 0..8 / defaulted from max_width, texts with newlines; plus an exhaustive sweep of tiny "
        "shapes (targets and sources of <=2 rows of <=2 cells, positions 0..3, texts of <=3 characters over {x, newline}); "
        "non-trivial = some operation acts on a non-empty target and its rectangle / path covers at least one existing "
        "cell and at least one position that did not exist before")

MANIFEST = dict(
    text=("Proof: for every target, source (ragged, empty), row, column and block mode the Gallina draw (line-by-line model of "
          "Widget.draw) yields a buffer whose every cell is the source character inside the rectangle, the old character elsewhere, "
          "a blank exactly between the old end of a drawn row and the start column, and nothing otherwise (C15_draw_cells and the "
          "four case theorems), with height max(|T|, r+|S|), row lengths max(|T_i|, c+|S_(i-r)|) on drawn rows and unchanged elsewhere, "
          "cursor (r+|S|, c or 0).  For every text, position, width and block mode the typewriter of Widget.write visits a buffer-"
          "independent path of pairwise distinct positions strictly increasing in reading order, the k-th character ends up at the "
          "k-th position, every cell off the path is kept / blank-padded left of a written cell / absent, rows and cursor follow the "
          "same recursion, no character is written at or beyond col+w (nor left of col in block mode), with closed forms "
          "(row+k/w, col+k mod w) in block mode and (row+(col+k)/(col+w), (col+k) mod (col+w)) otherwise for newline-free text.  "
          "All theorems closed under the global context.  The model is tied to /repo on every run by executing real Widget objects and "
          "the extracted model on the same random and exhaustive operation sequences."),
    note=("Trusted: Coq kernel; extraction; harness; Python list slicing / += semantics as mirrored by put_line / set_in_line.  "
          "Out of model (not generated): negative row/col, negative width, a width defaulted from max_width < col (the driver reports it, "
          "the sequence is cut there), wordwrap=True (C16/C17), drawing a widget into itself.  Width 0 is inside the model "
          "(correspondence only; the wrap-bound theorems need w >= 1)."),
    technique="Coq theorems over a Gallina model of Widget.draw/write + differential correspondence run against /repo + theorem statements evaluated on the implementation's buffers")

ALPHA = "abcxyz.-#" + "   "
TEXTA = "ABCD1234" + "  " + "\n\n"


# ------------------------------------------------------------------ case construction
def init_buffer(default):
    """Widget.__init__: `if default: buffer = [[c for c in l] for l in default.split("\\n")]`."""
    return [list(l) for l in default.split("\n")] if default else []


def src_buffer(op):
    """source content of a draw op: op = ["draw", rows, mode, row, col, block]; mode "default" goes through Widget(default=)."""
    rows, mode = op[1], op[2]
    return init_buffer("\n".join(rows)) if mode == "default" else [list(s) for s in rows]


def wire_buf(b):
    return [[ord(ch) for ch in l] for l in b]


def wire(case):
    ops = []
    for op in case["ops"]:
        if op[0] == "draw":
            ops.append([0, wire_buf(src_buffer(op)), lib.opt(op[3]), lib.opt(op[4]), bool(op[5])])
        else:
            ops.append([1, cps(op[1]), lib.opt(op[2]), lib.opt(op[3]), lib.opt(op[4]), bool(op[5])])
    return [wire_buf(init_buffer(case["default"])), list(case["cursor"]), lib.opt(case["maxw"]), ops]


def snapshot(w):
    return [[list(l) for l in w.content], list(w.cursor)]


def impl_run(case, nops=None):
    """-> (initial snapshot, [snapshot after op k ...]); an exception ends the list with ["exc", type]."""
    from simpleline.render.widgets import Widget
    w = Widget(max_width=case["maxw"], default=case["default"])
    w.set_cursor_position(case["cursor"][0], case["cursor"][1])
    init = snapshot(w)
    out = []
    ops = case["ops"] if nops is None else case["ops"][:nops]
    sources = {}      # a source with the same content is the same Widget object throughout one sequence
    for op in ops:
        try:
            if op[0] == "draw":
                key = (op[2], tuple(op[1]))
                if key in sources:
                    s = sources[key]
                elif op[2] == "default":
                    s = sources[key] = Widget(default="\n".join(op[1]))
                else:
                    s = sources[key] = Widget()
                    s._buffer = [list(x) for x in op[1]]
                kw = {}
                if op[3] is not None:
                    kw["row"] = op[3]
                if op[4] is not None:
                    kw["col"] = op[4]
                w.draw(s, block=bool(op[5]), **kw)
            else:
                kw = {}
                if op[2] is not None:
                    kw["row"] = op[2]
                if op[3] is not None:
                    kw["col"] = op[3]
                if op[4] is not None:
                    kw["width"] = op[4]
                w.write(op[1], block=bool(op[5]), **kw)
        except Exception as e:            # a broken implementation may raise; that is a result too
            out.append(["exc", type(e).__name__])
            break
        out.append(snapshot(w))
    return init, out


def model_results(cases):
    """-> per case: list of [buffer(chars), cursor] per op, cut where the model says 'out of model'."""
    res = lib.model_run("widget", [wire(c) for c in cases])
    out = []
    for r in res:
        seq = []
        for e in r:
            if e[0] != 0:
                break
            seq.append([[[chr(x) for x in l] for l in e[1]], list(e[2])])
        out.append(seq)
    return out


# ------------------------------------------------------------------ the theorems, evaluated on plain Python lists
def cell(b, i, j):
    return b[i][j] if 0 <= i < len(b) and 0 <= j < len(b[i]) else None


def row_len(b, i):
    return len(b[i]) if 0 <= i < len(b) else 0


def spec_draw(T, r, c, block, S):
    """C15_draw_height, C15_draw_row_length, C15_draw_cells, C15_draw_cursor -> (buffer, cursor, tag(i,j))."""
    h = max(len(T), r + len(S))
    out, tags = [], {}
    for i in range(h):
        inrows = r <= i < r + len(S)
        n = max(row_len(T, i), c + row_len(S, i - r)) if inrows else row_len(T, i)
        line = []
        for j in range(n):
            if inrows and c <= j < c + row_len(S, i - r):
                v, t = cell(S, i - r, j - c), "inside"
            else:
                v, t = cell(T, i, j), "outside_kept"
                if v is None:
                    v, t = (" ", "padding") if (inrows and j < c) else (None, "absent")
            assert v is not None, "theorems inconsistent"
            line.append(v); tags[(i, j)] = t
        out.append(line)
    return out, [r + len(S), c if block else 0], tags


def spec_path(text, x, y, col, width, block):
    """path / path_end / need_rows of proofs/WidgetProofs.v."""
    path, need = [], 0
    for ch in text:
        if ch == "\n":
            x, y = x + 1, (col if block else 0)
            need = max(need, x + 1)
            continue
        path.append((x, y, ch)); need = max(need, x + 1)
        if width is not None and col + width <= y + 1:
            x, y = x + 1, (col if block else 0)
        else:
            y += 1
    return path, [x, y], need


def spec_write(b, cur, text, row, col, width, block):
    """C15_write_empty/_path/_elsewhere_*/_height/_cursor -> (buffer, cursor, tag(i,j), path)."""
    if not text:
        return [list(l) for l in b], list(cur), {}, []
    path, end, need = spec_path(text, row, col, col, width, block)
    written = {(i, j): ch for i, j, ch in path}
    assert len(written) == len(path), "C15_write_path_distinct"
    assert all(path[k][:2] < path[k + 1][:2] for k in range(len(path) - 1)), "C15_write_path_increasing"
    if width is not None and width >= 1:
        assert all(j < col + width and (not block or col <= j) for _, j, _ in path), "C15_write_wraps"
    last = {}
    for i, j, _ in path:
        last[i] = max(last.get(i, -1), j)
    out, tags = [], {}
    for i in range(max(len(b), need)):
        n = max(row_len(b, i), last.get(i, -1) + 1)
        line = []
        for j in range(n):
            if (i, j) in written:
                v, t = written[(i, j)], "path"
            else:
                v, t = cell(b, i, j), "elsewhere_kept"
                if v is None:
                    v, t = " ", "elsewhere_padding"
            line.append(v); tags[(i, j)] = t
        out.append(line)
    return out, end, tags, path


def effective(op, pre_cursor, maxw):
    """resolve the defaults of an op against a cursor: -> (row, col, width) ; width -1 = out of model."""
    if op[0] == "draw":
        r = pre_cursor[0] if op[3] is None else op[3]
        c = pre_cursor[1] if op[4] is None else op[4]
        return r, c, None
    r = pre_cursor[0] if op[2] is None else op[2]
    c = pre_cursor[1] if op[3] is None else op[3]
    w = op[4]
    if w is None and maxw:
        w = maxw - c
        if w < 0:
            w = -1
    return r, c, w


def spec_op(op, pre, maxw):
    """expected [buffer, cursor], tags, kind for one op from the state `pre` = [buffer, cursor]; None if out of model."""
    r, c, w = effective(op, pre[1], maxw)
    if op[0] == "draw":
        b, cur, tags = spec_draw(pre[0], r, c, bool(op[5]), src_buffer(op))
        return [b, cur], tags, "draw"
    if w == -1:
        return None, None, "write"
    b, cur, tags, _ = spec_write(pre[0], pre[1], op[1], r, c, w, bool(op[5]))
    return [b, cur], tags, "write"


def classify(kind, exp, got, tags):
    """name the theorem family an implementation result breaks."""
    if got[0] == "exc":
        return "exception:" + got[1], "raised " + got[1]
    if len(got[0]) != len(exp[0]):
        return kind + ":height", "C15_%s_height: %d rows, theorem says %d" % (kind, len(got[0]), len(exp[0]))
    for i in range(len(exp[0])):
        for j in range(max(len(exp[0][i]), len(got[0][i]))):
            e, g = cell(exp[0], i, j), cell(got[0], i, j)
            if e != g:
                t = tags.get((i, j), "absent" if kind == "draw" else "elsewhere_absent")
                return "%s:%s" % (kind, t), "C15_%s_%s: cell (%d,%d) is %r, theorem says %r" % (kind, t, i, j, g, e)
    if list(got[1]) != list(exp[1]):
        return kind + ":cursor", "C15_%s_cursor: cursor %s, theorem says %s" % (kind, got[1], exp[1])
    return None, None


def overlap_kind(op, pre, maxw):
    """how the rectangle / path of an op meets the existing content: none / all / partial / empty."""
    r, c, w = effective(op, pre[1], maxw)
    if op[0] == "draw":
        S = src_buffer(op)
        pos = [(r + a, c + k) for a in range(len(S)) for k in range(len(S[a]))]
    else:
        if w == -1 or not op[1]:
            return "empty"
        pos = [(i, j) for i, j, _ in spec_path(op[1], r, c, c, w, bool(op[5]))[0]]
    if not pos:
        return "empty"
    ex = sum(1 for p in pos if cell(pre[0], *p) is not None)
    return "none" if ex == 0 else ("all" if ex == len(pos) else "partial")


# ------------------------------------------------------------------ generators
def rand_rows(rng, maxrows=6, maxlen=8):
    return ["".join(rng.choice(ALPHA) for _ in range(rng.randrange(0, maxlen + 1)))
            for _ in range(rng.randrange(0, maxrows + 1))]


def rand_pos(rng):
    u = rng.random()
    return None if u < 0.25 else (rng.randrange(0, 5) if u < 0.65 else rng.randrange(0, 11))


def rand_op(rng, maxw):
    if rng.random() < 0.5:
        return ["draw", rand_rows(rng), rng.choice(["default", "default", "raw"]), rand_pos(rng), rand_pos(rng),
                rng.random() < 0.5]
    n = rng.choice([0, 1, 2, 3, 5, 8, 12, 20])
    text = "".join(rng.choice(TEXTA) for _ in range(n))
    col = rand_pos(rng)
    u = rng.random()
    if u < 0.35:
        width = None
        if maxw and col is not None and col > maxw and rng.random() < 0.9:
            col = rng.randrange(0, maxw + 1)      # keep most defaulted widths inside the model
    elif u < 0.37:
        width = 0
    else:
        width = rng.randrange(1, 9)
    return ["write", text, rand_pos(rng), col, width, rng.random() < 0.5]


def rand_case(rng):
    maxw = None if rng.random() < 0.5 else rng.choice([0, 1, 3, 5, 8, 10, 12, 14])
    rows = rand_rows(rng) if rng.random() < 0.9 else []
    cur = [rng.randrange(0, 8), rng.randrange(0, 8)] if rng.random() < 0.6 else [0, 0]
    ops = [rand_op(rng, maxw) for _ in range(rng.randrange(1, 5))]
    if rng.random() < 0.25:
        # the SAME source widget drawn at two places, then something written over one of the copies: the source
        # object is reused by the harness when its content is identical (aliasing must not leak)
        src = [r for r in rand_rows(rng) if r] or ["ab", "cd"]
        c0 = rng.choice([0, 0, 1, 3])
        r2 = rng.randrange(len(src), len(src) + 4)
        ops = [["draw", src, "raw", 0, c0, rng.random() < 0.5], ["draw", src, "raw", r2, c0, rng.random() < 0.5],
               ["write", rng.choice(["Z", "QQ", "x\ny"]), rng.choice([0, r2]), c0 + rng.choice([0, 1]), None, rng.random() < 0.5],
               rand_op(rng, maxw), ["draw", src, "raw", r2 + len(src) + 1, 0, False]]
    return dict(default="\n".join(rows), cursor=cur, maxw=maxw, ops=ops)


def shapes(maxrows, maxlen, letters):
    """all ragged shapes, cells filled with distinct letters."""
    out = []
    for n in range(maxrows + 1):
        for lens in itertools.product(range(maxlen + 1), repeat=n):
            it = iter(letters)
            out.append(["".join(next(it) for _ in range(k)) for k in lens])
    return out


def sweep_cases(tier):
    cases = []
    big = tier == "thorough"
    T = shapes(2, 2, "abcd")
    S = shapes(2, 2, "PQRS")
    P = range(0, 4) if big else range(0, 3)
    for t in T:
        if t == [""]:
            continue                 # Widget(default="") is the empty buffer, already covered by []
        for s in S:
            for r in P:
                for c in P:
                    for block in (False, True):
                        cases.append(dict(default="\n".join(t), cursor=[0, 0], maxw=None,
                                          ops=[["draw", s, "raw", r, c, block]]))
    texts = ["".join(p) for n in range(1, 4 if big else 3) for p in itertools.product("x\n", repeat=n)]
    texts = [("".join(chr(ord("1") + k) if ch == "x" else ch for k, ch in enumerate(t))) for t in texts]
    for t in T:
        if t == [""]:
            continue
        for text in texts:
            for r in range(0, 3):
                for c in range(0, 3):
                    for width in (None, 1, 2):
                        for block in (False, True):
                            cases.append(dict(default="\n".join(t), cursor=[0, 0], maxw=None,
                                              ops=[["write", text, r, c, width, block]]))
    return cases


# ------------------------------------------------------------------ comparison
def compare(chk, cases):
    nbad = 0
    for lo in range(0, len(cases), 4000):
        chunk = cases[lo:lo + 4000]
        mres = model_results(chunk)
        for case, mseq in zip(chunk, mres):
            if len(mseq) < len(case["ops"]):
                chk.hist("cut:out-of-model-width")
            init, iseq = impl_run(case, nops=len(mseq))
            chk.count()
            exp_init = [init_buffer(case["default"]), list(case["cursor"])]
            if init != exp_init:
                chk.violation("init", "Widget(default=%r) content/cursor %s, expected %s" % (case["default"], init, exp_init),
                              dict(kind="c15", case=case), found=True)
                nbad += 1
                continue
            pre = init
            nt = False
            for k, m in enumerate(mseq):
                op = case["ops"][k]
                got = iseq[k] if k < len(iseq) else ["exc", "missing"]
                exp, tags, kind = spec_op(op, pre, case["maxw"])
                ov = overlap_kind(op, pre, case["maxw"])
                chk.hist("op=%s overlap=%s" % (kind, ov))
                if kind == "write":
                    chk.hist("write width=%s" % ("None" if op[4] is None and not case["maxw"] else
                                                 "from-max_width" if op[4] is None else "0" if op[4] == 0 else "explicit"))
                    chk.hist("write newlines=%s" % ("yes" if "\n" in op[1] else "no"))
                if op[0] == "draw" and (op[3] is None or op[4] is None) or op[0] == "write" and (op[2] is None or op[3] is None):
                    chk.hist("position from cursor")
                if ov == "partial" and pre[0]:
                    nt = True
                if exp != m:
                    # the Python transcription of the theorems and the extracted model must agree: harness defect otherwise
                    chk.violation("oracle-model-disagree", "theorem transcription %s vs extracted model %s on op %d" % (exp, m, k),
                                  dict(kind="c15", case=case, op=k), found=False)
                    nbad += 1
                    break
                if got != m:
                    key, why = classify(kind, exp, got, tags)
                    r, c, w = effective(op, pre[1], case["maxw"])
                    what = ("Widget.%s differs from the proved model at op %d %r (row=%s col=%s width=%s) on buffer %s: %s"
                            % (kind, k, op, r, c, w, ["".join(l) for l in pre[0]], why))
                    chk.violation(key or "differs", what, dict(kind="c15", case=case, op=k, impl=got, model=m), found=True)
                    nbad += 1
                    break
                pre = got
            if nt:
                chk.nontriv(case)
            chk.hist("ops=%d" % len(mseq))
    return nbad


def run(chk, tier):
    lib.use_repo()
    rng = chk.rng
    nrand = 3000 if tier == "quick" else 100000
    cases = [rand_case(rng) for _ in range(nrand)]
    for c in cases[:3]:
        chk.sample(dict(case=c, impl=[[["".join(l) for l in s[0]], s[1]] if s[0] != "exc" else s for s in impl_run(c)[1]]), limit=3)
    compare(chk, cases)
    sw = sweep_cases(tier)
    chk.extra["exhaustive_sweep_cases"] = len(sw)
    compare(chk, sw)


def replay(path):
    lib.use_repo()
    r = json.load(open(path))["replay"]
    case = r["case"]
    mseq = model_results([case])[0]
    init, iseq = impl_run(case, nops=len(mseq))
    print("case :", case)
    rc = 0
    pre = init
    for k, m in enumerate(mseq):
        got = iseq[k] if k < len(iseq) else ["exc", "missing"]
        exp, tags, kind = spec_op(case["ops"][k], pre, case["maxw"])
        show = lambda s: s if s[0] == "exc" else [["".join(l) for l in s[0]], s[1]]
        print("op %d %r\n  impl : %s\n  model: %s" % (k, case["ops"][k], show(got), show(m)))
        if got != m:
            print("  ->", classify(kind, exp, got, tags)[1])
            rc = 1
            break
        pre = got
    return rc
