import sys, io, threading, random, itertools; sys.path.insert(0,'/repo')
from simpleline import App
from simpleline.render.screen import UIScreen, InputState
from simpleline.render.screen_handler import ScreenHandler
from simpleline.render.widgets import TextWidget
from simpleline.input import input_handler
from simpleline.event_loop import ExitMainLoop, AbstractSignal
from simpleline.event_loop import event_queue
LOG=[]; LINES=[]
idle=threading.Event(); done=threading.Event()
class Stop(AbstractSignal): pass
_oget=event_queue.EventQueue.get
def gget(self):
    if self._queue.empty(): idle.set()
    return _oget(self)
event_queue.EventQueue.get=gget
def fake_input():
    idle.wait(5); idle.clear()
    if not LINES:
        LOG.append(('EOF',)); App.get_event_loop().enqueue_signal(Stop(None,10**6)); done.wait(5); return ''
    l=LINES.pop(0); LOG.append(('read',l)); return l
input_handler.InputHandlerRequest._get_input=staticmethod(fake_input)
SCR={}
def stack(): return [ (str(d.ui_screen), d.execute_new_loop) for d in App.get_scheduler()._screen_stack._screens]
class S(UIScreen):
    def __init__(self,name,acts,setup_ok=True):
        super().__init__(title=name); self.name=name; self.acts=acts; self.setup_ok=setup_ok
    def __str__(self): return self.name
    def setup(self,args):
        LOG.append(('setup',self.name,args,stack()))
        if not self.setup_ok: return False
        return super().setup(args)
    def refresh(self,args=None):
        LOG.append(('refresh',self.name,args,stack())); super().refresh(args)
        self.window.add(TextWidget("body "+self.name))
        do(self,self.acts.get('refresh',[]))
    def show_all(self):
        LOG.append(('show',self.name,stack())); super().show_all()
        do(self,self.acts.get('show',[]))
    def input(self,args,key):
        LOG.append(('input',self.name,args,key,stack()))
        a=self.acts.get('input',{}).get(key)
        if a is None: return key
        do(self,a[0]); return a[1]
    def closed(self): LOG.append(('closed',self.name,stack()))
def do(scr,cmds):
    for c in cmds:
        if c[0] in('push','modal','replace') and c[1] in [n for n,_ in stack()]: continue
        if c[0]=='push': LOG.append(('op','push',c[1],c[2])); ScreenHandler.push_screen(SCR[c[1]],c[2])
        elif c[0]=='modal':
            LOG.append(('op','modal',c[1],c[2],len(stack()))); ScreenHandler.push_screen_modal(SCR[c[1]],c[2]); LOG.append(('modal-ret',c[1],stack()))
        elif c[0]=='replace': LOG.append(('op','replace',c[1],c[2])); ScreenHandler.replace_screen(SCR[c[1]],c[2])
        elif c[0]=='close': LOG.append(('op','closesig',scr.name)); scr.close()
        elif c[0]=='redraw': scr.redraw()
def run(first,lines,timeout=5):
    LINES[:]=lines; LOG.clear(); idle.clear(); done.clear()
    App.initialize()
    App.get_event_loop().register_signal_handler(Stop,lambda s,d:(_ for _ in ()).throw(ExitMainLoop()))
    for f in first: LOG.append(('op','schedule',f,None)); ScreenHandler.schedule_screen(SCR[f])
    out=io.StringIO(); old=sys.stdout; sys.stdout=out
    res={}
    def go():
        try: App.run(); res['o']='normal'
        except SystemExit: res['o']='killed'
        except BaseException as e: res['o']='ESC:'+type(e).__name__
    t=threading.Thread(target=go,daemon=True)
    try: t.start(); t.join(timeout)
    finally: sys.stdout=old; done.set()
    return ('HANG' if t.is_alive() else res.get('o')), list(LOG), out.getvalue()
RET=[InputState.PROCESSED,InputState.PROCESSED_AND_REDRAW,InputState.PROCESSED_AND_CLOSE,InputState.DISCARDED,'c','r','zz',None]
def gen(rng):
    SCR.clear()
    names=['A','B','C','D','E']
    keys=['1','2','3']
    used_modal=set()
    for n in names:
        acts={'input':{}}
        for k in keys:
            if rng.random()<0.7:
                cmds=[]
                if rng.random()<0.6:
                    tgt=rng.choice([x for x in names if x!=n])
                    kind=rng.choice(['push','modal','replace','push','modal'])
                    cmds.append((kind,tgt,rng.choice([None,7])))
                acts['input'][k]=(cmds,rng.choice(RET))
        if rng.random()<0.15: acts['refresh']=[('modal',rng.choice([x for x in names if x!=n]),None)]
        if rng.random()<0.1: acts['show']=[('modal',rng.choice([x for x in names if x!=n]),None)]
        SCR[n]=S(n,acts)
    first=rng.sample(names,rng.randint(1,2))
    lines=[rng.choice(keys+keys+['c','c','r','x','']) for _ in range(rng.randint(3,14))]
    return first,lines

import json
def analyse(seed):
    rng=random.Random(seed); first,lines=gen(rng)
    o,log,out=run(first,lines)
    iss=[]
    for e in log:
        if e[0] in('refresh','show','setup','input'):
            st=e[-1]
            if not st or st[-1][0]!=e[1]: iss.append(('C04-not-top:'+e[0],e))
    reads=[e[1] for e in log if e[0]=='read']; ins=[e[3] for e in log if e[0]=='input']
    if o not in('HANG',) and reads!=ins: iss.append(('C06-seq',reads,ins))
    last={}
    for e in log:
        if e[0] in('setup','refresh','show','closed'):
            if e[0]=='show' and last.get(e[1])!='refresh': iss.append(('C08-show-without-refresh',e))
            last[e[1]]=e[0]
    st=[]
    for e in log:
        if e[0]=='op' and e[1]=='modal': st.append((e[2],e[4]))
        elif e[0]=='modal-ret': st.pop()
        elif e[0] in('refresh','show','input','setup') and st:
            h=st[-1][1]; cur=e[-1]
            if len(cur)-1 < h: iss.append(('C05-beneath-active:'+e[0],e,st[-1]))
    return o,iss
if __name__=="__main__":
    seed=int(sys.argv[1]); o,iss=analyse(seed)
    print(json.dumps([seed,o,[str(i)[:300] for i in iss]]))
