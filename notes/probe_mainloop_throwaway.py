import sys, random, itertools; sys.path.insert(0,'/repo')
from simpleline.event_loop import main_loop, event_queue, AbstractSignal, ExitMainLoop
from simpleline.event_loop.main_loop import MainLoop
from simpleline.event_loop.signals import ExceptionSignal
class WouldBlock(BaseException): pass
# in-process trial of F1 + F5 so that we look *beyond* them
cnt=itertools.count()
EQ=event_queue.EventQueue
def _put(self,s): self._queue.put((s.priority,next(cnt),s))
EQ.enqueue=lambda self,s:_put(self,s)
def eisb(self,s,src):
    if self.contains_source(src): _put(self,s); return True
    return False
EQ.enqueue_if_source_belongs=eisb
def get(self):
    if self._queue.empty(): raise WouldBlock()
    return self._queue.get()[2]
EQ.get=get
def gtp(self,p):
    e=self._queue.get()
    if e[0]==p: return e[2]
    self._queue.put(e); return None
EQ.get_top_event_if_priority=gtp
NCLS=4
CLS=[type("K%d"%i,(AbstractSignal,),{}) for i in range(NCLS)]
class Loop(MainLoop):
    depth=0
    def _process_signal(self, signal):
        ci=CLS.index(type(signal)) if type(signal) in CLS else -1
        T.append(('disp',signal.sid if hasattr(signal,'sid') else -1,ci,Loop.depth,len(self._event_queues)))
        try: self._ps(signal)
        except BaseException as e:
            T.append(('disp-exc',type(e).__name__)); raise
        finally: T.append(('disp-end',signal.sid if hasattr(signal,'sid') else -1))
    def _ps(self, signal):
        self._mark_signal_processed(signal)
        if type(signal) in self._handlers:
            for handler_data in self._handlers[type(signal)]:
                if self._force_quit: break
                try: handler_data.callback(signal, handler_data.data)
                except ExitMainLoop: raise
                except Exception: self.enqueue_signal(ExceptionSignal(self))
        elif isinstance(signal, ExceptionSignal):
            self.kill_app_with_traceback(signal)
    def execute_new_loop(self,signal):
        Loop.depth+=1; T.append(('newloop-enter',Loop.depth))
        try: super().execute_new_loop(signal)
        finally: Loop.depth-=1
        T.append(('newloop-return',Loop.depth+1))
T=[]
def run_case(rng):
    global T
    T=[]; Loop.depth=0
    l=Loop(); sid=itertools.count(); 
    nh=rng.randint(1,6)
    def mk_sig(c,p,src):
        s=(CLS[c] if c<NCLS else ExceptionSignal)(src,p) if c<NCLS else None
        s.sid=next(sid); return s
    def gen_cmds(d=0):
        out=[]
        for _ in range(rng.randint(0,4)):
            k=rng.choice(['enq','enq','enq','raise','exit','fq','new','close','proc','procw','regsrc'] if d<1 else ['enq','raise','close'])
            if k in('enq','new'): out.append((k,rng.randrange(NCLS),rng.choice([-5,0,0,0,3]),rng.choice([None,None,'s0','s1','s2'])))
            elif k=='procw': out.append((k,rng.randrange(NCLS)))
            elif k=='regsrc': out.append((k,rng.choice(['s0','s1','s2'])))
            else: out.append((k,))
        return out
    progs={h:gen_cmds() for h in range(nh)}
    counts={h:0 for h in range(nh)}
    def handler(h):
        def f(sig,data):
            counts[h]+=1
            T.append(('h',h,sig.sid,data,Loop.depth,l._force_quit))
            if counts[h]>3: return   # bound re-execution
            for c in progs[h]:
                k=c[0]
                if k=='enq':
                    s=mk_sig(*c[1:]); T.append(('enq',s.sid,c[1],c[2],c[3],len(l._event_queues))); l.enqueue_signal(s)
                elif k=='raise': T.append(('raise',h)); raise RuntimeError()
                elif k=='exit': T.append(('exit',h)); raise ExitMainLoop()
                elif k=='fq': T.append(('fq',)); l.force_quit()
                elif k=='new':
                    s=mk_sig(*c[1:]); T.append(('enq',s.sid,c[1],c[2],c[3],len(l._event_queues)+1)); l.execute_new_loop(s)
                elif k=='close': T.append(('close',Loop.depth,len(l._event_queues))); l.close_loop()
                elif k=='proc': T.append(('proc',)); l.process_signals(); T.append(('proc-ret',))
                elif k=='procw': T.append(('procw',c[1])); l.process_signals(return_after=CLS[c[1]]); T.append(('procw-ret',c[1],l._run_loop))
                elif k=='regsrc': l.register_signal_source(c[1])
        return f
    reg=[]
    for h in range(nh):
        c=rng.randrange(NCLS); d=rng.randrange(100); reg.append((c,h,d)); l.register_signal_handler(CLS[c],handler(h),d)
    if rng.random()<0.5:
        l.register_signal_handler(ExceptionSignal,lambda s,d:T.append(('exc-handled',)))
    l.set_quit_callback(lambda a:T.append(('quitcb',a)),42)
    for _ in range(rng.randint(1,6)):
        c,p,src=rng.randrange(NCLS),rng.choice([-5,0,0,0,3]),None
        s=mk_sig(c,p,src); T.append(('enq',s.sid,c,p,src,1)); l.enqueue_signal(s)
    out='normal'
    try: l.run()
    except WouldBlock: out='blocked'
    except SystemExit: out='killed'
    except BaseException as e: out='ESCAPED:'+type(e).__name__
    T.append(('end',out))
    return progs,reg,T,out
from collections import Counter
outs=Counter(); issues=Counter(); ex={}
import simpleline.event_loop as el
el.AbstractEventLoop.kill_app_with_traceback=lambda self,sig,data=None: (_ for _ in ()).throw(SystemExit(1))
for seed in range(int(sys.argv[1])):
    rng=random.Random(seed)
    progs,reg,t,out=run_case(rng); outs[out.split(':')[0]+(':'+out.split(':')[1] if ':' in out else '')]+=1
    # M9: after exit no handler; after fq no handler start
    seen_exit=False; seen_fq=False
    for e in t:
        if e[0]=='exit': seen_exit=True
        if e[0]=='fq': seen_fq=True
        if e[0]=='h' and seen_exit: issues['handler-after-exit']+=1; ex.setdefault('hae',(seed,))
        if e[0]=='h' and seen_fq: issues['handler-after-fq']+=1; ex.setdefault('haf',(seed,))
    qc=[e for e in t if e[0]=='quitcb']
    if out=='normal' and len(qc)!=1: issues['quitcb!=1']+=1; ex.setdefault('qc',(seed,))
    if out=='normal' and not (seen_exit or seen_fq or any(e[0]=='close' and e[2]==1 for e in t)): issues['returned-without-cause']+=1; ex.setdefault('rwc',(seed,t))
    if out.startswith('ESCAPED'): ex.setdefault(out,(seed,))
    # C02: own-frame handler sequence
    stack=[]
    for e in t:
        if e[0]=='disp': stack.append([e,[],False])
        elif e[0]=='h' and stack: stack[-1][1].append((e[1],e[3]))
        elif e[0] in('exit','fq','disp-exc') and stack:
            for fr in stack: fr[2]=True
        elif e[0]=='disp-end':
            d,hs,cut=stack.pop()
            if d[2]>=0:
                exp=[(h,dd) for (c,h,dd) in reg if c==d[2]]
                if cut:
                    if hs!=exp[:len(hs)]: issues['C02-prefix']+=1; ex.setdefault('c02p',(seed,d,hs,exp))
                elif hs!=exp: issues['C02-seq']+=1; ex.setdefault('c02',(seed,d,hs,exp))
    # C10: procw brackets
    st=[]
    for i,e in enumerate(t):
        if e[0]=='procw': st.append((e[1],i))
        elif e[0]=='procw-ret':
            c,i0=st.pop()
            seg=t[i0:i]
            ok=any(x[0]=='disp' and x[2]==c for x in seg)
            stopped=(not e[2])
            if not ok and not stopped: issues['C10-early-return']+=1; ex.setdefault('c10',(seed,seg))
            # nothing dispatched in own frame after the dispatch that released it
            if ok and not stopped:
                depth=0; first=None; after=0
                for x in seg:
                    if x[0]=='disp':
                        if depth==0 and first is not None and first=='done': after+=1
                        depth+=1
                        if x[2]==c and first is None: first='open'
                    elif x[0]=='disp-end':
                        depth-=1
                        if depth==0 and first=='open': first='done'
                    elif x[0]=='procw' and depth==0 and first is None: pass
                if after: issues['C10-dispatch-after-release']+=1; ex.setdefault('c10b',(seed,seg))
print(outs); print(issues); 
for k,v in ex.items(): print(k, str(v)[:1500])
