"""glib_impl.py — run an event-loop case (format: coq/theories/drv/Drv_loop.v, the same cases loop_impl.py runs
on MainLoop) on the real GLibEventLoop imported from /repo, over the REAL libglib-2.0 reached through the ctypes
stand-in for PyGObject in harness/glib_shim.  Same result structure and event vocabulary as loop_impl.run_case;
the "queue id" of an event is the id of the loop level (= of its GLib main context), numbered in creation order
exactly as MainLoop's EventQueue objects are.

GLib cases never run in the checking process: `Worker` starts a subprocess (this file with --worker), the shim is
put on sys.path there only.  Every wait has a timeout; a case that exceeds its budget kills the worker (outcome 6).

Blocking: g_main_loop_run would sleep in poll() for ever on an idle context.  Each level's context carries a
watchdog — an idle source of priority 10**6, reached only when nothing else is ready in that context.  When the
innermost frame iterating the context is a blocking one (MainLoop.run, or the wait loop of
process_signals(return_after)), the watchdog delivers the next scripted external submission, or, when none is left,
raises WouldBlock (outcome 4, the terminal state "idle for ever").  Under a plain process_signals() it does nothing.
"""
import io, sys, os, json, contextlib, subprocess, select, time

SHIM = os.path.join(os.path.dirname(os.path.abspath(__file__)), "glib_shim")
WATCHDOG_PRIO = 10 ** 6
STEP_LIMIT = 400            # handler invocations (as loop_impl)
DISPATCH_LIMIT = 3000       # source dispatches (a source that is never destroyed comes back for ever)


class WouldBlock(BaseException):
    pass


class StepLimit(BaseException):
    pass


def run_case(case):
    """In the worker process only (needs the shim on sys.path before simpleline's GLib loop is imported)."""
    from simpleline import App
    from simpleline.event_loop import AbstractSignal, ExitMainLoop
    from simpleline.event_loop import glib_event_loop as GEL
    from simpleline.event_loop.signals import ExceptionSignal
    GLib = GEL.GLib

    fuel, bodies, actions = case
    log = []
    st = dict(nsig=0, nq=0, loop=None, steps=0, dispatches=0)
    ext = []
    sid_of = {}
    keep = []
    classes = {}
    counts = {}
    srcs = {}
    levels_all = []             # every EventLoopData ever created
    modes = {}                  # level id -> stack of bool (True = blocking wait, False = plain process_signals)

    def cls_of(k):
        if k == 0:
            return ExceptionSignal
        if k not in classes:
            classes[k] = type("Sig%d" % k, (AbstractSignal,), {})
        return classes[k]

    def src_of(o):
        if o is None:
            return None
        if o not in srcs:
            srcs[o] = type("Src%d" % o, (), {})()
        return srcs[o]

    def cls_id(sg):
        if type(sg) is ExceptionSignal:
            return 0
        for k, v in classes.items():
            if v is type(sg):
                return k
        return 999

    def src_id(o):
        for k, v in srcs.items():
            if v is o:
                return [k]
        return []

    def register(sg):
        if id(sg) not in sid_of:
            sid_of[id(sg)] = st["nsig"]
            st["nsig"] += 1
            keep.append(sg)
            log.append([20, sid_of[id(sg)], cls_id(sg), sg.priority, src_id(sg.source)])   # ESigNew
        return sid_of[id(sg)]

    def new_signal(k, prio, src):
        c = cls_of(k)
        if k == 0:
            sg = ExceptionSignal(src_of(src), exception_info=(None, None, None))
            sg._priority = prio
        else:
            sg = c(src_of(src), prio)
        register(sg)
        return sg

    def watchdog(lid):
        stack = modes[lid]
        if stack and not stack[-1]:
            return True                                  # plain process_signals(): an idle context just returns
        if ext:
            k, prio, src = ext.pop(0)
            sg = new_signal(k, prio, src)
            log.append([17, sid_of[id(sg)]])             # EExt
            try:
                st["loop"].enqueue_signal(sg)
            except Exception:                            # the submitting thread's problem (no level left: IndexError)
                pass
            return True
        raise WouldBlock()

    class LoggedELD(GEL.EventLoopData):
        def __init__(self, loop):
            super().__init__(loop)
            self.lid = st["nq"]
            st["nq"] += 1
            ctx = loop.get_context()
            ctx._lid = self.lid
            self.ctx = ctx
            modes[self.lid] = []
            levels_all.append(self)
            w = GLib.idle_source_new()
            w.set_priority(WATCHDOG_PRIO)
            w.set_callback(watchdog, self.lid)
            w.attach(ctx)
            self.watchdog = w

    class LoggedList(list):
        def pop(self, *a):
            l = super().pop(*a)
            log.append([9, l.lid])                       # EClosePop
            return l

    class Loop(GEL.GLibEventLoop):
        def __init__(self):
            super().__init__()
            self._event_loops = LoggedList(self._event_loops)

        def enqueue_signal(self, signal):
            sid = register(signal)
            if self._force_quit:
                log.append([1, sid])                     # EDropped
            return super().enqueue_signal(signal)

        def _register_handlers_to_loop(self, event_loop, signal):
            log.append([0, sid_of[id(signal)], event_loop.get_context()._lid])   # EEnq: source attached to that level
            return super()._register_handlers_to_loop(event_loop, signal)

        def _run_handlers(self, data):
            sid = sid_of[id(data.signal)]
            st["dispatches"] += 1
            if st["dispatches"] > DISPATCH_LIMIT:
                raise StepLimit()
            log.append([2, sid, data.source.get_context()._lid, len(self._event_loops)])   # EDispatch
            super()._run_handlers(data)
            log.append([6, sid])                         # EDispatchEnd

        def execute_new_loop(self, signal):
            register(signal)
            if self._force_quit:
                return super().execute_new_loop(signal)
            q = st["nq"]
            log.append([7, q])                           # ENewLoopEnter
            super().execute_new_loop(signal)
            log.append([8, q])                           # ENewLoopReturn

        def process_signals(self, return_after=None):
            lvl = self._event_loops[-1] if self._event_loops else None
            if return_after is None:
                w, t = [], 0
            else:
                t = self._processed_signals._counter
                w = [[c for c, v in list(classes.items()) + [(0, ExceptionSignal)] if v is return_after][0]]
            log.append([10, w, t])
            if lvl is not None:
                modes[lvl.lid].append(return_after is not None)
            try:
                super().process_signals(return_after)
            finally:
                if lvl is not None:
                    modes[lvl.lid].pop()
            log.append([11, w, t])

        def force_quit(self):
            super().force_quit()
            log.append([12])

        def run(self):
            log.append([14])
            super().run()
            log.append([15])

        def kill_app_with_traceback(self, exception_signal, data=None):
            log.append([16])
            super().kill_app_with_traceback(exception_signal, data)

    def do_cmds(cmds, hid, count):
        loop = st["loop"]
        for c in cmds:
            op = c[0]
            if op == 0:
                loop.enqueue_signal(new_signal(c[1], c[2], c[3][0] if c[3] else None))
            elif op == 1:
                raise RuntimeError("scripted")
            elif op == 2:
                raise ExitMainLoop()
            elif op == 3:
                loop.force_quit()
            elif op == 4:
                loop.execute_new_loop(new_signal(c[1], c[2], c[3][0] if c[3] else None))
            elif op == 5:
                loop.close_loop()
            elif op == 6:
                loop.process_signals(cls_of(c[1][0]) if c[1] else None)
            elif op == 7:
                loop.register_signal_source(src_of(c[1]))
                log.append([22, c[1], loop._event_loops[-1].lid])
            elif op == 8:
                loop.register_signal_handler(cls_of(c[1]), handler_for(c[2]), c[3])
                log.append([21, c[1], c[2], c[3]])
            elif op == 9:
                do_cmds(c[2] if count < c[1] else c[3], hid, count)
            elif op == 10:
                log.append([18, c[1]])
            elif op == 11:
                ext.append((c[1], c[2], c[3][0] if c[3] else None))
            elif op == 12:
                loop.set_quit_callback(lambda a: log.append([13, a]), c[1])
                log.append([23, c[1]])
            else:
                raise AssertionError(op)

    hcache = {}

    def handler_for(hid):
        if hid in hcache:
            return hcache[hid]

        def h(signal, data):
            sid = sid_of[id(signal)]
            count = counts.get(hid, 0)
            counts[hid] = count + 1
            log.append([4, hid, sid, data])
            st["steps"] += 1
            if st["steps"] > STEP_LIMIT:
                raise StepLimit()
            try:
                do_cmds(bodies[hid] if hid < len(bodies) else [], hid, count)
            except (WouldBlock, StepLimit):
                raise
            except ExitMainLoop:
                log.append([5, hid, sid, [1]]); raise
            except SystemExit:
                log.append([5, hid, sid, [3]]); raise
            except Exception:
                log.append([5, hid, sid, [2]]); raise
            log.append([5, hid, sid, []])
        hcache[hid] = h
        return h

    GEL_ELD = GEL.EventLoopData
    GEL.EventLoopData = LoggedELD
    out = io.StringIO()
    outcomes = []
    old_hook = sys.excepthook
    loop = None
    try:
        with contextlib.redirect_stdout(out), contextlib.redirect_stderr(out):
            sys.excepthook = lambda *a: None
            loop = Loop()
            st["loop"] = loop
            App.initialize(event_loop=loop)
            for a in actions:
                log.append([24])                         # ETop
                try:
                    if a[0] == 0:
                        do_cmds(a[1:], None, 0)
                    else:
                        loop.run()
                    outcomes.append(0)
                except WouldBlock:
                    outcomes.append(4); break
                except StepLimit:
                    outcomes.append(5); break
                except ExitMainLoop:
                    outcomes.append(1)
                except SystemExit:
                    outcomes.append(3); break
                except Exception:
                    outcomes.append(2)
        # what is still attached, per level, in dispatch order (priority, attach order)
        pend = {l.lid: [] for l in levels_all}
        for s in list(GLib._live_sources.values()):
            if s.is_destroyed() or not s._data or not isinstance(s._data[0], GEL.CallbackArgs):
                continue
            lid = getattr(s.get_context(), "_lid", None)
            pend.setdefault(lid, []).append((s.get_priority(), len(pend[lid]), sid_of[id(s._data[0].signal)]))
        pend = [[lid, [x[2] for x in sorted(v)]] for lid, v in sorted(pend.items())]
        levels = [l.lid for l in loop._event_loops]
        active = levels[-1] if levels else 0
    finally:
        GEL.EventLoopData = GEL_ELD
        sys.excepthook = old_hook
        # the default main context is shared by every GLibEventLoop of the process: leave nothing attached
        GLib._pending_exc[0] = None
        for s in list(GLib._live_sources.values()):
            s.destroy()
        GLib._live_sources.clear()
        del GLib._running_loops[:]
    return [outcomes, log, pend, levels, active]


# ---------------------------------------------------------------------------------------------- worker process
def _worker_main():
    sys.dont_write_bytecode = True
    repo = os.environ.get("VERIF_REPO", "/repo")
    sys.path.insert(0, repo)
    sys.path.insert(0, SHIM)                 # only here: the stand-in for PyGObject
    chan = os.fdopen(os.dup(1), "w")
    devnull = os.open(os.devnull, os.O_WRONLY)
    os.dup2(devnull, 1)
    sys.stdout = open(os.devnull, "w")
    import simpleline
    assert simpleline.__file__.startswith(repo + "/"), simpleline.__file__
    for line in sys.stdin:
        line = line.strip()
        if not line:
            continue
        try:
            res = run_case(json.loads(line))
        except BaseException as e:           # a harness error: report, the parent decides
            import traceback
            res = dict(error="%s: %s" % (type(e).__name__, e), tb=traceback.format_exc()[-1500:])
        chan.write(json.dumps(res) + "\n")
        chan.flush()


TIMEOUT_RESULT = [[6], [], [], [], 0]       # outcome 6: the case did not finish within its budget (worker killed)


class Worker(object):
    """One subprocess running GLib cases one after the other; recycled every `recycle` cases and after a timeout."""

    def __init__(self, case_timeout=10.0, recycle=400, stderr_path=None):
        self.case_timeout = case_timeout
        self.recycle = recycle
        self.p = None
        self.n = 0
        self.buf = b""
        self.stderr_path = stderr_path or os.path.join(os.path.join(os.path.dirname(os.path.dirname(os.path.abspath(__file__))), ".work"), "glib_worker_%d.err" % os.getpid())
        self.timeouts = 0
        self.spawned = 0

    def _start(self):
        env = dict(os.environ, PYTHONDONTWRITEBYTECODE="1", PYTHONHASHSEED="0")
        env.setdefault("VERIF_REPO", os.environ.get("VERIF_REPO", "/repo"))
        os.makedirs(os.path.dirname(self.stderr_path), exist_ok=True)
        self.err = open(self.stderr_path, "ab")
        self.p = subprocess.Popen([sys.executable, os.path.abspath(__file__), "--worker"], stdin=subprocess.PIPE,
                                  stdout=subprocess.PIPE, stderr=self.err, env=env, cwd="/tmp")
        self.n = 0
        self.buf = b""
        self.spawned += 1

    def close(self):
        if self.p is not None:
            try:
                self.p.stdin.close()
            except Exception:
                pass
            try:
                self.p.wait(timeout=3)
            except Exception:
                self.p.kill()
                try:
                    self.p.wait(timeout=3)
                except Exception:
                    pass
            try:
                self.p.stdout.close()
                self.err.close()
            except Exception:
                pass
            self.p = None

    def _kill(self):
        if self.p is not None:
            self.p.kill()
            try:
                self.p.wait(timeout=5)
            except Exception:
                pass
            try:
                self.p.stdin.close(); self.p.stdout.close(); self.err.close()
            except Exception:
                pass
            self.p = None

    def run(self, case):
        if self.p is None or self.p.poll() is not None or self.n >= self.recycle:
            self.close()
            self._start()
        self.n += 1
        try:
            self.p.stdin.write((json.dumps(case) + "\n").encode())
            self.p.stdin.flush()
        except (BrokenPipeError, OSError):
            self._kill()
            return dict(error="worker died before the case")
        deadline = time.time() + self.case_timeout
        fd = self.p.stdout.fileno()
        while b"\n" not in self.buf:
            left = deadline - time.time()
            if left <= 0:
                self._kill()
                self.timeouts += 1
                return [list(x) if isinstance(x, list) else x for x in TIMEOUT_RESULT]
            r, _, _ = select.select([fd], [], [], min(left, 1.0))
            if r:
                chunk = os.read(fd, 1 << 16)
                if not chunk:
                    self._kill()
                    return dict(error="worker died during the case (see %s)" % self.stderr_path)
                self.buf += chunk
        line, self.buf = self.buf.split(b"\n", 1)
        return json.loads(line)

    def __enter__(self):
        return self

    def __exit__(self, *a):
        self.close()


def run_cases(cases, case_timeout=10.0):
    with Worker(case_timeout) as w:
        return [w.run(c) for c in cases]


if __name__ == "__main__":
    if "--worker" in sys.argv:
        _worker_main()
