"""render_common.py — shared by the rendering checks (C11, C12, C13, C15, C16, C17).

Tree specs (JSON-able):
  ["text", s] | ["entry", title, value] | ["sep", n] | ["center", t]
  | ["column", [[cw|None, [t, ...]], ...], spacing]
  | ["checkbox", key, title|None, text|None, completed]
  | ["list", "row"|"col", columns, [t, ...], forced|None, spacing, [prefix, suffix, offset]|None]
  | ["window", title|None, [t, ...]]
"""
import textwrap, random
import lib
from lib import cps, opt

_TW = textwrap.TextWrapper()


def chunks_of(s):
    """CPython's own chunker (the oracle of TextWrap.v), one chunk list per source line."""
    return [[cps(c) for c in _TW._split_chunks(line)] for line in s.split("\n")]


def wire_text(s):
    return [cps(s), chunks_of(s)]


def checkbox_parts(key, title, text, completed):
    box = "[%s]" % (key if completed else " ")
    data = []
    if title:
        data.append(title)
    if text:
        data.append("(%s)" % text)
    return box, data


def wire_tree(t):
    k = t[0]
    if k == "text":
        return [0, wire_text(t[1])]
    if k == "entry":
        msg = t[1]
        if t[2]:
            msg += "\n" + t[2]
        return [0, wire_text(msg)]
    if k == "sep":
        return [1, t[1]]
    if k == "center":
        return [2, wire_tree(t[1])]
    if k == "column":
        return [3, [[opt(cw), [wire_tree(x) for x in items]] for cw, items in t[1]], t[2]]
    if k == "checkbox":
        box, data = checkbox_parts(*t[1:5])
        return [4, wire_text(box), [wire_text(d) for d in data]]
    if k == "list":
        _, kind, columns, items, forced, spacing, pat = t
        return [5, 1 if kind == "col" else 0, columns, [wire_tree(x) for x in items], opt(forced), spacing,
                [] if pat is None else [[cps(pat[0]), cps(pat[1]), pat[2]]]]
    if k == "window":
        return [6, [] if t[1] is None else [wire_text(t[1])], [wire_tree(x) for x in t[2]]]
    raise ValueError(k)


def build(t):
    """Instantiate the real widgets from /repo for a tree spec."""
    from simpleline.render import widgets as W, containers as C
    k = t[0]
    if k == "text":
        # every fourth text (by length) is handed over as UTF-8 BYTES: the framework accepts both (utils.ensure_str) and must
        # show the same characters
        if len(t[1]) % 4 == 3:
            try:
                return W.TextWidget(t[1].encode("utf-8"))
            except UnicodeEncodeError:
                pass
        return W.TextWidget(t[1])
    if k == "entry":
        return W.EntryWidget(t[1], t[2])
    if k == "sep":
        return W.SeparatorWidget(t[1])
    if k == "center":
        return W.CenterWidget(build(t[1]))
    if k == "column":
        return W.ColumnWidget([(cw, [build(x) for x in items]) for cw, items in t[1]], t[2])
    if k == "checkbox":
        return W.CheckboxWidget(key=t[1], title=t[2], text=t[3], completed=t[4])
    if k == "list":
        _, kind, columns, items, forced, spacing, pat = t
        cls = C.ListColumnContainer if kind == "col" else C.ListRowContainer
        c = cls(columns, [build(x) for x in items], columns_width=forced, spacing=spacing, numbering=pat is not None)
        if pat is not None and pat != ["", ") ", 1]:
            c.key_pattern = C.KeyPattern(pat[0] + "{:d}" + pat[1], pat[2])
        return c
    if k == "window":
        c = C.WindowContainer(t[1])
        for x in t[2]:
            c.add(build(x))
        return c
    raise ValueError(k)


def impl_render(w, width):
    """[0, lines] | [1] ValueError | [9, repr] other exception."""
    try:
        with lib.time_limit(20):
            w.render(width)
    except ValueError:
        return [1]
    except lib.Hang:
        return [9, "does-not-terminate(20s)"]
    except Exception as e:   # noqa
        return [9, type(e).__name__]
    return [0, [cps(l) for l in w.get_lines()]]


def model_render(cases):
    """cases: list of (tree, width) -> list of [0, lines] | [1] | [2] | [3]"""
    return lib.model_run("render", [[wire_tree(t), w] for t, w in cases])


# ------------------------------------------------------------------ generators
WORDS = ["a", "bb", "ccc", "item", "number", "x", "hello", "world", "longerword", "averyveryverylongword",
         "hy-phen", "semi-detached", "e.g.", "1)", "[x]", "--", "a--b", "tab\there", "q?", "Zz"]


def rand_text(rng, maxwords=8, newlines=True):
    n = rng.randrange(0, maxwords + 1)
    parts = []
    for i in range(n):
        parts.append(rng.choice(WORDS))
        r = rng.random()
        if r < 0.6:
            parts.append(" ")
        elif r < 0.7:
            parts.append("  ")
        elif r < 0.75:
            parts.append("\t")
        elif r < 0.85 and newlines:
            parts.append("\n")
        elif r < 0.88 and newlines:
            parts.append("\n\n")
        elif r < 0.9:
            parts.append(" \n ")
    s = "".join(parts)
    if rng.random() < 0.1:
        s = " " + s
    return s


def rand_tree(rng, depth=2, allow_window=True):
    r = rng.random()
    if depth <= 0 or r < 0.45:
        k = rng.random()
        if k < 0.7:
            return ["text", rand_text(rng)]
        if k < 0.8:
            return ["entry", rand_text(rng, 3, False) or "t", rng.choice([None, "", rand_text(rng, 3)])]
        if k < 0.9:
            return ["sep", rng.randrange(0, 4)]
        return ["checkbox", rng.choice(["x", "*", "o"]), rng.choice([None, "", rand_text(rng, 4, False)]),
                rng.choice([None, "", rand_text(rng, 4, False)]), rng.choice([True, False, None])]
    if r < 0.55:
        return ["center", rand_tree(rng, depth - 1, False)]
    if r < 0.85:
        n = rng.randrange(0, 8)
        pat = rng.choice([["", ") ", 1]] * 4 + [None, ["[", "] ", 0], ["", ". ", 5], ["#", " ", 98]])
        return ["list", rng.choice(["row", "col"]), rng.randrange(1, 5),
                [rand_tree(rng, depth - 1, False) for _ in range(n)],
                rng.choice([None] * 5 + [6, 12, 20, 0]), rng.choice([3, 3, 0, 1, 5]), pat]
    if r < 0.92 or not allow_window:
        return ["column", [[rng.choice([None, 5, 10, 15]), [rand_tree(rng, depth - 1, False) for _ in range(rng.randrange(0, 3))]]
                           for _ in range(rng.randrange(0, 4))], rng.randrange(0, 4)]
    return ["window", rng.choice([None, "", "Title", rand_text(rng, 5, False)]),
            [rand_tree(rng, depth - 1, False) for _ in range(rng.randrange(0, 5))]]
