"""render_common.py — shared by the rendering checks (C11, C12, C13, C15, C16, C17).

Tree specs (JSON-able):
  ["text", s] | ["entry", title, value] | ["sep", n] | ["center", t]
  | ["column", [[cw|None, [t, ...]], ...], spacing]
  | ["checkbox", key, title|None, text|None, completed]
  | ["list", "row"|"col", columns, [t, ...], forced|None, spacing, [prefix, suffix, offset]|None]
  | ["window", title|None, [t, ...]]
"""
import textwrap, random
import lib
from lib import cps, opt

_TW = textwrap.TextWrapper()


def chunks_of(s):
    """CPython's own chunker (the oracle of TextWrap.v), one chunk list per source line."""
    return [[cps(c) for c in _TW._split_chunks(line)] for line in s.split("\n")]


def wire_text(s):
    return [cps(s), chunks_of(s)]


def checkbox_parts(key, title, text, completed):
    box = "[%s]" % (key if completed else " ")
    data = []
    if title:
        data.append(title)
    if text:
        data.append("(%s)" % text)
    return box, data


def wire_tree(t):
    k = t[0]
    if k == "text":
        return [0, wire_text(t[1])]
    if k == "entry":
        msg = t[1]
        if t[2]:
            msg += "\n" + t[2]
        return [0, wire_text(msg)]
    if k == "sep":
        return [1, t[1]]
    if k == "center":
        return [2, wire_tree(t[1])]
    if k == "column":
        return [3, [[opt(cw), [wire_tree(x) for x in items]] for cw, items in t[1]], t[2]]
    if k == "checkbox":
        box, data = checkbox_parts(*t[1:5])
        return [4, wire_text(box), [wire_text(d) for d in data]]
    if k == "list":
        _, kind, columns, items, forced, spacing, pat = t
        return [5, 1 if kind == "col" else 0, columns, [wire_tree(x) for x in items], opt(forced), spacing,
                [] if pat is None else [[cps(pat[0]), cps(pat[1]), pat[2]]]]
    if k == "window":
        return [6, [] if t[1] is None else [wire_text(t[1])], [wire_tree(x) for x in t[2]]]
    raise ValueError(k)


_VTEXT = {}


def _vtext_class(W):
    """A TextWidget whose instances compare (and hash) by their text, like a value object: two DISTINCT widgets with the same
    text are equal.  The framework must treat widgets as the objects they are."""
    if W not in _VTEXT:
        class ValueText(W.TextWidget):
            def __init__(self, text):
                super().__init__(text)
                self._vt = text

            def __eq__(self, other):
                return isinstance(other, ValueText) and other._vt == self._vt

            def __hash__(self):
                return hash(self._vt)
        _VTEXT[W] = ValueText
    return _VTEXT[W]


def build(t, shared=None):
    """Instantiate the real widgets from /repo for a tree spec.
    Equal plain texts among the DIRECT items of one list container, or among the direct items of a window and of the list
    containers directly inside it, are ONE widget object used at several places (an application's shared "n/a" placeholder):
    in these positions the object is rendered again right before each use or always to the same width, so the result is that
    of equal copies (what the model's trees are)."""
    from simpleline.render import widgets as W, containers as C
    k = t[0]

    def item(x, local):
        if x[0] == "text" and local is not None and len(x[1]) % 3 != 2:
            if x[1] not in local:
                local[x[1]] = build(x)
            return local[x[1]]
        return build(x, local if x[0] == "list" else None)
    if k == "text":
        if len(t[1]) % 5 == 1:
            return _vtext_class(W)(t[1])
        # every fourth text (by length) is handed over as UTF-8 BYTES: the framework accepts both (utils.ensure_str) and must
        # show the same characters
        if len(t[1]) % 4 == 3:
            try:
                return W.TextWidget(t[1].encode("utf-8"))
            except UnicodeEncodeError:
                pass
        return W.TextWidget(t[1])
    if k == "entry":
        return W.EntryWidget(t[1], t[2])
    if k == "sep":
        return W.SeparatorWidget(t[1])
    if k == "center":
        return W.CenterWidget(build(t[1]))
    if k == "column":
        return W.ColumnWidget([(cw, [build(x) for x in items]) for cw, items in t[1]], t[2])
    if k == "checkbox":
        return W.CheckboxWidget(key=t[1], title=t[2], text=t[3], completed=t[4])
    if k == "list":
        _, kind, columns, items, forced, spacing, pat = t
        cls = C.ListColumnContainer if kind == "col" else C.ListRowContainer
        # without numbering every item of the container is rendered to the same width: equal texts are one shared object.
        # With numbering the width left for an item depends on the length of its label ("9) " / "10) "), and all items are
        # rendered before any is drawn: there an object is used once only (also the one shared with the enclosing window)
        local = (shared if shared is not None else {}) if pat is None else None
        used = set()
        built = []
        for x in items:
            if x[0] == "text" and local is not None:
                built.append(item(x, local))
            elif x[0] == "text" and shared is not None and x[1] not in used and len(x[1]) % 3 != 2:
                used.add(x[1])
                if x[1] not in shared:
                    shared[x[1]] = build(x)
                built.append(shared[x[1]])
            else:
                built.append(build(x))
        c = cls(columns, built, columns_width=forced, spacing=spacing, numbering=pat is not None)
        if pat is not None and pat != ["", ") ", 1]:
            c.key_pattern = C.KeyPattern(pat[0] + "{:d}" + pat[1], pat[2])
        return c
    if k == "window":
        c = C.WindowContainer(t[1])
        local = {}
        for x in t[2]:
            c.add(item(x, local))
        return c
    raise ValueError(k)


def impl_render(w, width):
    """[0, lines] | [1] ValueError | [9, repr] other exception."""
    try:
        with lib.time_limit(20):
            w.render(width)
    except ValueError:
        return [1]
    except lib.Hang:
        return [9, "does-not-terminate(20s)"]
    except Exception as e:   # noqa
        return [9, type(e).__name__]
    return [0, [cps(l) for l in w.get_lines()]]


def model_render(cases):
    """cases: list of (tree, width) -> list of [0, lines] | [1] | [2] | [3]"""
    return lib.model_run("render", [[wire_tree(t), w] for t, w in cases])


# ------------------------------------------------------------------ generators
WORDS = ["a", "bb", "ccc", "item", "number", "x", "hello", "world", "longerword", "averyveryverylongword",
         "hy-phen", "semi-detached", "e.g.", "1)", "[x]", "--", "a--b", "tab\there", "q?", "Zz", "http://host/a-long-path/to-some/page"]


def rand_text(rng, maxwords=8, newlines=True):
    n = rng.randrange(0, maxwords + 1)
    parts = []
    for i in range(n):
        parts.append(rng.choice(WORDS))
        r = rng.random()
        if r < 0.6:
            parts.append(" ")
        elif r < 0.7:
            parts.append("  ")
        elif r < 0.75:
            parts.append("\t")
        elif r < 0.85 and newlines:
            parts.append("\n")
        elif r < 0.88 and newlines:
            parts.append("\n\n")
        elif r < 0.9:
            parts.append(" \n ")
    s = "".join(parts)
    if rng.random() < 0.1:
        s = " " + s
    return s


def rand_tree(rng, depth=2, allow_window=True):
    r = rng.random()
    if depth <= 0 or r < 0.45:
        k = rng.random()
        if k < 0.7:
            return ["text", rand_text(rng)]
        if k < 0.8:
            return ["entry", rand_text(rng, 3, False) or "t", rng.choice([None, "", rand_text(rng, 3)])]
        if k < 0.9:
            return ["sep", rng.randrange(0, 4)]
        return ["checkbox", rng.choice(["x", "*", "o"]), rng.choice([None, "", rand_text(rng, 4, False)]),
                rng.choice([None, "", rand_text(rng, 4, False)]), rng.choice([True, False, None])]
    if r < 0.55:
        return ["center", rand_tree(rng, depth - 1, False)]
    if r < 0.85:
        n = rng.randrange(0, 8)
        # key patterns: the default, none, and custom ones — also ones that do NOT end in exactly one blank
        pat = rng.choice([["", ") ", 1]] * 4 + [None, ["[", "] ", 0], ["", ". ", 5], ["#", " ", 98], ["[", "]", 1], ["", ")  ", 7], ["", ":", 0]])
        items = [rand_tree(rng, depth - 1, False) for _ in range(n)]
        if n >= 2 and rng.random() < 0.3:
            # the same text at two places of one container (build() makes it ONE shared widget object)
            texts = [x for x in items if x[0] == "text"] or [["text", rng.choice(["n/a", "-", "shared placeholder text"])]]
            for _ in range(rng.randrange(1, 3)):
                items[rng.randrange(n)] = list(rng.choice(texts))
        return ["list", rng.choice(["row", "col"]), rng.randrange(1, 5), items,
                rng.choice([None] * 5 + [6, 12, 20, 0]), rng.choice([3, 3, 0, 1, 5]), pat]
    if r < 0.92 or not allow_window:
        return ["column", [[rng.choice([None, 5, 10, 15]), [rand_tree(rng, depth - 1, False) for _ in range(rng.randrange(0, 3))]]
                           for _ in range(rng.randrange(0, 4))], rng.randrange(0, 4)]
    witems = [rand_tree(rng, depth - 1, False) for _ in range(rng.randrange(0, 5))]
    if witems and rng.random() < 0.3:
        # a text that is a direct item of the window AND an item of a list container inside it (one shared object)
        lists = [x for x in witems if x[0] == "list" and x[3]]
        if lists:
            l = rng.choice(lists)
            txt = ["text", rng.choice(["a fairly long notice that wraps differently in a narrow column than in the window", "n/a"])]
            l[3][rng.randrange(len(l[3]))] = list(txt)
            witems.insert(rng.randrange(len(witems) + 1), list(txt))
    return ["window", rng.choice([None, "", "Title", rand_text(rng, 5, False)]), witems]
