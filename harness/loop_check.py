"""loop_check.py — the shared check of the event-loop properties C01, C02, C03, C09, C10.

For one property P:
  1. generate sessions (handler programs + top-level calls), run each on the real MainLoop (loop_impl);
  2. run the extracted model on the same sessions and compare the part of the result that P is about
     (its projection of the event trace + outcomes) — the correspondence;
  3. evaluate P's extracted monitor (the very acceptor the theorem is about) on the IMPLEMENTATION's trace.
A monitor rejection is a concrete violation (the session is the replay, shrunk); a disagreement with the
model without a rejection is reported as `no-failing-input-found`.
"""
import json, random, copy
import lib, loop_impl, loop_gen

EV = {0: 'Enq', 1: 'Dropped', 2: 'Dispatch', 3: 'Requeue', 4: 'Handler', 5: 'HandlerEnd', 6: 'DispatchEnd',
      7: 'NewLoopEnter', 8: 'NewLoopReturn', 9: 'ClosePop', 10: 'ProcEnter', 11: 'ProcReturn', 12: 'ForceQuit',
      13: 'QuitCb', 14: 'RunEnter', 15: 'RunReturn', 16: 'Kill', 17: 'Ext', 18: 'Mark', 20: 'SigNew',
      21: 'RegHandler', 22: 'RegSource', 23: 'SetQuitCb', 24: 'Top'}

# which event kinds each property's correspondence compares (besides the outcomes)
PROJ = {
    "C01": {0, 1, 2, 3, 17, 20, 24},
    "C02": {2, 4, 5, 6, 16, 20, 21, 0, 1, 12, 13, 24, 14},
    "C03": {0, 2, 3, 7, 8, 9, 12, 20, 22, 24, 14},
    "C09": {0, 1, 2, 4, 5, 7, 9, 12, 13, 14, 15, 23, 24},
    "C10": {2, 6, 10, 11, 9, 12, 8, 14, 20, 24, 3},
}
MON = {"C01": 1, "C02": 2, "C03": 3, "C09": 9, "C10": 10}


def pretty(trace, upto=None):
    out = []
    for k, e in enumerate(trace if upto is None else trace[:upto + 1]):
        out.append("%d %s %s" % (k, EV.get(e[0], e[0]), e[1:]))
    return out


def project(prop, res):
    return [res[0], [e for e in res[1] if e[0] in PROJ[prop]]] + (res[2:] if prop in ("C01", "C03") else [])


def run_impl(case):
    return loop_impl.run_case(copy.deepcopy(case))


def model_case(case):
    """The case as the model sees it: a re-arm command (13) of handler h is the enqueue of one more signal with
    the class / priority / source recorded for h in the case's 4th element."""
    if len(case) < 4:
        return case
    rearm = {int(k): v for k, v in case[3].items()}

    def conv(cmds, h):
        out = []
        for c in cmds:
            if c[0] == 13:
                out.append([0] + rearm[h])
            elif c[0] == 9:
                out.append([9, c[1], conv(c[2], h), conv(c[3], h)])
            else:
                out.append(c)
        return out
    return [case[0], [conv(b, h) for h, b in enumerate(case[1])], case[2]]


def monitor(code, traces):
    return lib.model_run("mon", [[code, t] for t in traces])


def impl_rejects(prop, case):
    """Does P's monitor reject the implementation's trace of this case? -> (bool, index, result)"""
    i = run_impl(case)
    if 5 in i[0]:
        return False, None, i
    r = monitor(MON[prop], [i[1]])[0]
    return r[0] == 0, (r[1] if r[0] == 0 else None), i


def shrink_case(prop, case, budget=120):
    """Greedy removal of top-level commands, handler-body commands and whole actions while P's monitor
    still rejects the implementation trace."""
    best = copy.deepcopy(case)
    steps = 0

    def fails(c):
        nonlocal steps
        steps += 1
        try:
            return impl_rejects(prop, c)[0]
        except Exception:
            return False
    changed = True
    while changed and steps < budget:
        changed = False
        # drop whole actions
        for ai in range(len(best[2]) - 1, -1, -1):
            c = copy.deepcopy(best); del c[2][ai]
            if c[2] and fails(c):
                best = c; changed = True
        # drop commands of top-level actions
        for ai in range(len(best[2])):
            a = best[2][ai]
            if a[0] != 0:
                continue
            for ci in range(len(a) - 1, 0, -1):
                c = copy.deepcopy(best); del c[2][ai][ci]
                if steps < budget and fails(c):
                    best = c; changed = True
        # drop commands of handler bodies
        for hi in range(len(best[1])):
            for ci in range(len(best[1][hi]) - 1, -1, -1):
                c = copy.deepcopy(best); del c[1][hi][ci]
                if steps < budget and fails(c):
                    best = c; changed = True
    return best


def nontrivial(prop, res):
    t = res[1]
    kinds = [e[0] for e in t]
    if prop == "C01":
        # two signals of equal priority pending in one queue at some dispatch
        pend = {}
        prio = {}
        ok = False
        for e in t:
            if e[0] == 20:
                prio[e[1]] = e[3]
            elif e[0] == 0:
                pend.setdefault(e[2], []).append(e[1])
            elif e[0] == 2:
                l = pend.get(e[2], [])
                ps = [prio.get(s) for s in l]
                if len(ps) != len(set(ps)):
                    ok = True
                if e[1] in l:
                    l.remove(e[1])
        return ok
    if prop == "C02":
        # a dispatch with >= 2 handlers of which >= 1 raised
        per = {}
        for e in t:
            if e[0] == 5:
                per.setdefault(e[2], []).append(e[3])
        return any(len(v) >= 2 and any(h == [2] for h in v) for v in per.values())
    if prop == "C03":
        # an enqueue routed to a non-active level while a nested level is open
        levels = [0]
        for e in t:
            if e[0] == 7:
                levels.append(e[1])
            elif e[0] == 9 and levels:
                levels.pop()
            elif e[0] == 12:
                levels = []
            elif e[0] == 0 and len(levels) >= 2 and e[2] != levels[-1]:
                return True
        return False
    if prop == "C09":
        # a stop request (exit / force-quit / close of the last level) at depth >= 1 or with >= 2 signals pending
        depth = 0
        pending = 0
        for e in t:
            if e[0] == 7:
                depth += 1
            elif e[0] == 9:
                depth -= 1
            elif e[0] == 0:
                pending += 1
            elif e[0] == 2:
                pending -= 1
            if (e[0] == 12 or (e[0] == 5 and e[3] == [1])) and (depth >= 1 or pending >= 2):
                return True
        return False
    if prop == "C10":
        # a waiter released by a dispatch that happened in a nested processing call
        waits = []
        frames = 0
        cls = {}
        for e in t:
            if e[0] == 20:
                cls[e[1]] = e[2]
            elif e[0] == 10 and e[1]:
                waits.append((e[1][0], frames))
            elif e[0] == 11 and e[1] and waits:
                waits.pop()
            elif e[0] == 2:
                for c, d in waits:
                    if cls.get(e[1]) == c and frames > d:
                        return True
                frames += 1
            elif e[0] == 6:
                frames -= 1
        return False
    return False


def classify(prop, case, res, idx):
    """Fingerprint of a monitor rejection (matched against known_findings.json)."""
    ev = res[1][idx]
    kind = EV.get(ev[0], str(ev[0]))
    if prop == "C03" and kind == "NewLoopReturn":
        # does the non-strict acceptor (levels opened after a close in the same handler exempted) accept?
        r = monitor(103, [res[1]])[0]
        if r[0] == 1:
            return "newloop-after-close-in-same-handler"
    return "%s:%s" % (prop, kind)


def corpus_cases(prop):
    import os
    p = os.path.join(lib.VERIF, "corpus", "loop")
    out = []
    if os.path.isdir(p):
        for f in sorted(os.listdir(p)):
            if f.endswith(".json"):
                d = json.load(open(os.path.join(p, f)))
                if prop in d.get("props", [prop]):
                    out.append(d["case"])
    return out


def run(chk, tier, prop):
    lib.use_repo()
    rng = chk.rng
    n = dict(quick=2500, thorough=60000)[tier]
    cases = corpus_cases(prop)
    ncorpus = len(cases)
    for k in range(n):
        r = rng.random()
        cases.append(loop_gen.gen_case(rng, malformed=(r < 0.15), nest=(r > 0.05)))
    if prop in ("C01",):
        for k in range(n // 5):
            cases.append(loop_gen.gen_ties_case(rng))
        for k in range(n // 10):
            cases.append(loop_gen.gen_rearm_case(rng))
    if prop in ("C03", "C09", "C10"):
        for k in range(n // 3 if prop == "C09" else n):
            cases.append(loop_gen.gen_nested_case(rng, prop))
    kept, impl = [], []
    for c in cases:
        try:
            with lib.time_limit(30):
                i = run_impl(c)
        except lib.Hang:
            chk.count()
            chk.violation("impl-hangs", "the implementation does not come back from a session within 30 s (every generated session is "
                          "bounded by a handler-invocation limit and ends in milliseconds on the unchanged tree)",
                          dict(kind="loop", prop=prop, case=c), found=True)
            continue
        chk.count()
        if 5 in i[0]:
            chk.hist("discarded:step-limit")
            continue
        c[0] = 60 + 4 * len(i[1])
        kept.append(c); impl.append(i)
        chk.hist("outcome=%s" % (i[0][-1] if i[0] else "none"))
        chk.hist("events<%d" % (10 ** len(str(len(i[1])))))
    # correspondence
    CH = 4000
    models = []
    for a in range(0, len(kept), CH):
        models += lib.model_run_tolerant("loop", [model_case(c) for c in kept[a:a + CH]], timeout=60, floor=8)
    verdicts = []
    for a in range(0, len(kept), CH):
        verdicts += monitor(MON[prop], [i[1] for i in impl[a:a + CH]])
    nbad = 0
    for c, i, m, v in zip(kept, impl, models, verdicts):
        if nontrivial(prop, i):
            chk.nontriv(c)
        if len(chk.samples) < 2 and len(i[1]) > 12:
            chk.sample(dict(session=c, implementation_trace=pretty(i[1])[:60], outcomes=i[0]))
        if v[0] == 0:
            key = classify(prop, c, i, v[1])
            known = any(f.get("property") == prop and f.get("status") == "known" and f.get("key") == key
                        for f in lib.known_findings())
            small = c if known else shrink_case(prop, c)
            rej, idx, ires = impl_rejects(prop, small)
            if not rej:
                small, idx, ires = c, v[1], i
            chk.violation(key, "%s monitor rejects the implementation's own trace at event %d (%s): %s" % (
                prop, idx, EV.get(ires[1][idx][0]), ires[1][idx]),
                dict(kind="loop", prop=prop, case=small, rejected_index=idx, trace=pretty(ires[1], idx)), found=True)
            nbad += 1
        elif m is None:
            chk.violation("corr:%s" % prop,
                          "the implementation finishes a session on which the proved model, given fuel for the implementation's trace "
                          "length, gives no answer in time (it diverges there): implementation and model disagree",
                          dict(kind="loop", prop=prop, case=c, impl=pretty(project(prop, i)[1])[:200], outcomes=[i[0], None]), found=False)
            nbad += 1
        elif prop == "C09" and i[0] != m[0] and i[0] and i[0][-1] == 4 and m[0] and m[0][-1] in (0, 1) and \
                any(e[0] == 5 and e[3] == [1] for e in i[1]) and not any(e[0] == 15 for e in i[1][max(k for k, e in enumerate(i[1]) if e[0] == 5 and e[3] == [1]):]):
            chk.violation("C09:run-did-not-return", "a handler requested exit (ExitMainLoop) but run() never returned: the loop is waiting on its queue (theorem C09_stops / C02_run_returns_only: the model returns with outcomes %s)" % m[0],
                          dict(kind="loop", prop=prop, case=c, trace=pretty(i[1])[-40:]), found=True)
            nbad += 1
        elif prop == "C09" and i[0] != m[0] and 2 in i[0] and any(a == [1] for a in c[2]) and \
                [k for k, o in enumerate(i[0]) if o == 2 and k < len(c[2]) and c[2][k] == [1]] and \
                not [k for k, o in enumerate(m[0]) if o == 2 and k < len(c[2]) and c[2][k] == [1]]:
            chk.violation("C09:handler-failure-ended-run", "run() was ended by an ordinary exception of a handler (theorems C02_dispatch_catches / C09_failing_handler_does_not_stop: a failing handler never stops the loop); outcomes implementation %s, model %s" % (i[0], m[0]),
                          dict(kind="loop", prop=prop, case=c, trace=pretty(i[1])[-40:]), found=True)
            nbad += 1
        elif project(prop, i) != project(prop, m):
            chk.violation("corr:%s" % prop,
                          "implementation and model disagree on the %s-relevant part of a session (monitor still accepts the implementation trace)" % prop,
                          dict(kind="loop", prop=prop, case=c, impl=pretty(project(prop, i)[1])[:200],
                               model=pretty(project(prop, m)[1])[:200], outcomes=[i[0], m[0]]), found=False)
            nbad += 1
        if nbad > 40:
            break
    chk.extra["sessions_compared"] = len(kept)
    chk.extra["corpus_sessions"] = ncorpus


def replay(path, prop):
    lib.use_repo()
    d = json.load(open(path))["replay"]
    c = d["case"]
    rej, idx, i = impl_rejects(prop, c)
    m = lib.model_run("loop", [model_case(c)])[0]
    print("outcomes impl/model:", i[0], m[0])
    print("monitor on implementation trace:", "REJECTED at %s" % idx if rej else "accepted")
    for l in pretty(i[1], idx):
        print("  ", l)
    same = project(prop, i) == project(prop, m)
    print("correspondence on %s projection: %s" % (prop, "equal" if same else "DIFFERENT"))
    return 1 if (rej or not same) else 0
