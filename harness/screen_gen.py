"""screen_gen.py — generator of screen-layer sessions (format: coq/theories/drv/Drv_screen.v)."""
import lib

KEYS = ["1", "2", "3"]
RETS = [[0], [1], [2], [3], [0], [1], [2]]


def spec(setup=(), refresh=(), show=(), closed=(), inputs=(), default=((), None), prompt_none=0, ireq=1, nosep=0,
         skip=0, pages=0, answer0=0, custom=None, setup_cmds=None):
    if setup_cmds is not None and custom is None:
        custom = []
    return [list(setup), list(refresh), list(show), list(closed), [[lib.cps(k), list(c), r] for k, c, r in inputs],
            [list(default[0]), [] if default[1] is None else [default[1]]], prompt_none, ireq, nosep, skip, pages, answer0] \
        + ([[list(c) for c in custom]] if custom is not None else []) + ([list(setup_cmds)] if setup_cmds is not None else [])


def gen_case(rng, plausible=True, malformed=False):
    n = rng.randrange(2, 6)
    specs = []
    quit_ = []
    for i in range(n):
        others = [x for x in range(n) if x != i]

        def stack_cmd():
            k = rng.random()
            t = rng.choice(others)
            a = rng.choice([0, 0, 7, 4])
            if k < 0.35:
                return [0, t, a]
            if k < 0.65:
                return [1, t, a]
            if k < 0.8:
                return [2, t, a]
            if k < 0.9:
                return [4]
            return [3, t, a]
        inputs = []
        for k in KEYS:
            if rng.random() < 0.75:
                cmds = []
                if rng.random() < 0.6:
                    cmds.append(stack_cmd())
                    ret = [0] if plausible else rng.choice(RETS)
                else:
                    ret = rng.choice(RETS + [[4, lib.cps(rng.choice(["c", "r", "q", "zz", ""]))], [5]])
                if rng.random() < 0.08:
                    cmds.append(rng.choice([[14, rng.randrange(9)], [11], [6], [7], [12, rng.randrange(2)]]))
                if rng.random() < 0.07:
                    cmds.append(rng.choice([[17, rng.randrange(n)], [18, rng.randrange(n)], [17, rng.choice(others)]]))
                if rng.random() < 0.06:
                    # the callback pumps the loop itself: process_signals() dispatches the most urgent pending batch right here
                    cmds.insert(rng.randrange(len(cmds) + 1), [24])
                if malformed and rng.random() < 0.03:
                    cmds.append([16])
                if malformed and rng.random() < 0.3:
                    cmds.append(rng.choice([[8], [9], [10], [5], [5], stack_cmd()]))
                inputs.append((k, cmds, ret))
        refresh, show, closed = [], [], []
        if rng.random() < 0.15:
            refresh.append([15, 1, [rng.choice([[1, rng.choice(others), 0], [4], [0, rng.choice(others), 0],
                                                [2, rng.choice(others), 0], [2, rng.choice(others), 3]])], []])
        if rng.random() < 0.08:
            show.append([15, 1, [rng.choice([[1, rng.choice(others), 0], [14, 5]])], []])
        if rng.random() < 0.15:
            # closed(): marks, a redraw request — or the closed screen puts ANOTHER screen on the stack (push / schedule)
            closed.append(rng.choice([[14, 3], [7], [14, 4], [0, rng.choice(others), 0], [3, rng.choice(others), 0], [14, 3]]))
        if malformed and rng.random() < 0.1:
            refresh.append(rng.choice([[15, 1, [[8]], []], [15, 2, [], [[9]]]]))
        setup = []
        if rng.random() < 0.12:
            setup = rng.choice([[0], [0, 1], [1, 0]])
        custom = None
        if rng.random() < 0.25:
            # the screen's own signals (SignalHandler.connect / create_signal / emit): callbacks connected on the first
            # refresh, signals emitted from input() / closed() / other callbacks
            def cb_cmds():
                return [rng.choice([[14, rng.randrange(20, 29)], [6], [7], [4], stack_cmd(), [23, rng.randrange(3), 0],
                                    [14, rng.randrange(20, 29)]]) for _ in range(rng.randrange(0, 3))]
            custom = [cb_cmds() for _ in range(rng.randrange(1, 4))]
            conn = [[22, rng.randrange(3), rng.randrange(len(custom) + 1)] for _ in range(rng.randrange(1, 4))]
            refresh.append([15, 1, conn, []])
            for _k, cmds, _r in inputs:
                if rng.random() < 0.5:
                    cmds.insert(rng.randrange(len(cmds) + 1), [23, rng.randrange(3), rng.choice([0, 0, 0, -5, 3])])
            if rng.random() < 0.3:
                closed.append([23, rng.randrange(3), 0])
        specs.append(spec(setup=setup, refresh=refresh, show=show, closed=closed, inputs=inputs, custom=custom,
                          default=([], None if rng.random() < 0.8 else rng.choice(RETS)),
                          prompt_none=1 if rng.random() < 0.05 else 0,
                          ireq=0 if rng.random() < 0.06 else 1,
                          nosep=1 if rng.random() < 0.1 else 0,
                          skip=1 if rng.random() < 0.15 else 0,
                          pages=rng.choice([0, 0, 0, 0, 0, 1, 2])))
    if rng.random() < 0.3:
        q = rng.randrange(n)
        quit_ = [q]
        # the quit dialog answers yes / no / has no answer
        qi = [("1", [[13, 1]], [2]), ("2", [[13, rng.choice([2, 3])]], [2])] if rng.random() < 0.8 else []
        specs[q] = spec(inputs=qi, answer0=rng.choice([0, 0, 3, 3, 1, 2]))
    first = rng.sample(range(n), rng.choice([1, 1, 2]))
    acts = [[0] + [[3, f, rng.choice([0, 5])] for f in first]]
    if malformed and rng.random() < 0.2:
        acts = [[0]]
    if malformed and rng.random() < 0.15:
        # replace_screen() with nothing scheduled: ScreenStackEmptyException out of the top-level call
        acts = [[0, [2, rng.randrange(n), 0]]] + (acts if rng.random() < 0.5 else [])
    acts.append([1])
    nl = rng.randrange(2, 16)
    typed = []
    for _ in range(nl):
        r = rng.random()
        if r < 0.6:
            typed.append([lib.cps(rng.choice(KEYS))])
        elif r < 0.75:
            typed.append([lib.cps("c")])
        elif r < 0.82:
            typed.append([lib.cps("r")])
        elif r < 0.88:
            typed.append([lib.cps("q")])
        elif r < 0.94:
            typed.append([lib.cps(rng.choice(["x", "zz", "", " 1"]))])
        else:
            typed.append([])
    return [3000, specs, typed, quit_, 1 if (malformed and rng.random() < 0.5) else 0, acts]


def L(s):
    return [lib.cps(s)]


def gen_input_case(rng):
    """Input-layer sessions: the user types ahead (op 19: a reader thread gets its line at once, its
    InputReceivedSignal is queued before the requesting callback goes on), overlapping check-bypassed requests
    (>= 3 in one callback), and the application's own, REUSED InputHandler objects (ops 20 ask / 21 wait)."""
    ta = rng.random() < 0.6                      # type-ahead on from the start
    skip = 1 if rng.random() < 0.8 else 0
    nh = rng.randrange(1, 4)

    def ask(h=None, s=None):
        return [20, rng.randrange(nh) if h is None else h, (1 if rng.random() < 0.85 else 0) if s is None else s]

    def wait(h=None):
        return [21, rng.randrange(nh) if h is None else h]

    def burst():
        k = rng.random()
        if k < 0.25:                             # three or more overlapping requests, then wait for one of them
            hs = [rng.randrange(nh) for _ in range(rng.randrange(3, 5))]
            return [ask(h, 1) for h in hs] + [wait(rng.choice(hs))] + ([wait(rng.choice(hs))] if rng.random() < 0.5 else [])
        if k < 0.45:                             # the same object asks, is answered, asks again and is superseded
            h, g = rng.sample(range(3), 2)
            return [ask(h, 1), wait(h), ask(h, 1), ask(g, 1), wait(h), wait(g)]
        if k < 0.6:
            return [ask(), [11], wait()]
        if k < 0.7:
            return [[11], [11]]
        if k < 0.8:
            return [ask(), [6], [7]]
        if k < 0.9:
            return [[19, rng.randrange(2)], ask(), ask(), wait()]
        return [wait(), ask(), wait(), wait()]
    s0 = spec(inputs=[("1", burst(), rng.choice([[0], [1]])), ("2", burst(), [1]), ("3", [[0, 1, 0]] + (burst() if rng.random() < 0.3 else []), [0])],
              refresh=[[15, rng.choice([1, 2]), burst(), []]] if rng.random() < 0.3 else [],
              show=[[15, rng.choice([1, 2]), [[6]] if rng.random() < 0.5 else burst(), []]] if rng.random() < 0.3 else [],
              skip=skip, pages=rng.choice([0, 0, 0, 1]))
    s1 = spec(inputs=[("1", burst(), [2]), ("2", [], [2])], skip=1 if rng.random() < 0.6 else 0,
              show=[[15, 1, [[11]], []]] if rng.random() < 0.2 else [])
    typed = [L(rng.choice(["1", "2", "3", "1", "2", "a", "", "c", "r"])) for _ in range(rng.randrange(4, 18))]
    if rng.random() < 0.2:
        typed.insert(rng.randrange(len(typed)), [])
    first = [0] + ([[19, 1]] if ta else []) + [[3, 0, 0]]
    if rng.random() < 0.25:
        first += burst()                         # requests issued before run()
    acts = [first, [1]]
    if rng.random() < 0.15:
        acts.append([0] + burst())
    return [3000, [s0, s1], typed, [], 0, acts]


def gen_focus_case(rng, prop):
    """Property-specific families of sessions."""
    if prop in ("C08", "C04", "C05") and rng.random() < 0.15:
        # the same screen object twice on the stack, ADJACENT, with equal arguments and modality; the upper entry
        # closes itself (or is replaced) from refresh(): the scheduler must notice that the top ENTRY changed although
        # the entry beneath looks the same
        a = rng.choice([0, 4])
        act = rng.choice([[5], [5], [4], [2, 1, a]])
        s0 = spec(refresh=[[15, 1, [act], []]], inputs=[("1", [[0, 0, a]], [0]), ("2", [], [2]), ("3", [[0, 1, 0]], [0])],
                  closed=[[14, 1]])
        s1 = spec(inputs=[("1", [], [2]), ("2", [[0, 0, a], [0, 0, a]], [0])])
        if prop == "C05" or rng.random() < 0.25:
            # ... the upper entry being a MODAL use of the same screen object with other arguments (a screen that shows itself
            # modally as a detail view), which closes itself from its first refresh()
            b = rng.choice([3, 7, a])
            k = rng.choice([1, 2])
            s0 = spec(refresh=[[15, k, [], [[15, k + 1, [act], []]]]],
                      inputs=[("1", [[1, 0, b]], [rng.choice([0, 1])]), ("2", [], [2]), ("3", [[1, 0, b], [1, 0, a]], [1])],
                      closed=[[14, 1]])
        typed = [L(rng.choice(["1", "2", "3", "c", "r"])) for _ in range(rng.randrange(2, 10))]
        first = [[3, 0, a], [0, 0, a]] if rng.random() < 0.7 else [[3, 0, a], [3, 0, a], [0, 0, a]]
        return [3000, [s0, s1], typed, [], 0, [[0] + first, [1]]]
    if prop == "C07":
        # rejection streaks on two interleaved screens, quit dialog with / without answer
        n = 3
        junk = ["x", "zz", "", "9"]
        s0 = spec(inputs=[("1", [[0, 1, 0]], [0]), ("2", [], [3]), ("3", [], [5])], default=([], None))
        s1 = spec(inputs=[("1", [], [2]), ("2", [], [3]), ("3", [], [1])], default=([], rng.choice([None, [3]])))
        qd = spec(inputs=[("1", [[13, 1]], [2]), ("2", [[13, rng.choice([2, 3])]], [2]), ("3", [], [2])])
        typed = []
        for _ in range(rng.randrange(1, 4)):
            typed += [L(rng.choice(junk + ["2", "3"])) for _ in range(rng.randrange(3, 13))]
            typed.append(L(rng.choice(["1", "r", "q", "c"])))
            if typed[-1] == L("q"):
                typed.append(L(rng.choice(["1", "2", "3"])))
        quit_ = [2] if rng.random() < 0.6 else []
        return [3000, [s0, s1, qd], typed, quit_, 0, [[0, [3, 0, 0]], [1]]]
    if prop == "C18" and rng.random() < 0.45:
        return gen_input_case(rng)
    if prop == "C18":
        # overlapping requests: a callback asks for input while the screen's own prompt is outstanding
        skip = 1 if rng.random() < 0.7 else 0
        many = rng.random() < 0.5
        s0 = spec(inputs=[("1", [[7], [7]] if many else [[11]], [1] if many else [0]),
                          ("2", [[7], [6], [7]] if many else [[11], [11]], [1]), ("3", [[0, 1, 0]], [0])],
                  refresh=[[15, rng.choice([0, 1, 2]), [[11]], []]] if rng.random() < 0.5 else [], skip=skip,
                  pages=rng.choice([0, 0, 1]))
        s1 = spec(inputs=[("1", [[11]], [2]), ("2", [], [2])], skip=1 if rng.random() < 0.5 else 0,
                  show=[[15, 1, [[11]], []]] if rng.random() < 0.3 else [])
        typed = [L(rng.choice(["1", "2", "3", "a", "", "c"])) for _ in range(rng.randrange(3, 14))]
        if rng.random() < 0.2:
            typed.insert(rng.randrange(len(typed)), [])
        return [3000, [s0, s1], typed, [], 0, [[0, [3, 0, 0]], [1]]]
    if prop == "C08":
        s0 = spec(inputs=[("1", [[0, 1, 0]], [0]), ("2", [[0, 2, 5]], [0]), ("3", [[1, 1, 0]], [0])])
        s1 = spec(setup=rng.choice([[0], [0, 1], [0, 0, 1], []]), inputs=[("1", [], [2]), ("2", [[2, 2, 0]], [0])],
                  refresh=[[15, 1, [[4]], []]] if rng.random() < 0.3 else [], closed=[[14, 1]])
        s2 = spec(setup=rng.choice([[], [], [0, 1]]), inputs=[("1", [], [2]), ("2", [[0, 1, 0]], [0])],
                  show=[[15, 1, [[4]], []]] if rng.random() < 0.3 else [], closed=[[14, 2]])
        typed = [L(rng.choice(["1", "2", "3", "c", "r"])) for _ in range(rng.randrange(4, 16))]
        return [3000, [s0, s1, s2], typed, [], 0, [[0, [3, 0, 0]] + ([[3, 2, 0]] if rng.random() < 0.4 else []), [1]]]
    if prop == "C05" and rng.random() < 0.2:
        # a modal screen opened ABOVE a screen whose prompt is still outstanding: the hub's input() asks for two
        # re-renders; the first draws the hub and issues its prompt, the second one's refresh() opens a modal screen
        # that asks for nothing (or asks itself).  The line typed for the hub's prompt arrives while the modal screen is
        # open: it must wait in the hub's level.
        quiet = rng.random() < 0.6
        hub = spec(inputs=[("1", [[6]], [1]), ("2", [], [2]), ("3", [[6], [6]], [0])],
                   refresh=[[15, 1, [], [[15, rng.choice([2, 2, 3]), [[1, 1, 0]], []]]]],
                   skip=1 if rng.random() < 0.5 else 0)
        dlg = spec(inputs=[("1", [], [2]), ("2", [[17, 0]], [2]), ("3", [], [0])], ireq=0 if quiet else 1,
                   skip=1 if rng.random() < 0.5 else 0)
        typed = [L(rng.choice(["1", "3"]))] + [L(rng.choice(["1", "2", "3", "x", "c"])) for _ in range(rng.randrange(1, 8))]
        return [3000, [hub, dlg], typed, [], 0, [[0, [3, 0, 0]], [1]]]
    if prop in ("C05", "C09", "C10") and rng.random() < 0.12:
        # a modal screen pumps the loop itself (App.get_event_loop().process_signals()) while its own close is pending and
        # the caller has a redraw queued: the pump must stop with the modal loop; the caller is redrawn only after the push returned
        hub = spec(inputs=[("1", [[6], [1, 1, 0]], [rng.choice([0, 1])]), ("2", [], [2]), ("3", [[24], [1, 1, 0]], [0])],
                   refresh=[[15, 1, [], [[15, 3, [[24]], []]]]] if rng.random() < 0.3 else [])
        dlg = spec(inputs=[("1", [[4], [24]], [0]), ("2", [[24], [4], [24]], [rng.choice([0, 2])]), ("3", [[6], [4], [24]], [0])],
                   closed=[[24]] if rng.random() < 0.3 else [], show=[[15, 2, [], [[24]]]] if rng.random() < 0.3 else [])
        typed = [L(rng.choice(["1", "1", "2", "3", "c", "r"])) for _ in range(rng.randrange(3, 12))]
        return [3000, [hub, dlg], typed, [], 0, [[0, [3, 0, 0]], [1]]]
    if prop in ("C05", "C02", "C03") and rng.random() < 0.15:
        # a dialog reports its result to its caller through a signal of the application and closes: the caller connected
        # a callback to the result class before opening the dialog; the signal's source is the DIALOG (registered in the
        # modal level): "nothing that was queued has been lost"
        prio = rng.choice([0, 0, -5, 3])
        hub_cb = [rng.choice([[14, 21], [6], [14, 22]])] + ([[23, 1, 0]] if rng.random() < 0.3 else [])
        hub = spec(refresh=[[15, 1, [[22, 0, 0], [22, 1, 1]], []]],
                   inputs=[("1", [[1, 1, 0]], [0]), ("2", [], [2]), ("3", [[23, 0, prio], [1, 1, 0]], [1])],
                   custom=[hub_cb, [[14, 23]]])
        dlg = spec(inputs=[("1", [[23, 0, prio]], [2]), ("2", [[4], [23, 0, prio]], [0]), ("3", [[23, 0, prio], [23, 1, 0]], [0])],
                   closed=[[23, 0, 0]] if rng.random() < 0.3 else [],
                   refresh=[[15, 1, [[22, 0, 0]], []]] if rng.random() < 0.3 else [], custom=[[[14, 24]]])
        typed = [L(rng.choice(["1", "1", "2", "3", "c", "r"])) for _ in range(rng.randrange(3, 12))]
        return [3000, [hub, dlg], typed, [], 0, [[0, [3, 0, 0]], [1]]]
    if prop == "C05":
        # modal pushed from input / refresh / show_all / another modal, depth up to 4
        n = 5
        specs = []
        for i in range(n):
            nxt = (i + 1) % n
            # "3": sometimes a signal sourced at this screen is emitted just before a modal push: it belongs to this
            # screen's level and must be held there until the modal screen is closed
            third = [rng.choice([[0, nxt, 0], [2, nxt, 0], [4]])] if rng.random() < 0.6 else [rng.choice([[6], [4]]), [1, nxt, 0]]
            r3 = [0]
            if rng.random() < 0.35:
                # the screen (a modal one, usually) emits a signal sourced at the screen BENEATH it — parent.redraw() /
                # parent.close() from a dialog — and perhaps closes itself in the same callback: the signal belongs to
                # the parent's level and must wait there until the modal frame has returned
                prv = (i - 1) % n
                third = [[rng.choice([17, 17, 18]), prv]] + rng.choice([[], [[4]], [[6]]])
                r3 = rng.choice([[0], [2], [0]])
            inputs = [("1", [[1, nxt, 0]], [0]), ("2", [], [2]), ("3", third, r3)]
            refresh = [[15, 1, [[1, nxt, 7]], []]] if rng.random() < 0.2 and i > 0 else []
            show = [[15, 1, [[1, nxt, 7]], []]] if rng.random() < 0.15 and i > 0 else []
            specs.append(spec(inputs=inputs, refresh=refresh, show=show, pages=rng.choice([0, 0, 0, 1])))
        typed = [L(rng.choice(["1", "1", "2", "3", "c", "r", "x"])) for _ in range(rng.randrange(4, 18))]
        return [3000, specs, typed, [], 0, [[0, [3, 0, 0]], [1]]]
    if prop == "C06" and rng.random() < 0.25:
        # a redraw of the asking screen is handled between the hand-off of its line (InputReceivedSignal, request stack cleared)
        # and the delivery (InputReadySignal): the user types ahead, refresh() emits one of the screen's own signals whose
        # callback asks for a redraw.  The re-drawn screen asks again (legal: no request is outstanding any more); the line
        # already handed off must still reach input().
        k = rng.randrange(1, 4)
        s0 = spec(refresh=[[15, 1, [[22, 0, 0]], []], [15, k, [[23, 0, rng.choice([0, 0, -3, 4])]], []]],
                  custom=[[rng.choice([[6], [7], [6]])]],
                  inputs=[("1", [], [0]), ("2", [[0, 1, 0]], [0]), ("3", [], [rng.choice([1, 2])])],
                  skip=1 if rng.random() < 0.3 else 0, default=([], rng.choice([None, [0], [3]])))
        s1 = spec(inputs=[("1", [], [2]), ("2", [], [0])], refresh=[[15, 1, [[22, 0, 0]], []]], custom=[[[14, 50]]])
        typed = [L(rng.choice(["1", "1", "2", "3", "x", "c", "hello"])) for _ in range(rng.randrange(2, 9))]
        return [3000, [s0, s1], typed, [], 0, [[0, [19, 1], [3, 0, rng.choice([0, 5])]], [1]]]
    if prop == "C06":
        n = 4
        specs = [spec(inputs=[("1", [[rng.choice([0, 1, 2]), (i + 1) % n, rng.choice([0, 3])]], [0]), ("2", [], [2]), ("3", [], [1])],
                      default=([], rng.choice([None, [0], [3]]))) for i in range(n)]
        typed = []
        for _ in range(rng.randrange(5, 20)):
            r = rng.random()
            typed.append([] if r < 0.05 else L(rng.choice(["1", "2", "3", "", " x ", "hello world", "c", "r", "é世"])))
        return [3000, specs, typed, [], 0, [[0, [3, 0, 4], [3, 1, 0]], [1]]]
    if prop == "C09":
        # the ways an application ends: last screen closed (plain or modal, also pushed from outside run() on an
        # empty stack), exit / force-quit from callbacks at some modal depth, the quit key with and without dialog,
        # run() on an empty stack with and without the configuration option
        n = 4
        specs = []
        for i in range(n):
            nxt = (i + 1) % n
            stop = rng.choice([[9], [10], [5], [4], [8]])
            specs.append(spec(inputs=[("1", [[1, nxt, 0]], [0]), ("2", [], [2]), ("3", [stop], rng.choice([[0], [2], [1]]))],
                              closed=[[14, i]] if rng.random() < 0.3 else [], refresh=[[15, 3, [], [stop]]] if rng.random() < 0.1 else []))
        typed = [L(rng.choice(["1", "1", "2", "2", "3", "c", "q", "x"])) for _ in range(rng.randrange(2, 14))]
        run_empty = 1 if rng.random() < 0.5 else 0
        first = rng.choice([[0, [3, 0, 0]], [0, [1, 0, 0]], [0, [1, 0, 0], [3, 1, 0]], [0], [0, [0, 1, 0]]])
        acts = [first, [1]] + ([[1]] if rng.random() < 0.3 else [])
        quit_ = [n - 1] if rng.random() < 0.3 else []
        return [3000, specs, typed, quit_, run_empty, acts]
    # C04 / C17: many stack operations from input
    n = 4
    specs = []
    for i in range(n):
        o = [x for x in range(n) if x != i]
        specs.append(spec(inputs=[("1", [[0, rng.choice(o), rng.choice([0, 2])]], [0]), ("2", [[2, rng.choice(o), 0]], [0]),
                                  ("3", [[rng.choice([1, 3]), rng.choice(o), 0]], [0])],
                          refresh=[[15, rng.choice([1, 2]), [[rng.choice([2, 2, 0]), rng.choice(o), 0]], []]] if rng.random() < 0.35 else [],
                          nosep=1 if rng.random() < 0.3 else 0))
    typed = [L(rng.choice(["1", "2", "3", "c", "c", "r"])) for _ in range(rng.randrange(4, 18))]
    return [3000, specs, typed, [], 0, [[0, [3, 0, 0]], [1]]]


def gen_setup_case(rng):
    """Sessions in which setup() itself does something before it reports its result (14-element specs): it pushes
    another screen (plainly or modally), schedules one, emits a signal, marks, raises, replaces or closes itself."""
    n = rng.randrange(2, 5)
    specs = []
    for i in range(n):
        others = [x for x in range(n) if x != i]

        def one():
            r = rng.random()
            t = rng.choice(others); a = rng.choice([0, 0, 6])
            if r < 0.30:
                return [0, t, a]                 # push_screen(other) from setup()
            if r < 0.45:
                return [1, t, a]                 # push_screen_modal(other)
            if r < 0.55:
                return [3, t, a]                 # schedule_screen(other)
            if r < 0.70:
                return [14, rng.randrange(30, 39)]
            if r < 0.76:
                return [6]                       # self.redraw() before the screen is a registered signal source
            if r < 0.80:
                return [23, rng.randrange(2), 0]
            if r < 0.84:
                return [2, t, a]                 # replace_screen(other): setup() removes its own entry
            if r < 0.87:
                return [5]                       # close_screen()
            if r < 0.90:
                return [4]                       # self.close()
            if r < 0.93:
                return [8]
            if r < 0.95:
                return [24]                      # process_signals() from setup()
            if r < 0.97:
                return [7]
            return [9]
        sc = None
        if rng.random() < 0.6:
            sc = [one() for _ in range(rng.randrange(1, 3))]
            if rng.random() < 0.5:
                sc = [[15, 1, sc, [] if rng.random() < 0.7 else [[14, 39]]]]      # only in the first setup() call
        r = rng.random()
        setup = [] if r < 0.7 else rng.choice([[0], [0, 1], [1, 0], [0, 0, 1]])
        inputs = [("1", [rng.choice([[0, rng.choice(others), 0], [1, rng.choice(others), 0], [14, 1]])], [0]),
                  ("2", [], rng.choice([[2], [1], [0]])), ("3", [[2, rng.choice(others), 0]], [0])]
        custom = [[[14, 40 + i]]] if rng.random() < 0.3 else None
        refresh = [[15, 1, [[22, 0, 0]], []]] if custom else []
        specs.append(spec(setup=setup, refresh=refresh, inputs=inputs, custom=custom, setup_cmds=sc,
                          pages=rng.choice([0, 0, 0, 1]), skip=1 if rng.random() < 0.1 else 0,
                          closed=[[14, 3]] if rng.random() < 0.2 else []))
    first = rng.sample(range(n), rng.choice([1, 2]))
    acts = [[0] + [[rng.choice([3, 3, 0]), f, rng.choice([0, 5])] for f in first], [1]]
    if rng.random() < 0.3:
        # the application handles ExceptionSignal itself (its callback asks for a redraw, or just notes the failure): a
        # setup() / refresh() that raises no longer ends the application; the screen whose setup() raised is set up again
        s0 = specs[0]
        while len(s0) < 14:
            s0.append([])
        s0[12] = [[rng.choice([[7], [7], [14, 60], [6]])]] + s0[12][1:]
        acts[0].insert(1, [22, 99, 0])
        k = rng.randrange(n)
        sk = specs[k]
        while len(sk) < 14:
            sk.append([])
        sk[13] = [[15, rng.choice([1, 1, 2]), [[14, 61], [8]], [[14, 62]]]] + sk[13]
    typed = [[lib.cps(rng.choice(["1", "2", "3", "c", "c", "r", "x", "q"]))] for _ in range(rng.randrange(2, 12))]
    return [3000, specs, typed, [], 0, acts]


def gen_adv_case(rng, with_error=False, with_password=False):
    """Sessions that use the REAL stock dialogs of render/adv_widgets.py (7th case element: kinds, see adv_specs.py):
    as quit dialog, pushed (modally) from an input handler, scheduled beneath / stacked; typed lines cover yes / no /
    other keys, accepted and rejected input of GetInputScreen conditions, global keys, the empty line, EOF."""
    import adv_specs
    words = ["yes", "no", "a", "bb", "1", "", "x", "q"]
    npl = rng.randrange(1, 4)
    kinds = ["plain"] * npl
    pool = ["yesno", "yesno", "help", "getinput", "getinput", "getpassinput"]
    if with_error:
        pool += ["error"]
    if with_password:
        pool += ["password", "password"]
    for _ in range(rng.randrange(1, 5)):
        k = rng.choice(pool)
        if k in ("getinput", "getpassinput"):
            conds = [[rng.randrange(2), rng.sample(words, rng.randrange(0, 4))] for _ in range(rng.choice([0, 1, 1, 2, 3]))]
            k = adv_specs.getinput_kind(conds, password=(k == "getpassinput"))
        kinds.append(k)
    n = len(kinds)
    dialogs = list(range(npl, n))
    specs = []
    for i in range(n):
        if kinds[i] != "plain":
            specs.append(adv_specs.adv_spec(kinds[i])); continue
        inputs = []
        for key in KEYS:
            t = rng.choice(dialogs) if rng.random() < 0.75 else rng.randrange(n)
            op = rng.choice([1, 1, 1, 0, 0, 2, 3])          # push modal / push / replace / schedule
            cmds = [[op, t, rng.choice([0, 0, 7])]]
            ret = [0]
            if op == 1:                                     # a modal push returns when the dialog is closed
                if rng.random() < 0.3:
                    cmds.append([rng.choice([1, 0]), rng.choice(dialogs), 0])      # then the next dialog
                else:
                    ret = rng.choice([[0], [1]])
            elif op == 3:
                ret = [1]                                   # schedule_screen does not redraw by itself
            elif rng.random() < 0.06:
                ret = [1]                                   # a second render signal: the second prompt is refused
            if rng.random() < 0.10:
                cmds, ret = [[10]], [4, lib.cps("q")]       # force_quit(), then the quit key: the quit dialog is not rendered
            inputs.append((key, cmds, ret))
        specs.append(spec(inputs=inputs, default=([], None if rng.random() < 0.85 else [3]),
                          closed=[[14, 3]] if rng.random() < 0.1 else [], pages=rng.choice([0, 0, 0, 1])))
    quit_ = []
    r = rng.random()
    if r < 0.65:
        yn = [d for d in dialogs if kinds[d] == "yesno"]
        quit_ = [rng.choice(yn)] if yn and rng.random() < 0.8 else [rng.choice(dialogs)]
    elif r < 0.75 and npl >= 2:
        quit_ = [npl - 1]                                   # a hand-written quit dialog
        specs[npl - 1] = spec(inputs=[("yes", [[13, 1]], [2]), ("no", [[13, rng.choice([2, 3])]], [2])])
    first = [0] + [rng.choice(dialogs) for _ in range(rng.choice([0, 0, 1, 2]))]
    if rng.random() < 0.3:
        rng.shuffle(first)
    acts = [[0] + [[3, f, rng.choice([0, 5])] for f in first], [1]]
    typed = []
    for _ in range(rng.randrange(3, 18)):
        r = rng.random()
        if r < 0.3:
            typed.append(L(rng.choice(KEYS)))
        elif r < 0.6:
            typed.append(L(rng.choice(["yes", "no"])))
        elif r < 0.68:
            typed.append(L("q"))
        elif r < 0.72:
            typed.append(L(rng.choice(["c", "r"])))
        elif r < 0.97:
            typed.append(L(rng.choice(words + ["YES", " yes", "zz"])))
        else:
            typed.append([])
    return [3000, specs, typed, quit_, 0, acts, kinds]
