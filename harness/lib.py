"""lib.py — shared machinery of every ./check: build, proof status, model runner, evidence, verdicts.

Everything that touches the implementation imports it from /repo's *current working tree*
(sys.path is forced, bytecode writing is off), so edits to /repo are seen by every run.
"""
import json, os, re, subprocess, sys, time, random, hashlib, pathlib

sys.dont_write_bytecode = True
VERIF = os.path.dirname(os.path.dirname(os.path.abspath(__file__)))   # the tree this file lives in (a snapshot under vp run, else /verif)
REPO = os.environ.get("VERIF_REPO", "/repo")   # VERIF_REPO: scratch copy for mutation self-tests only
PY = "/venv/bin/python"
WORK = os.path.join(VERIF, ".work")
os.makedirs(WORK, exist_ok=True)

# VERIF_EXTRA_PYTHONPATH: development only (line-coverage measurement of /repo under the harness, tools/coverage.sh)
ENV = dict(os.environ, PYTHONPATH=os.pathsep.join([REPO] + [x for x in [os.environ.get("VERIF_EXTRA_PYTHONPATH")] if x]),
           PYTHONHASHSEED="0", PYTHONDONTWRITEBYTECODE="1",
           SIMPLELINE_VERIF="1")


class Hang(BaseException):
    """The implementation did not come back from one call within the time limit (see time_limit)."""


import contextlib as _contextlib, signal as _signal, threading as _threading


@_contextlib.contextmanager
def time_limit(seconds):
    """Wall-clock limit for ONE in-process call into /repo (main thread only): a change that makes the library loop for ever
    on some input must end in a reported failure for that input, never in a check that hangs.  Raises Hang (a
    BaseException, so that no `except Exception` of the library swallows it)."""
    if _threading.current_thread() is not _threading.main_thread():
        yield
        return

    def on_alarm(signum, frame):
        raise Hang()
    old = _signal.signal(_signal.SIGALRM, on_alarm)
    _signal.setitimer(_signal.ITIMER_REAL, seconds)
    try:
        yield
    finally:
        _signal.setitimer(_signal.ITIMER_REAL, 0)
        _signal.signal(_signal.SIGALRM, old)


def stop_proc(p):
    """End a worker subprocess: kill it.  Development only (VERIF_GRACEFUL=1, line-coverage measurement): close its
    stdin first and give it a moment to end by itself so that its coverage data is written."""
    try:
        if os.environ.get("VERIF_GRACEFUL") and p.poll() is None:
            try:
                p.stdin.close(); p.wait(4)
            except Exception:
                pass
        if p.poll() is None:
            p.kill()
        p.wait(5)
    except Exception:
        pass


def use_repo():
    """Make `import simpleline` resolve to /repo's working tree in this process."""
    if REPO in sys.path:
        sys.path.remove(REPO)
    sys.path.insert(0, REPO)
    for m in list(sys.modules):
        if m == "simpleline" or m.startswith("simpleline."):
            del sys.modules[m]
    import simpleline
    assert simpleline.__file__.startswith(REPO + "/"), simpleline.__file__


# ------------------------------------------------------------------ wire format
def sx(o):
    if isinstance(o, bool):
        return "1" if o else "0"
    if isinstance(o, int):
        return str(o)
    if o is None:
        return "()"
    if isinstance(o, str):
        return "(" + " ".join(str(ord(c)) for c in o) + ")"
    return "(" + " ".join(sx(x) for x in o) + ")"


def unsx(t):
    t = t.split(";")[0]
    toks = t.replace("(", " ( ").replace(")", " ) ").split()
    pos = 0

    def item():
        nonlocal pos
        if toks[pos] == "(":
            pos += 1
            out = []
            while toks[pos] != ")":
                out.append(item())
            pos += 1
            return out
        v = int(toks[pos]); pos += 1
        return v
    r = item()
    return r


def cps(s):
    return [ord(c) for c in s]


def uncps(l):
    return "".join(chr(c) for c in l)


def opt(x, f=lambda v: v):
    """Python None / value -> wire option."""
    return [] if x is None else [f(x)]


class ModelError(Exception):
    pass


_SEEN = {}     # entry -> [(case text, result text)] : a few cases per entry, for the extraction cross-check


def _model_raw(entry, cases, timeout):
    data = "\n".join(sx(c) for c in cases) + "\n"
    return subprocess.run([os.path.join(VERIF, "bin/model"), entry], input=data, capture_output=True,
                          text=True, timeout=timeout, preexec_fn=_ulimit)


def _model_decode(entry, cases, p):
    if p.returncode != 0:
        raise ModelError("model runner failed: rc=%s %s" % (p.returncode, p.stderr[-500:]))
    lines = p.stdout.split("\n")
    if lines and lines[-1] == "":
        lines.pop()
    if len(lines) != len(cases):
        raise ModelError("model runner: %d results for %d cases" % (len(lines), len(cases)))
    seen = _SEEN.setdefault(entry, [])
    if len(seen) < 3:
        small = sorted(range(len(cases)), key=lambda k: len(lines[k]))[:max(0, 3 - len(seen))]
        for k in small:
            t = sx(cases[k])
            if len(t) < 4000 and len(lines[k]) < 20000:
                seen.append((t, lines[k]))
    out = []
    for i, l in enumerate(lines):
        if l.startswith("!") or l.strip() == "-999":
            raise ModelError("model rejected case %d (%s): %s" % (i, l, sx(cases[i])[:300]))
        out.append(unsx(l))
    return out


def model_run(entry, cases, timeout=240):
    """Run the extracted model on a list of wire cases; returns the list of decoded results."""
    if not cases:
        return []
    try:
        p = _model_raw(entry, cases, timeout)
    except subprocess.TimeoutExpired:
        # the extracted model does not answer in time: find the case (halving the batch and the time) so that the
        # failure names it; on the unchanged tree this never happens (the model's cost is linear in the case)
        if len(cases) == 1:
            raise ModelError("model runner: no answer within %ds on the case %s" % (timeout, sx(cases[0])[:600]))
        h = len(cases) // 2
        t2 = max(20, timeout // 2)
        return model_run(entry, cases[:h], t2) + model_run(entry, cases[h:], t2)
    return _model_decode(entry, cases, p)


def model_run_tolerant(entry, cases, timeout=90, floor=10):
    """Like model_run, but a case on which the model gives no answer in time yields None instead of aborting the
    run (the batch is halved, and the time with it, until the case is isolated).  On the unchanged tree the model
    answers every generated case in milliseconds; a None means the correspondence is broken on that case (the
    implementation finished a session on which the model, with fuel derived from the implementation's trace, does
    not)."""
    if not cases:
        return []
    try:
        p = _model_raw(entry, cases, timeout)
    except subprocess.TimeoutExpired:
        if len(cases) == 1:
            return [None]
        h = len(cases) // 2
        t2 = max(floor, timeout // 2)
        return model_run_tolerant(entry, cases[:h], t2, floor) + model_run_tolerant(entry, cases[h:], t2, floor)
    return _model_decode(entry, cases, p)


def _ulimit():
    import resource
    try:
        resource.setrlimit(resource.RLIMIT_STACK, (resource.RLIM_INFINITY, resource.RLIM_INFINITY))
    except Exception:
        try:
            resource.setrlimit(resource.RLIMIT_STACK, (1 << 30, 1 << 30))
        except Exception:
            pass


# ------------------------------------------------------------------ build + proof status
def build(gate=True, prop=None):
    t = time.time()
    args = ["--gate"] if gate else []
    if prop:
        args = ["--check", prop]        # this property's theorems and every driver must build
    if os.environ.get("VERIF_DEV") == "1" and prop:
        args = ["--for", prop]          # development only: include the work-in-progress files
    p = subprocess.run([os.path.join(VERIF, "tools/build.sh")] + args,
                       capture_output=True, text=True, timeout=3600)
    build.runner_ok = p.returncode in (0, 1) and "RUNNER OK" in p.stdout or p.returncode == 0
    return p.returncode == 0, p.stdout + p.stderr, time.time() - t


ALLOWED_AXIOMS = set()   # every property theorem must be "Closed under the global context"

# auxiliary theorem files a property's check also re-checks (tie of the model to things outside it)
AUX_PROPS = {
    "C01": ["Heapq", "Translated"],      # CPython's heapq refines the abstract queue; EventQueue put/get/routing translated
    "C02": ["Translated"], "C07": ["Translated", "Adv"], "C12": ["Translated"], "C14": ["Translated"],   # tools/translate.py ; stock dialogs
    "C03": ["Translated"], "C10": ["Translated"],                      # enqueue_signal routing ; ticket machine
    "C04": ["Translated"], "C05": ["Translated"], "C06": ["Translated"], "C08": ["Translated"], "C18": ["Translated"],   # screen stack, signal sites
    "C17": ["C17sep", "Translated"],     # the separator clause over whole sessions (screen-layer model); spacer / press-ENTER text
    "C09": ["C09s"],                     # the screen-level clauses of C09
}


def proof_status(prop):
    st = proof_status_one(prop)
    for aux in AUX_PROPS.get(prop, []):
        a = proof_status_one(aux)
        st["obligations"] += a["obligations"]; st["discharged"] += a["discharged"]
        st["theorems"] += ["%s.%s" % (aux, t) for t in a["theorems"]]
        st["axioms"].update({"%s.%s" % (aux, k): v for k, v in a["axioms"].items()})
        st["errors"] += ["%s: %s" % (aux, e) for e in a["errors"]]
    return st


def proof_status_one(prop):
    """Re-check props/<prop>.v with coqc (it only contains `exact lemma` proofs), parse Print Assumptions."""
    src = os.path.join(VERIF, "coq/theories/props", prop + ".v")
    st = dict(obligations=0, discharged=0, theorems=[], axioms={}, errors=[])
    if not os.path.exists(src):
        st["errors"].append("no props file")
        return st
    txt = re.sub(r"\(\*.*?\*\)", "", open(src).read(), flags=re.S)
    thms = re.findall(r"^\s*(?:Theorem|Corollary)\s+(\w+)", txt, flags=re.M)
    printed = re.findall(r"^\s*Print Assumptions\s+(\w+)\s*\.", txt, flags=re.M)
    st["obligations"] = len(thms)
    st["theorems"] = thms
    for t in thms:
        if t not in printed:
            st["errors"].append("theorem %s has no Print Assumptions" % t)
    for l in txt.splitlines():
        if re.search(r"\bProof\b", l) or re.search(r"\bQed\b", l):
            pass
    # statements must be closed by exact/reflexivity of lemmas proved elsewhere: no tactics scripts with admit
    if re.search(r"Admitted|\badmit\b|Axiom|Parameter|Conjecture", txt):
        st["errors"].append("forbidden construct in props file")
    odir = os.path.join(WORK, "props_%d" % os.getpid())
    os.makedirs(odir, exist_ok=True)
    out = os.path.join(odir, prop + ".vo")
    p = subprocess.run(["coqc", "-Q", "theories", "SL", "-o", out, "theories/props/%s.v" % prop],
                       cwd=os.path.join(VERIF, "coq"), capture_output=True, text=True, timeout=900)
    for f in (out, out[:-3] + ".glob"):
        try:
            os.remove(f)
        except OSError:
            pass
    try:
        os.rmdir(odir)
    except OSError:
        pass
    if p.returncode != 0:
        st["errors"].append("coqc failed: " + (p.stderr or p.stdout)[-800:])
        return st
    # parse the assumption reports in order
    blocks = re.split(r"(?m)^(?=Closed under the global context|Axioms:)", p.stdout)
    reports = [b for b in blocks if b.startswith("Closed under") or b.startswith("Axioms:")]
    if len(reports) != len(printed):
        st["errors"].append("expected %d assumption reports, got %d" % (len(printed), len(reports)))
    ok = 0
    for name, rep in zip(printed, reports):
        if rep.startswith("Closed under"):
            axs = []
        else:
            axs = re.findall(r"(?m)^(\S+)\s*:", rep[len("Axioms:"):])
        st["axioms"][name] = axs
        if all(a in ALLOWED_AXIOMS for a in axs):
            if name in thms:
                ok += 1
        else:
            st["errors"].append("theorem %s depends on %s" % (name, axs))
    st["discharged"] = ok if not st["errors"] else min(ok, st["obligations"] - 1)
    return st


TRUSTED_BASE = [
    "Coq 8.16.1 kernel (coqc; vm_compute only in Example/_refuted lemmas; no native_compute)",
    "axioms: none (every property theorem reports 'Closed under the global context')",
    "extraction: Require Extraction + ExtrOcamlBasic only (no Extract Constant, nat/N/Z/positive stay inductive), OCaml 4.13.1 ocamlopt",
    "ocaml/glue.ml (s-expression tokenizer/printer, int<->Z conversion)",
    "harness/*.py, checks/*.py (case generation, trace recording, comparison)",
    "tools/translate.py (fail-closed Python-AST -> Gallina translator for the answer table of InputManager._process_input, KeyPattern, prompt keys, signal priorities; its output is proved equal to the hand-written model in props/Translated.v on every build)",
    "extraction is cross-checked on every run: a few cases per driver are also evaluated inside Coq with vm_compute and compared with the OCaml runner's answers",
    "hand-written Gallina model tied to /repo by the correspondence run of this check",
    "CPython semantics of the constructs the model mirrors (int(), str.format, list slicing, textwrap chunking regex, queue.PriorityQueue locking, threading) are modelled, not verified; CPython's heapq is modelled line by line and PROVED to refine the abstract queue (props/Heapq.v), validated against the real heapq on every C01 run",
]


# ------------------------------------------------------------------ known findings
def known_findings():
    p = os.path.join(VERIF, "known_findings.json")
    if not os.path.exists(p):
        return []
    return json.load(open(p))["findings"]


# ------------------------------------------------------------------ check context
class Check:
    """Collects what a check explored and renders verdict + evidence.

    violation(key, what, replay_obj, failing_input_found)
      key: canonical fingerprint of the failing history (matched against known_findings.json)
    """

    def __init__(self, prop, tier, seed, rule):
        self.prop, self.tier, self.seed, self.rule = prop, tier, seed, rule
        self.t0 = time.time()
        self.evaluations = 0
        self.nontrivial = set()
        self.samples = []
        self.dist = {}
        self.violations = []
        self.known_hits = {}
        self.notes = []
        self.proof = None
        self.extra = {}
        self.rng = random.Random(seed)

    # --- bookkeeping
    def count(self, n=1):
        self.evaluations += n

    def nontriv(self, case):
        self.nontrivial.add(hashlib.md5(json.dumps(case, sort_keys=True, default=str).encode()).hexdigest())

    def sample(self, obj, limit=4):
        if len(self.samples) < limit:
            self.samples.append(obj)

    def hist(self, key, n=1):
        self.dist[key] = self.dist.get(key, 0) + n

    # --- verdicts
    def violation(self, key, what, replay, found=True):
        for f in known_findings():
            if f.get("property") == self.prop and f.get("status") == "known" and f.get("key") == key:
                self.known_hits[key] = f.get("what", what)
                return
        if len(self.violations) < 20:
            self.violations.append(dict(key=key, what=what, replay=replay, found=found))

    def finish(self):
        wall = time.time() - self.t0
        evdir = os.environ.get("VERIF_EVIDENCE_DIR", os.path.join(VERIF, "evidence"))   # overridden by tools/eval_seed.py only
        rpdir = os.environ.get("VERIF_REPLAY_DIR", os.path.join(VERIF, "replays"))
        os.makedirs(rpdir, exist_ok=True)
        os.makedirs(evdir, exist_ok=True)
        for key, what in sorted(self.known_hits.items()):
            print("KNOWN-FINDING: property=%s %s" % (self.prop, what))
        seen = set()
        for i, v in enumerate(self.violations):
            if v["key"] in seen:
                continue
            seen.add(v["key"])
            path = os.path.join(rpdir, "%s_%s_%d.json" % (self.prop, self.tier, len(seen)))
            json.dump(dict(property=self.prop, key=v["key"], what=v["what"], replay=v["replay"],
                           failing_input_found=v["found"], seed=self.seed), open(path, "w"), indent=1,
                      default=str)
            print("VIOLATION property=%s replay=%s%s" % (
                self.prop, path, "" if v["found"] else " no-failing-input-found"))
            print("  -> " + v["what"][:400])
        pr = self.proof or dict(obligations=0, discharged=0, theorems=[], axioms={}, errors=["not run"])
        cov = dict(
            obligations=pr["obligations"], discharged=pr["discharged"],
            checker_cmd="tools/build.sh --gate (coq_makefile + make, full .vo) ; coqc -Q theories SL theories/props/%s.v (Print Assumptions)" % self.prop,
            trusted_base=TRUSTED_BASE,
            theorems=pr["theorems"], axioms=pr["axioms"], proof_errors=pr["errors"],
            evaluations=self.evaluations, distinct_nontrivial=len(self.nontrivial),
            rule=self.rule, samples=self.samples or ["(none)"], distribution=self.dist,
            known_findings_seen=sorted(self.known_hits), notes=self.notes)
        cov.update(self.extra)
        ev = dict(property_id=self.prop, tier=self.tier, seed=self.seed, level="proof", coverage=cov,
                  assumptions=TRUSTED_BASE, wall_s=round(wall, 2), violations=len(seen))
        json.dump(ev, open(os.path.join(evdir, self.prop + ".json"), "w"), indent=1, default=str)
        print("%s %s: %d theorems (%d discharged), %d evaluations, %d distinct non-trivial, %d violations, %.1fs"
              % (self.prop, self.tier, pr["obligations"], pr["discharged"], self.evaluations,
                 len(self.nontrivial), len(seen), wall))
        return 1 if seen else 0


def standard_proof_gate(chk):
    """Build + proof status; on failure record a violation (no failing input found by this step)."""
    ok, log, dt = build(gate=True, prop=chk.prop)
    if not ok:
        chk.proof = dict(obligations=1, discharged=0, theorems=[], axioms={}, errors=["build failed"])
        chk.violation("build-failed", "a proof obligation of %s (or the development) no longer checks: %s" % (chk.prop, log[-600:]),
                      dict(kind="build", log=log[-3000:]), found=False)
        # the model runner is still there: go on and search for a concrete failing input with the correspondence
        return bool(getattr(build, "runner_ok", False))
    st = proof_status(chk.prop)
    chk.proof = st
    if st["errors"]:
        chk.violation("proof-broken", "proof obligations of %s no longer check: %s" % (chk.prop, st["errors"]),
                      dict(kind="proof", errors=st["errors"]), found=False)
        return False
    return True


def shrink_list(items, still_fails, max_steps=400):
    """Greedy delta-debugging of a list; still_fails(list)->bool."""
    items = list(items)
    n = 2
    steps = 0
    while len(items) >= 2 and steps < max_steps:
        chunk = max(1, len(items) // n)
        reduced = False
        for i in range(0, len(items), chunk):
            cand = items[:i] + items[i + chunk:]
            steps += 1
            if cand and still_fails(cand):
                items = cand
                n = max(n - 1, 2)
                reduced = True
                break
        if not reduced:
            if chunk == 1:
                break
            n = min(n * 2, len(items))
    return items


# ------------------------------------------------------------------ extraction cross-check
def _coq_term(o):
    if isinstance(o, list):
        return "L [" + "; ".join(_coq_term(x) for x in o) + "]"
    return "I (%d)%%Z" % o


def _parse_coq_sx(t):
    toks = re.findall(r"L|I|\[|\]|;|\(|\)|-?\d+|%Z", t)
    pos = 0

    def term():
        nonlocal pos
        if toks[pos] == "(":
            pos += 1; r = term()
            assert toks[pos] == ")"; pos += 1
            if pos < len(toks) and toks[pos] == "%Z":
                pos += 1
            return r
        if toks[pos] == "I":
            pos += 1
            return term()
        if toks[pos] == "L":
            pos += 1
            assert toks[pos] == "["; pos += 1
            out = []
            while toks[pos] != "]":
                out.append(term())
                if toks[pos] == ";":
                    pos += 1
            pos += 1
            return out
        v = int(toks[pos]); pos += 1
        if pos < len(toks) and toks[pos] == "%Z":
            pos += 1
        return v
    return term()


def extraction_crosscheck(chk):
    """Evaluate a few of this run's cases INSIDE Coq (vm_compute on the Gallina driver) and compare with what the
    extracted OCaml runner answered: guards against an extraction / glue bug."""
    n = 0
    for entry, pairs in sorted(_SEEN.items()):
        if not pairs:
            continue
        src = ["From Coq Require Import ZArith List.", "Import ListNotations.", "From SL Require Import Sx.",
               "From SL Require drv.Drv_%s." % entry, "Set Printing Width 1000000.", "Set Printing Depth 1000000."]
        for t, _ in pairs:
            src.append("Eval vm_compute in (Drv_%s.run (%s))." % (entry, _coq_term(unsx(t))))
        d = os.path.join(WORK, "xcheck_%d" % os.getpid())
        os.makedirs(d, exist_ok=True)
        f = os.path.join(d, "X_%s.v" % entry)
        open(f, "w").write("\n".join(src) + "\n")
        p = subprocess.run(["coqc", "-Q", os.path.join(VERIF, "coq/theories"), "SL", f], capture_output=True, text=True, timeout=900)
        outs = re.findall(r"=\s*(.*?)\n\s*:\s*sx", p.stdout, flags=re.S)
        for g in os.listdir(d):
            os.remove(os.path.join(d, g))
        os.rmdir(d)
        if p.returncode != 0 or len(outs) != len(pairs):
            chk.violation("extraction-crosscheck", "could not evaluate entry %s inside Coq: %s" % (entry, (p.stderr or p.stdout)[-300:]),
                          dict(kind="xcheck", entry=entry), found=False)
            continue
        for (t, r), o in zip(pairs, outs):
            n += 1
            if _parse_coq_sx(o) != unsx(r):
                chk.violation("extraction-crosscheck", "the extracted runner and vm_compute disagree on entry %s" % entry,
                              dict(kind="xcheck", entry=entry, case=t, ocaml=r, coq=o[:2000]), found=False)
    chk.extra["extraction_crosscheck_cases"] = n
