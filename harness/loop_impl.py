"""loop_impl.py — run an event-loop case (see coq/theories/drv/Drv_loop.v for the format) on the real
MainLoop imported from /repo and produce the same result structure as the model.

Observation only through public seams and instance-level replacement:
  * a MainLoop subclass wrapping the public methods (log + super()),
  * an EventQueue subclass (patched into main_loop.EventQueue the way the test-suite uses mock.patch)
    whose PriorityQueue logs put/get and, instead of blocking on an empty queue, delivers the next
    scripted external submission or raises WouldBlock (a BaseException),
  * handler closures interpreting the command lists.
"""
import io, sys, contextlib, queue as _queue

EXC = {"exit": 1, "error": 2, "sysexit": 3}


class WouldBlock(BaseException):
    pass


class StepLimit(BaseException):
    pass


STEP_LIMIT = 400


def run_case(case, backend="main"):
    import simpleline
    from simpleline import App
    from simpleline.event_loop import AbstractSignal, ExitMainLoop
    from simpleline.event_loop import main_loop as ML
    from simpleline.event_loop import event_queue as EQ
    from simpleline.event_loop.signals import ExceptionSignal

    fuel, bodies, actions = case[:3]
    log = []
    st = dict(nsig=0, nq=0, lastget=None, loop=None)
    ext = []                    # pending external submissions (cls, prio, src)
    sid_of = {}                 # id(signal) -> sid  (signals are kept alive in `keep`)
    keep = []
    classes = {}
    counts = {}

    def cls_of(k):
        if k == 0:
            return ExceptionSignal
        if k not in classes:
            # even-numbered classes derive from the class below them: delivery and waiting go by the EXACT class
            base = cls_of(k - 1) if (k % 2 == 0 and k >= 2) else AbstractSignal
            # ... and carry the SAME __name__ as that class (two distinct classes, one name)
            # ... every class k with k % 3 == 0 is FALSY (a signal carrying an empty batch: __len__() == 0)
            body = {"__len__": (lambda self: 0)} if k % 3 == 0 else {}
            classes[k] = type("Sig%d" % (k - 1 if (k % 2 == 0 and k >= 2) else k), (base,), body)
        return classes[k]

    srcs = {}

    class ValSrc:
        """A source with VALUE equality (like a tuple or a frozen dataclass): every use is a fresh, equal object;
        registration and routing go by ==/hash (set membership), not by identity."""
        def __init__(self, n):
            self.n = n

        def __eq__(self, other):
            return isinstance(other, ValSrc) and other.n == self.n

        def __hash__(self):
            return hash(("ValSrc", self.n))

    def src_of(o):
        if o is None:
            return None
        if o % 3 == 0:
            return ValSrc(o)
        if o not in srcs:
            # every other source object is "falsy" (an empty container-like object): routing must go by identity
            body = {"__len__": (lambda self: 0)} if o % 2 == 0 else {}
            srcs[o] = type("Src%d" % o, (), body)()
        return srcs[o]

    def new_signal(k, prio, src):
        c = cls_of(k)
        if k == 0:
            sg = ExceptionSignal(src_of(src), exception_info=(None, None, None))
            sg._priority = prio
        else:
            sg = c(src_of(src), prio)
        register(sg)
        return sg

    def cls_id(sg):
        if type(sg) is ExceptionSignal:
            return 0
        for k, v in classes.items():
            if v is type(sg):
                return k
        return 999

    def src_id(o):
        if isinstance(o, ValSrc):
            return [o.n]
        for k, v in srcs.items():
            if v is o:
                return [k]
        return []

    def register(sg):
        if id(sg) not in sid_of:
            sid_of[id(sg)] = st["nsig"]
            st["nsig"] += 1
            keep.append(sg)
            log.append([20, sid_of[id(sg)], cls_id(sg), sg.priority, src_id(sg.source)])   # ESigNew
        return sid_of[id(sg)]

    def sig_of_entry(e):
        return e[-1] if isinstance(e, tuple) else e

    class LoggedPQ(_queue.PriorityQueue):
        def __init__(self, qid):
            super().__init__()
            self.qid = qid
            self.seen = set()

        def put(self, item, block=True, timeout=None):
            sg = sig_of_entry(item)
            sid = register(sg)
            key = id(item) if isinstance(item, tuple) else None
            if key is not None and key in self.seen:
                log.append([3, sid, self.qid])           # ERequeue: the same entry goes back
            elif key is None and sid in self.seen:
                log.append([3, sid, self.qid])
            else:
                log.append([0, sid, self.qid])           # EEnq
            self.seen.add(key if key is not None else sid)
            keep.append(item)
            super().put(item, block, timeout)

        def get(self, block=True, timeout=None):
            while self.empty():
                if not ext:
                    raise WouldBlock()
                k, prio, src = ext.pop(0)
                sg = new_signal(k, prio, src)
                log.append([17, sid_of[id(sg)]])        # EExt
                st["loop"].enqueue_signal(sg)
            item = super().get(block, timeout)
            st["lastget"] = (sid_of[id(sig_of_entry(item))], self.qid)
            return item

    class LoggedEQ(EQ.EventQueue):
        def __init__(self):
            super().__init__()
            self.qid = st["nq"]
            st["nq"] += 1
            self._queue = LoggedPQ(self.qid)
            allq.append(self)

    allq = []

    class LoggedList(list):
        def pop(self, *a):
            q = super().pop(*a)
            log.append([9, q.qid])                       # EClosePop
            return q

    class Loop(ML.MainLoop):
        def __init__(self):
            super().__init__()
            self._event_queues = LoggedList(self._event_queues)

        def enqueue_signal(self, signal):
            sid = register(signal)
            if self._force_quit:
                log.append([1, sid])                     # EDropped
            return super().enqueue_signal(signal)

        def _process_signal(self, signal):
            sid, qid = st["lastget"]
            log.append([2, sid, qid, len(self._event_queues)])   # EDispatch
            super()._process_signal(signal)
            log.append([6, sid])                         # EDispatchEnd

        def execute_new_loop(self, signal):
            register(signal)
            if self._force_quit:
                return super().execute_new_loop(signal)
            q = st["nq"]
            log.append([7, q])                           # ENewLoopEnter
            super().execute_new_loop(signal)
            log.append([8, q])                           # ENewLoopReturn

        def process_signals(self, return_after=None):
            if return_after is None:
                log.append([10, [], 0])
                super().process_signals()
                log.append([11, [], 0])
                return
            t = self._processed_signals._counter
            k = [c for c, v in list(classes.items()) + [(0, ExceptionSignal)] if v is return_after][0]
            log.append([10, [k], t])
            super().process_signals(return_after)
            log.append([11, [k], t])

        def force_quit(self):
            super().force_quit()
            log.append([12])

        def run(self):
            log.append([14])
            super().run()
            log.append([15])

        def kill_app_with_traceback(self, exception_signal, data=None):
            log.append([16])
            super().kill_app_with_traceback(exception_signal, data)

    def do_cmds(cmds, hid, count, current=None):
        loop = st["loop"]
        for c in cmds:
            op = c[0]
            if op == 13:
                # re-arm: the handler enqueues the very signal OBJECT it is handling.  For the model (and for the
                # property) that is one more signal of the same class, priority and source: it gets a fresh id here
                sid_of.pop(id(current), None)
                register(current)
                loop.enqueue_signal(current)
                continue
            if op == 0:
                loop.enqueue_signal(new_signal(c[1], c[2], c[3][0] if c[3] else None))
            elif op == 1:
                # an ordinary exception: alternately a plain one and one of the library's own (not ExitMainLoop)
                if (hid or 0) % 2:
                    from simpleline.render.screen_stack import ScreenStackEmptyException
                    raise ScreenStackEmptyException("scripted")
                raise RuntimeError("scripted")
            elif op == 2:
                raise ExitMainLoop()
            elif op == 3:
                loop.force_quit()
            elif op == 4:
                loop.execute_new_loop(new_signal(c[1], c[2], c[3][0] if c[3] else None))
            elif op == 5:
                loop.close_loop()
            elif op == 6:
                loop.process_signals(cls_of(c[1][0]) if c[1] else None)
            elif op == 7:
                loop.register_signal_source(src_of(c[1]))
                log.append([22, c[1], loop._active_queue.qid])
            elif op == 8:
                loop.register_signal_handler(cls_of(c[1]), handler_for(c[2]), c[3])
                log.append([21, c[1], c[2], c[3]])
            elif op == 9:
                do_cmds(c[2] if count < c[1] else c[3], hid, count, current)
            elif op == 10:
                log.append([18, c[1]])
            elif op == 11:
                ext.append((c[1], c[2], c[3][0] if c[3] else None))
            elif op == 12:
                if c[1] % 2 == 0:
                    # every other quit callback is a callable object whose truth value is False (a callable collection of
                    # hooks that is currently empty): registered is registered
                    class Hooks:
                        def __len__(self):
                            return 0

                        def __call__(self, a):
                            log.append([13, a])
                    loop.set_quit_callback(Hooks(), c[1])
                else:
                    loop.set_quit_callback(lambda a: log.append([13, a]), c[1])
                log.append([23, c[1]])
            else:
                raise AssertionError(op)

    hcache = {}

    def handler_for(hid):
        if hid in hcache:
            return hcache[hid]

        def h(signal, data):
            sid = sid_of[id(signal)]
            count = counts.get(hid, 0)
            counts[hid] = count + 1
            log.append([4, hid, sid, data])
            st["steps"] = st.get("steps", 0) + 1
            if st["steps"] > STEP_LIMIT:
                raise StepLimit()
            try:
                do_cmds(bodies[hid] if hid < len(bodies) else [], hid, count, signal)
            except (WouldBlock, StepLimit):
                raise
            except ExitMainLoop:
                log.append([5, hid, sid, [1]]); raise
            except SystemExit:
                log.append([5, hid, sid, [3]]); raise
            except Exception:
                log.append([5, hid, sid, [2]]); raise
            log.append([5, hid, sid, []])
            # handlers are procedures: what one returns is nobody's business (every other one returns something truthy)
            return ("handled", hid) if hid % 2 else None
        # every third handler is a callable WITHOUT __name__ / __qualname__ (functools.partial, like an application that binds
        # arguments): the loop must treat any callable alike
        if hid % 3 == 2:
            import functools
            h = functools.partial(h)
        if hid % 3 == 1:
            # every third handler is a BOUND METHOD of an object that nothing else refers to (an application registering
            # `Helper(...).on_signal`): the registration itself must keep the callback alive.  A fresh object per registration.
            class Helper:
                def on_signal(self, signal, data, _h=h):
                    return _h(signal, data)
            return Helper().on_signal
        hcache[hid] = h
        return h

    ML_EQ = ML.EventQueue
    ML.EventQueue = LoggedEQ
    out = io.StringIO()
    outcomes = []
    old_hook = sys.excepthook
    try:
        with contextlib.redirect_stdout(out), contextlib.redirect_stderr(out):
            sys.excepthook = lambda *a: None
            loop = Loop()
            st["loop"] = loop
            App.initialize(event_loop=loop)
            # the framework's own handlers registered by App.initialize are for its own signal classes only
            for a in actions:
                log.append([24])                         # ETop
                try:
                    if a[0] == 0:
                        do_cmds(a[1:], None, 0)
                    else:
                        loop.run()
                    outcomes.append(0)
                except WouldBlock:
                    outcomes.append(4); break
                except StepLimit:
                    outcomes.append(5); break
                except ExitMainLoop:
                    outcomes.append(1)
                except SystemExit:
                    outcomes.append(3); break
                except Exception:
                    outcomes.append(2)
    finally:
        ML.EventQueue = ML_EQ
        sys.excepthook = old_hook
    pend = []
    for q in allq:
        items = sorted(q._queue.queue)
        pend.append([q.qid, [sid_of[id(sig_of_entry(e))] for e in items]])
    levels = [q.qid for q in loop._event_queues]
    return [outcomes, log, pend, levels, loop._active_queue.qid]
