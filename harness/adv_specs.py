"""adv_specs.py — the Python copy of coq/theories/AdvWidgets.v: the wire spec (format: drv/Drv_screen.v) that
describes each stock dialog of simpleline/render/adv_widgets.py.

The Gallina definitions are the single source of truth: `check_against_gallina()` asks the extracted
drv/Drv_advspec.v (bin/model advspec) for every kind used and compares.

kind (a string, element of the optional 7th component `kinds` of a screen session case):
    "plain"                    the scripted screen class S of screen_worker.py interprets the wire spec
    "yesno"                    YesNoDialog("...")
    "error"                    ErrorDialog("...")
    "help"                     HelpScreen(None)
    "getinput:<conds>"         GetInputScreen("...") + add_acceptance_condition per cond
    "getpassinput:<conds>"     GetPasswordInputScreen("...") likewise (getpass -> the scripted reader)
    "password"                 PasswordDialog()      (getpass -> the scripted reader)
<conds> = JSON list of [1, [key, ...]] (the key is one of) | [0, [key, ...]] (the key is none of)
"""
import json
import lib

cps = lib.cps
A_NOATTR, A_TRUE, A_OTHER = 0, 1, 2
R_PROCESSED, R_REDRAW, R_CLOSE, R_DISCARDED, R_NONE = [0], [1], [2], [3], [5]


def parse_kind(kind):
    """-> (name, conds)"""
    if ":" in kind:
        name, rest = kind.split(":", 1)
        return name, json.loads(rest)
    return kind, []


def getinput_kind(conds, password=False):
    return ("getpassinput:" if password else "getinput:") + json.dumps(conds, separators=(",", ":"))


def kind_wire(kind):
    """The case of bin/model advspec."""
    name, conds = parse_kind(kind)
    wc = [[c[0], [cps(k) for k in c[1]]] for c in conds]
    return [{"yesno": [0], "error": [1], "help": [2], "getinput": [3, wc], "getpassinput": [4, wc], "password": [5]}[name]]


def _spec(refresh=(), show=(), inputs=(), default=((), None), prompt_none=0, answer0=A_NOATTR):
    """12th element: sc_answer0, the `answer` attribute before any callback (as Drv_advspec prints it: 0 | 1 | 2)."""
    return [[], list(refresh), list(show), [], [[cps(k), list(c), r] for k, c, r in inputs],
            [list(default[0]), [] if default[1] is None else [default[1]]], prompt_none, 1, 0, 0, 0, answer0]


def test_input(conds, key):
    return all((key in c[1]) if c[0] == 1 else (key not in c[1]) for c in conds)


def accept_ret(b):
    return R_CLOSE if b else R_DISCARDED


def get_input_screen_spec(conds):
    keys = [k for c in conds for k in c[1]]
    return _spec(inputs=[(k, [], accept_ret(test_input(conds, k))) for k in keys],
                 default=([], accept_ret(all(c[0] == 0 for c in conds))))


def adv_spec(kind):
    name, conds = parse_kind(kind)
    if name == "yesno":
        return _spec(inputs=[("yes", [[13, A_TRUE]], R_CLOSE), ("no", [[13, A_OTHER]], R_CLOSE)],
                     default=([], R_DISCARDED), answer0=A_OTHER)
    if name == "error":
        return _spec(default=([[16]], R_NONE))          # sys.exit(1)
    if name == "help":
        return _spec(default=([], R_CLOSE))
    if name in ("getinput", "getpassinput"):
        return get_input_screen_spec(conds)
    if name == "password":
        return _spec(show=[[11], [4]], inputs=[("", [], R_DISCARDED)],
                     default=([[13, A_OTHER]], R_CLOSE), prompt_none=1, answer0=A_OTHER)
    raise ValueError(kind)


def check_against_gallina(kinds):
    """-> list of (kind, python spec, gallina spec) that differ."""
    kinds = sorted(set(kinds))
    res = lib.model_run("advspec", [kind_wire(k) for k in kinds])
    return [(k, adv_spec(k), g) for k, g in zip(kinds, res) if adv_spec(k) != g]
