"""Stand-in for PyGObject's `gi` package: only what simpleline/event_loop/glib_event_loop.py needs.
The GLib module (gi.repository.GLib) is a ctypes binding of the REAL libglib-2.0.so.0.
This directory is put on sys.path only inside the worker subprocess that runs GLib cases."""
__version__ = "0-verif-shim"
_required = {}


def require_version(namespace, version):
    if namespace != "GLib" or version != "2.0":
        raise ValueError("Namespace %s not available for version %s" % (namespace, version))
    _required[namespace] = version


def require_versions(d):
    for k, v in d.items():
        require_version(k, v)
