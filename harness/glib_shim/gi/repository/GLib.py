"""gi.repository.GLib stand-in — a ctypes binding of the real libglib-2.0 presenting the PyGObject surface
used by simpleline/event_loop/glib_event_loop.py:

    GLib.MainLoop(context=None)   .run() .quit() .get_context() .is_running()
    GLib.MainContext()            .iteration(may_block=True) .pending()      GLib.MainContext.default()
    GLib.idle_source_new() -> Source   .set_priority(p) .get_priority() .set_callback(func, data) .attach(ctx)
                                       .destroy() .is_destroyed()
    GLib.PRIORITY_* constants

Callback protocol (as PyGObject's closure marshalling, as far as needed):
  * the callback is called as func(data) (func() when no data was given); its truth value is the
    G_SOURCE_CONTINUE / G_SOURCE_REMOVE answer;
  * an ordinary Exception escaping the callback is printed to stderr and the answer is FALSE (source removed);
  * a BaseException that is not an Exception (SystemExit — PyGObject's PyErr_Print would terminate the
    process —, KeyboardInterrupt, the harness's WouldBlock/StepLimit) is captured in the trampoline, every
    running MainLoop is quit, no further Python callback is entered (the trampoline answers CONTINUE
    without calling), and the exception is re-raised in Python as soon as the innermost
    MainLoop.run() / MainContext.iteration() returns.
Every CFUNCTYPE object is kept alive for as long as its source exists.
"""
import ctypes, sys, traceback

_lib = ctypes.CDLL("libglib-2.0.so.0")
_P = ctypes.c_void_p
_gboolean = ctypes.c_int


def _fn(name, res, *args):
    f = getattr(_lib, name)
    f.restype = res
    f.argtypes = list(args)
    return f


_g_main_context_new = _fn("g_main_context_new", _P)
_g_main_context_default = _fn("g_main_context_default", _P)
_g_main_context_ref = _fn("g_main_context_ref", _P, _P)
_g_main_context_unref = _fn("g_main_context_unref", None, _P)
_g_main_context_iteration = _fn("g_main_context_iteration", _gboolean, _P, _gboolean)
_g_main_context_pending = _fn("g_main_context_pending", _gboolean, _P)
_g_main_loop_new = _fn("g_main_loop_new", _P, _P, _gboolean)
_g_main_loop_run = _fn("g_main_loop_run", None, _P)
_g_main_loop_quit = _fn("g_main_loop_quit", None, _P)
_g_main_loop_unref = _fn("g_main_loop_unref", None, _P)
_g_main_loop_is_running = _fn("g_main_loop_is_running", _gboolean, _P)
_g_main_loop_get_context = _fn("g_main_loop_get_context", _P, _P)
_g_idle_source_new = _fn("g_idle_source_new", _P)
_g_source_set_priority = _fn("g_source_set_priority", None, _P, ctypes.c_int)
_g_source_get_priority = _fn("g_source_get_priority", ctypes.c_int, _P)
_GSourceFunc = ctypes.CFUNCTYPE(_gboolean, _P)
_g_source_set_callback = _fn("g_source_set_callback", None, _P, _GSourceFunc, _P, _P)
_g_source_attach = _fn("g_source_attach", ctypes.c_uint, _P, _P)
_g_source_destroy = _fn("g_source_destroy", None, _P)
_g_source_is_destroyed = _fn("g_source_is_destroyed", _gboolean, _P)
_g_source_unref = _fn("g_source_unref", None, _P)
_g_source_get_id = _fn("g_source_get_id", ctypes.c_uint, _P)

glib_version = (ctypes.c_uint.in_dll(_lib, "glib_major_version").value,
                ctypes.c_uint.in_dll(_lib, "glib_minor_version").value,
                ctypes.c_uint.in_dll(_lib, "glib_micro_version").value)
MAJOR_VERSION, MINOR_VERSION, MICRO_VERSION = glib_version

PRIORITY_HIGH = -100
PRIORITY_DEFAULT = 0
PRIORITY_HIGH_IDLE = 100
PRIORITY_DEFAULT_IDLE = 200
PRIORITY_LOW = 300
SOURCE_CONTINUE = True
SOURCE_REMOVE = False

# ---------------------------------------------------------------- abort protocol
_pending_exc = [None]          # a captured BaseException waiting to be re-raised
_running_loops = []            # MainLoop objects inside run(), outermost first
_live_sources = {}             # id(Source) -> Source, from set_callback/attach until destroyed & dispatched


def _reraise_pending():
    e = _pending_exc[0]
    if e is not None:
        _pending_exc[0] = None
        raise e


class MainContext(object):
    _by_ptr = {}

    def __init__(self, _ptr=None):
        if _ptr is None:
            self._ptr = _g_main_context_new()
            self._owned = True
        else:
            self._ptr = _ptr
            self._owned = False
        MainContext._by_ptr[self._ptr] = self

    @classmethod
    def default(cls):
        return cls._wrap(_g_main_context_default())

    @classmethod
    def _wrap(cls, ptr):
        c = cls._by_ptr.get(ptr)
        if c is None:
            c = cls(_ptr=ptr)
        return c

    def iteration(self, may_block=True):
        r = bool(_g_main_context_iteration(self._ptr, 1 if may_block else 0))
        _reraise_pending()
        return r

    def pending(self):
        return bool(_g_main_context_pending(self._ptr))

    def __del__(self):
        try:
            if self._owned and self._ptr and MainContext._by_ptr.get(self._ptr) is not self:
                _g_main_context_unref(self._ptr)
        except Exception:
            pass


def main_context_default():
    return MainContext.default()


class MainLoop(object):
    def __init__(self, context=None):
        self._context = context if context is not None else MainContext.default()
        # PyGObject: g_main_loop_new(context, FALSE)
        self._ptr = _g_main_loop_new(self._context._ptr, 0)

    @classmethod
    def new(cls, context, is_running):
        return cls(context)

    def run(self):
        _running_loops.append(self)
        try:
            _g_main_loop_run(self._ptr)
        finally:
            _running_loops.remove(self)
        _reraise_pending()

    def quit(self):
        _g_main_loop_quit(self._ptr)

    def is_running(self):
        return bool(_g_main_loop_is_running(self._ptr))

    def get_context(self):
        return self._context

    def __del__(self):
        try:
            _g_main_loop_unref(self._ptr)
        except Exception:
            pass


class Source(object):
    def __init__(self, _ptr):
        self._ptr = _ptr            # we own one reference
        self._cfunc = None
        self._func = None
        self._data = ()
        self._context = None

    def set_priority(self, priority):
        _g_source_set_priority(self._ptr, int(priority))

    def get_priority(self):
        return _g_source_get_priority(self._ptr)

    priority = property(get_priority, set_priority)

    def set_callback(self, func, *data):
        self._func = func
        self._data = data
        me = self

        def trampoline(_user_data):
            if _pending_exc[0] is not None:
                return 1                       # aborting: enter no Python code, leave the source alone
            try:
                r = me._func(*me._data)
                return 1 if r else 0
            except Exception:                  # PyGObject: PyErr_Print(), the answer is FALSE
                traceback.print_exc(file=sys.stderr)
                return 0
            except BaseException as e:         # SystemExit & co: stop everything, re-raise outside
                _pending_exc[0] = e
                for l in list(_running_loops):
                    l.quit()
                return 1
        self._cfunc = _GSourceFunc(trampoline)
        _live_sources[id(self)] = self         # keeps the CFUNCTYPE object (and the closure) alive
        _g_source_set_callback(self._ptr, self._cfunc, None, None)

    def attach(self, context=None):
        ctx = context if context is not None else MainContext.default()
        self._context = ctx
        _live_sources[id(self)] = self
        return _g_source_attach(self._ptr, ctx._ptr)

    def destroy(self):
        _g_source_destroy(self._ptr)

    def is_destroyed(self):
        return bool(_g_source_is_destroyed(self._ptr))

    def get_id(self):
        return _g_source_get_id(self._ptr)

    def get_context(self):
        return self._context


def idle_source_new():
    return Source(_g_idle_source_new())


Idle = idle_source_new


def _forget_dead_sources():
    """Drop the keep-alive entries of destroyed sources (call only when no dispatch is in progress)."""
    for k, s in list(_live_sources.items()):
        if s.is_destroyed():
            del _live_sources[k]
