"""gi.repository stand-in: GLib only (ctypes binding of the real library)."""
