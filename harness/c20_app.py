"""c20_app.py — application sessions (format: coq/theories/drv/Drv_screen.v) on the real App with GLibEventLoop over the
real libglib: a pool of harness/screen_worker.py subprocesses started with VERIF_SCREEN_LOOP=glib (the worker puts the
ctypes stand-in for PyGObject on its own sys.path).  Same result format as screen_impl.run_cases."""
import json, os, subprocess, threading
import lib, screen_impl


class GWorker(screen_impl.Worker):
    def __init__(self, case_timeout=None):
        env = dict(lib.ENV, VERIF_SCREEN_LOOP="glib")
        if case_timeout:
            env["VERIF_CASE_TIMEOUT"] = str(case_timeout)
        self.case_timeout = case_timeout or 8
        self.p = subprocess.Popen([lib.PY, screen_impl.WORKER], stdin=subprocess.PIPE, stdout=subprocess.PIPE,
                                  stderr=subprocess.DEVNULL, text=True, env=env, bufsize=1)


def run_cases_glib(cases, nproc=12, recycle=200):
    results = [None] * len(cases)
    idx = list(range(len(cases)))
    lock = threading.Lock()

    def work():
        w = GWorker()
        n = 0
        while True:
            with lock:
                if not idx:
                    break
                i = idx.pop(0)
            if not w.alive() or n >= recycle:
                w.kill(); w = GWorker(); n = 0
            r = w.run(cases[i]); n += 1
            if r and r[0] in ("HANG", "ERROR"):
                w.kill(); w = GWorker(); n = 0
            results[i] = r
        w.kill()
    ts = [threading.Thread(target=work) for _ in range(min(nproc, max(1, len(cases))))]
    for t in ts:
        t.start()
    for t in ts:
        t.join()
    return results


def run_alone_glib(case, case_timeout=45):
    w = GWorker(case_timeout=case_timeout)
    try:
        return w.run(case)
    finally:
        w.kill()
