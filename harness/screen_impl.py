"""screen_impl.py — parent side: a pool of recycled screen_worker.py subprocesses."""
import json, os, subprocess, threading, select, time
import lib

WORKER = os.path.join(lib.VERIF, "harness", "screen_worker.py")


class Worker:
    def __init__(self, case_timeout=None):
        env = dict(lib.ENV)
        if case_timeout:
            env["VERIF_CASE_TIMEOUT"] = str(case_timeout)
        self.case_timeout = case_timeout or 8
        self.p = subprocess.Popen([lib.PY, WORKER], stdin=subprocess.PIPE, stdout=subprocess.PIPE,
                                  stderr=subprocess.DEVNULL, text=True, env=env, bufsize=1)

    def run(self, case, timeout=None):
        timeout = timeout or (self.case_timeout + 7)
        try:
            self.p.stdin.write(json.dumps(case) + "\n"); self.p.stdin.flush()
        except BrokenPipeError:
            return ["ERROR", "worker died"]
        r, _, _ = select.select([self.p.stdout], [], [], timeout)
        if not r:
            self.kill(); return ["HANG"]
        line = self.p.stdout.readline()
        if not line:
            self.kill(); return ["ERROR", "worker exited"]
        return json.loads(line)

    def alive(self):
        return self.p.poll() is None

    def kill(self):
        lib.stop_proc(self.p)


def run_cases(cases, nproc=12):
    results = [None] * len(cases)
    idx = list(range(len(cases)))
    lock = threading.Lock()

    def work():
        w = Worker()
        n = 0
        while True:
            with lock:
                if not idx:
                    break
                i = idx.pop(0)
            if not w.alive() or n >= 300:
                w.kill(); w = Worker(); n = 0
            r = w.run(cases[i]); n += 1
            if r and r[0] in ("HANG", "ERROR"):
                w.kill(); w = Worker(); n = 0
            results[i] = r
        w.kill()
    ts = [threading.Thread(target=work) for _ in range(min(nproc, max(1, len(cases))))]
    for t in ts:
        t.start()
    for t in ts:
        t.join()
    return results


def run_alone(case, case_timeout=45):
    """One session in its own worker with a generous time limit."""
    w = Worker(case_timeout=case_timeout)
    try:
        return w.run(case)
    finally:
        w.kill()
