"""screen_worker.py — runs screen-layer sessions (format: coq/theories/drv/Drv_screen.v) on the real
App / ScreenScheduler / UIScreen / InputManager / InputHandler / InputThreadManager / MainLoop from /repo.

One JSON case per stdin line -> one JSON result line: [outcomes, events, stack_ids_top_first, levels]
(or ["HANG"] / ["ERROR", text]).  After a HANG the parent kills this process.

The typed lines are handed to the real reader thread only when the loop thread is about to block on an
empty active queue (canonical timing); when it would block with no reader waiting or no line left the
session is over (outcome 4 = blocked).  Observation is through subclasses / instance-level replacement
and name patching, as the test-suite itself does with mock.patch.
"""
import sys, os, io, json, threading, queue as _queue, contextlib


class FalsyArgs(list):
    """Scheduling arguments that are falsy but not None (like 0, '' or []): an empty list that remembers its id."""
    def __init__(self, n):
        super().__init__()
        self.n = n


def mkargs(a):
    """args id -> the Python object a screen is scheduled with: 0 = None, odd = the int, even = a falsy (empty) object"""
    if not a:
        return None
    if a % 4 == 3:
        return (a, "args")            # a tuple (of length 2): whatever the framework formats or stores must cope with it
    if a % 2:
        return a
    obj = FalsyArgs(a)
    _ARGS[id(obj)] = obj          # the very object the screen is scheduled with (kept alive: its id() stays its own)
    return obj


_ARGS = {}


def aid(args):
    if args is None:
        return 0
    if isinstance(args, tuple):
        return args[0] if (len(args) == 2 and args[1] == "args") else 9999
    if isinstance(args, FalsyArgs):
        # the callbacks must be handed the OBJECT the screen was scheduled with, not an equal copy of it
        return args.n if id(args) in _ARGS else 9000 + args.n
    return args


sys.dont_write_bytecode = True
REAL_STDOUT = sys.stdout
REPO = os.environ.get("VERIF_REPO", "/repo")
sys.path.insert(0, REPO)

from simpleline import App                                              # noqa
from simpleline.event_loop import AbstractSignal, ExitMainLoop         # noqa
from simpleline.event_loop import main_loop as ML                       # noqa
from simpleline.event_loop import event_queue as EQ                     # noqa
from simpleline.event_loop.signals import (ExceptionSignal, RenderScreenSignal, CloseScreenSignal,   # noqa
                                            InputReceivedSignal, InputReadySignal)
from simpleline.render import screen_scheduler as SS                    # noqa
from simpleline.render.screen_stack import ScreenStack, ScreenData      # noqa
from simpleline.render.screen import UIScreen, InputState              # noqa
from simpleline.render.screen import input_manager as IM                # noqa
from simpleline.render.widgets import TextWidget                        # noqa
from simpleline.render import adv_widgets as AW                         # noqa
from simpleline.input import input_handler as IH                        # noqa
from simpleline.input import input_threading as IT                      # noqa
from simpleline.global_configuration import GlobalConfiguration         # noqa

# ---- C20 GLib branch (begin): VERIF_SCREEN_LOOP=glib runs the sessions on GLibEventLoop over the real libglib
# (ctypes stand-in for PyGObject, harness/glib_shim — on sys.path only in this mode, only in this worker process)
GLIB = os.environ.get("VERIF_SCREEN_LOOP") == "glib"
if GLIB:
    sys.path.insert(0, os.path.join(os.path.dirname(os.path.abspath(__file__)), "glib_shim"))
    from simpleline.event_loop import glib_event_loop as GEL            # noqa
# ---- C20 GLib branch (end)

GETPASS_PROMPTS = []          # what the framework hands to the password function (getpass writes it to the console)
CLS = {ExceptionSignal: 0, RenderScreenSignal: 1, CloseScreenSignal: 2, InputReceivedSignal: 3, InputReadySignal: 4}
# the application's own signal classes (ScreenSem.CLS_CUSTOM c = 5 + c)
CUSTOM = {c: type("Custom%d" % c, (AbstractSignal,), {}) for c in range(8)}
for _c, _k in CUSTOM.items():
    CLS[_k] = 5 + _c
CUSTOM[99] = ExceptionSignal          # class number 99: the application connects its own callback to ExceptionSignal itself
HEIGHT = 6
STEP_LIMIT = 600


class SessionEnd(BaseException):
    pass


class StepLimit(BaseException):
    pass


class Stuck(BaseException):
    """The loop thread waited a long time for a signal the reader thread had been released to submit."""


def run_session(case):
    fuel, specs, typed, quit_, run_empty, actions = case[:6]
    del GETPASS_PROMPTS[:]
    kinds = case[6] if len(case) > 6 else None      # optional: kinds[i] != "plain" = use the REAL stock class (harness/adv_specs.py)
    log = []
    st = dict(nsig=0, nq=0, lastget=None, steps=0, nsd=0, lastpop=None, nih=0)
    sid_of, keep = {}, []
    scr_id = {}                 # id(UIScreen) -> screen id
    ih_id = {}                  # id(InputHandler) -> n
    lines = list(typed)
    ctl = dict(reader=None, line=None, killed=False, typeahead=False, ta_wait=False, ta_pending=False)
    ta_done = threading.Event()
    hobj = {}                   # the application's own InputHandler objects (ops 20 / 21)
    line_ev = threading.Event()
    reader_ready = threading.Event()
    main_thread = threading.current_thread()

    def U(tag, args, text=""):
        log.append([19, tag, list(args), [ord(c) for c in text]])

    # ------------------------------------------------------------ event loop instrumentation
    def src_id(o):
        return [scr_id[id(o)]] if id(o) in scr_id else []

    def register(sg):
        if id(sg) not in sid_of:
            sid_of[id(sg)] = st["nsig"]; st["nsig"] += 1; keep.append(sg)
            log.append([20, sid_of[id(sg)], CLS.get(type(sg), 99), sg.priority, src_id(sg.source)])
        return sid_of[id(sg)]

    def sig_of_entry(e):
        return e[-1] if isinstance(e, tuple) else e

    def loop_idle():
        """Loop thread, about to block on an empty queue."""
        r = ctl["reader"]
        if r is not None and lines:
            ctl["reader"] = None
            ctl["line"] = lines.pop(0)
            line_ev.set()
            return                      # the reader thread will enqueue; the real get() blocks until then
        raise SessionEnd()

    class LoggedPQ(_queue.PriorityQueue):
        def __init__(self, qid):
            super().__init__(); self.qid = qid; self.seen = set()

        def put(self, item, block=True, timeout=None):
            sg = sig_of_entry(item); sid = register(sg)
            key = id(item) if isinstance(item, tuple) else ("s", sid)
            log.append([3 if key in self.seen else 0, sid, self.qid])
            self.seen.add(key); keep.append(item)
            super().put(item, block, timeout)

        def get(self, block=True, timeout=None):
            if self.empty() and threading.current_thread() is main_thread:
                loop_idle()
            try:
                item = super().get(True, 60)
            except _queue.Empty:
                raise Stuck()
            st["lastget"] = (sid_of[id(sig_of_entry(item))], self.qid)
            return item

    allq = []

    class LoggedEQ(EQ.EventQueue):
        def __init__(self):
            super().__init__()
            self.qid = st["nq"]; st["nq"] += 1
            self._queue = LoggedPQ(self.qid); allq.append(self)

    class LoggedList(list):
        def pop(self, *a):
            q = super().pop(*a); log.append([9, q.qid]); return q

    hid_of = {}

    class Loop(ML.MainLoop):
        def __init__(self):
            super().__init__()
            self._event_queues = LoggedList(self._event_queues)

        def register_signal_handler(self, signal, callback, data=None):
            hid = hid_for(callback)
            c = CLS.get(signal, 99)

            dval = getattr(callback, "custom_scr", 0)        # a screen's own callback is registered with data = the screen

            def wrapped(sig, d, callback=callback, hid=hid):
                sid = sid_of[id(sig)]
                log.append([4, hid, sid, dval])
                st["steps"] += 1
                if st["steps"] > STEP_LIMIT:
                    raise StepLimit()
                try:
                    callback(sig, d)
                except (SessionEnd, StepLimit):
                    raise
                except ExitMainLoop:
                    log.append([5, hid, sid, [1]]); raise
                except SystemExit:
                    log.append([5, hid, sid, [3]]); raise
                except Exception:
                    log.append([5, hid, sid, [2]]); raise
                log.append([5, hid, sid, []])
            super().register_signal_handler(signal, wrapped, data)
            log.append([21, c, hid, dval])

        def register_signal_source(self, signal_source):
            super().register_signal_source(signal_source)
            log.append([22, scr_id.get(id(signal_source), 999), self._active_queue.qid])

        def enqueue_signal(self, signal):
            if threading.current_thread() is not main_thread:
                if ctl["ta_pending"]:
                    # type-ahead (op 19): the reader thread got its line at once; its submission lands while the loop
                    # thread is still inside start_input_thread (which waits for it): recorded like any enqueue_signal
                    ctl["ta_pending"] = False
                    try:
                        sid = register(signal)
                        if self._force_quit:
                            log.append([1, sid])
                        return super().enqueue_signal(signal)
                    finally:
                        ta_done.set()
                sid = register(signal)
                # the reader thread's submission: it arrives while the loop thread waits (EExt follows ESigNew)
                log.append([17, sid])
                return super().enqueue_signal(signal)
            sid = register(signal)
            if self._force_quit:
                log.append([1, sid])
            return super().enqueue_signal(signal)

        def _process_signal(self, signal):
            sid, qid = st["lastget"]
            log.append([2, sid, qid, len(self._event_queues)])
            super()._process_signal(signal)
            log.append([6, sid])

        def execute_new_loop(self, signal):
            register(signal)
            if self._force_quit:
                return super().execute_new_loop(signal)
            q = st["nq"]; log.append([7, q])
            super().execute_new_loop(signal)
            log.append([8, q])

        def process_signals(self, return_after=None):
            if return_after is None:
                log.append([10, [], 0]); super().process_signals(); log.append([11, [], 0]); return
            t = self._processed_signals._counter
            k = CLS.get(return_after, 99)
            log.append([10, [k], t]); super().process_signals(return_after); log.append([11, [k], t])

        def force_quit(self):
            super().force_quit(); log.append([12])

        def run(self):
            log.append([14]); super().run(); log.append([15])

        def kill_app_with_traceback(self, exception_signal, data=None):
            log.append([16]); super().kill_app_with_traceback(exception_signal, data)

    def hid_for(callback):
        owner = getattr(callback, "__self__", None)
        name = getattr(callback, "__name__", "")
        if isinstance(owner, SS.ScreenScheduler) and name == "_process_screen_callback":
            return 0
        if isinstance(owner, SS.ScreenScheduler) and name == "_close_screen_callback":
            return 1
        if isinstance(owner, IT.InputThreadManager):
            return 2
        if isinstance(owner, IH.InputHandler):
            return 10 + ih_id[id(owner)]
        if getattr(callback, "custom_k", None) is not None:
            return 3 + callback.custom_k                      # ScreenSem.H_CUSTOM k
        return 999

    # ---- C20 GLib branch (begin): the same observation points on GLibEventLoop; "queue id" = level id (creation order).
    # Idle gate: every level's context carries a watchdog (idle source, priority 10**6) reached only when nothing else
    # is ready there; under run() / process_signals(return_after) it plays loop_idle(): it releases the next typed
    # line to the waiting reader thread and waits for that thread's submission, or ends the session (blocked).
    if GLIB:
        GLib = GEL.GLib
        glevels_all, gmodes = [], {}
        ext_done = threading.Event()

        def gwatchdog(lid):
            stack = gmodes[lid]
            if stack and not stack[-1]:
                return True                       # plain process_signals(): an idle context simply returns
            r = ctl["reader"]
            if r is not None and lines:
                ctl["reader"] = None
                ctl["line"] = lines.pop(0)
                ext_done.clear()
                line_ev.set()
                if not ext_done.wait(60):
                    raise Stuck()
                return True
            raise SessionEnd()

        class LoggedELD(GEL.EventLoopData):
            def __init__(self, loop):
                super().__init__(loop)
                self.lid = st["nq"]; st["nq"] += 1
                ctx = loop.get_context(); ctx._lid = self.lid
                gmodes[self.lid] = []; glevels_all.append(self)
                w = GLib.idle_source_new(); w.set_priority(10 ** 6); w.set_callback(gwatchdog, self.lid); w.attach(ctx)

        class GLoggedList(list):
            def pop(self, *a):
                l = super().pop(*a); log.append([9, l.lid]); return l

        class GLoop(GEL.GLibEventLoop):
            def __init__(self):
                super().__init__()
                self._event_loops = GLoggedList(self._event_loops)

            def register_signal_handler(self, signal, callback, data=None):
                hid = hid_for(callback)
                c = CLS.get(signal, 99)

                dval = getattr(callback, "custom_scr", 0)

                def wrapped(sig, d, callback=callback, hid=hid):
                    sid = sid_of[id(sig)]
                    log.append([4, hid, sid, dval])
                    st["steps"] += 1
                    if st["steps"] > STEP_LIMIT:
                        raise StepLimit()
                    try:
                        callback(sig, d)
                    except (SessionEnd, StepLimit, Stuck):
                        raise
                    except ExitMainLoop:
                        log.append([5, hid, sid, [1]]); raise
                    except SystemExit:
                        log.append([5, hid, sid, [3]]); raise
                    except Exception:
                        log.append([5, hid, sid, [2]]); raise
                    log.append([5, hid, sid, []])
                super().register_signal_handler(signal, wrapped, data)
                log.append([21, c, hid, dval])

            def register_signal_source(self, signal_source):
                super().register_signal_source(signal_source)
                log.append([22, scr_id.get(id(signal_source), 999), self._event_loops[-1].lid])

            def enqueue_signal(self, signal):
                if threading.current_thread() is not main_thread:
                    try:
                        sid = register(signal)
                        log.append([17, sid])           # the reader thread's submission (the loop thread waits in gwatchdog)
                        return super().enqueue_signal(signal)
                    finally:
                        ext_done.set()
                sid = register(signal)
                if self._force_quit:
                    log.append([1, sid])
                return super().enqueue_signal(signal)

            def _register_handlers_to_loop(self, event_loop, signal):
                log.append([0, sid_of[id(signal)], event_loop.get_context()._lid])
                return super()._register_handlers_to_loop(event_loop, signal)

            def _run_handlers(self, data):
                sid = sid_of[id(data.signal)]
                st["dispatches"] = st.get("dispatches", 0) + 1
                if st["dispatches"] > 5 * STEP_LIMIT:
                    raise StepLimit()
                log.append([2, sid, data.source.get_context()._lid, len(self._event_loops)])
                super()._run_handlers(data)
                log.append([6, sid])

            def execute_new_loop(self, signal):
                register(signal)
                if self._force_quit:
                    return super().execute_new_loop(signal)
                q = st["nq"]; log.append([7, q])
                super().execute_new_loop(signal)
                log.append([8, q])

            def process_signals(self, return_after=None):
                lvl = self._event_loops[-1] if self._event_loops else None
                if return_after is None:
                    w, t = [], 0
                else:
                    w, t = [CLS.get(return_after, 99)], self._processed_signals._counter
                log.append([10, w, t])
                if lvl is not None:
                    gmodes[lvl.lid].append(return_after is not None)
                try:
                    super().process_signals(return_after)
                finally:
                    if lvl is not None:
                        gmodes[lvl.lid].pop()
                log.append([11, w, t])

            def force_quit(self):
                super().force_quit(); log.append([12])

            def run(self):
                log.append([14]); super().run(); log.append([15])

            def kill_app_with_traceback(self, exception_signal, data=None):
                log.append([16]); super().kill_app_with_traceback(exception_signal, data)
    # ---- C20 GLib branch (end)

    # ------------------------------------------------------------ screen layer instrumentation
    class SD(ScreenData):
        def __init__(self, ui_screen, args=None, execute_new_loop=False):
            super().__init__(ui_screen, args, execute_new_loop)
            self.sid = st["nsd"]; st["nsd"] += 1

    def sd_fields(d):
        return [d.sid, scr_id.get(id(d.ui_screen), 999), aid(d.args), 1 if d.execute_new_loop else 0]

    class Stack(ScreenStack):
        def append(self, screen):
            super().append(screen); U(15, [0] + sd_fields(screen)); st["lastappend"] = screen

        def add_first(self, screen):
            super().add_first(screen); U(15, [1] + sd_fields(screen))

        def pop(self, remove=True):
            d = super().pop(remove)
            if remove:
                U(15, [2] + sd_fields(d)); st["lastpop"] = d
            return d

    class Sched(SS.ScreenScheduler):
        @staticmethod
        def _spacer():
            top = App.get_scheduler()._screen_stack._screens[-1]
            U(4, [scr_id.get(id(top.ui_screen), 999)])
            return SS.ScreenScheduler._spacer()

        def schedule_screen(self, ui_screen, args=None):
            U(17, [0, scr_id[id(ui_screen)], aid(args)]); super().schedule_screen(ui_screen, args)

        def push_screen(self, ui_screen, args=None):
            U(17, [1, scr_id[id(ui_screen)], aid(args)]); super().push_screen(ui_screen, args)

        def push_screen_modal(self, ui_screen, args=None):
            U(17, [2, scr_id[id(ui_screen)], aid(args)])
            nsd = st["nsd"]
            super().push_screen_modal(ui_screen, args)
            U(10, [nsd, scr_id[id(ui_screen)]])

        def replace_screen(self, ui_screen, args=None):
            U(17, [3, scr_id[id(ui_screen)], aid(args)]); super().replace_screen(ui_screen, args)

        def close_screen(self, closed_from=None):
            U(17, [4, (scr_id.get(id(closed_from), 998) + 1) if closed_from is not None else 0, 0])
            super().close_screen(closed_from)

        def _process_screen(self):
            # the entry this _process_screen is about (the top of the stack when it starts): a setup() that runs commands
            # may change the stack before the scheduler calls refresh() for that entry
            scr = self._screen_stack._screens
            st.setdefault("ps", []).append(scr[-1] if scr else None)
            try:
                super()._process_screen()
            finally:
                st["ps"].pop()

    def top_sd():
        return App.get_scheduler()._screen_stack._screens[-1]

    def cur_sd(ui):
        # the entry the running _process_screen works on, when it is an entry of this screen; else the top of the stack
        ps = st.get("ps") or []
        if ps and ps[-1] is not None and ps[-1].ui_screen is ui:
            return ps[-1]
        return top_sd()

    counts = {}

    def count(scr, kind):
        n = counts.get((scr, kind), 0); counts[(scr, kind)] = n + 1; return n

    class S(UIScreen):
        def __init__(self, i, spec):
            super().__init__(title="S%d" % i, screen_height=HEIGHT)
            self.i = i; self.spec = spec
            self.input_required = bool(spec[7]); self.no_separator = bool(spec[8])
            self.input_manager.skip_concurrency_check = bool(spec[9])
            a0 = spec[11] if len(spec) > 11 else 0
            if a0 == 3:
                self.answer = None
            elif a0 in (1, 2):
                self.answer = (a0 == 1)
            if i % 2 == 1:
                # every other screen takes hidden (password) input: same behaviour, other code path
                # (PasswordInputHandler / PasswordInputHandlerRequest); the password function is the scripted reader
                self.hide_user_input = True
                # like getpass: the prompt it is given is written to the console, then the (scripted) line is read
                self.password_func = lambda prompt: (GETPASS_PROMPTS.append(prompt), sys.stdout.write(prompt), fake_get_input())[2]

        def __str__(self):
            return "S%d" % self.i

        def setup(self, args):
            su = self.spec[0]
            n = count(self.i, "setup")
            ok = True if not su else (su[n] if n < len(su) else su[-1])
            sc = self.spec[13] if len(self.spec) > 13 else []
            ent = cur_sd(self)
            if sc:
                # a setup() that does something itself before it reports its result
                U(22, [ent.sid, self.i, aid(args)])
                do_cmds(self, sc, n)
            U(1, [ent.sid, self.i, aid(args), 1 if ok else 0])
            if not ok:
                return False
            return super().setup(args)

        def refresh(self, args=None):
            n = count(self.i, "refresh")
            U(2, [cur_sd(self).sid, self.i, aid(args)])
            super().refresh(args)
            pages = self.spec[10]
            for k in range(pages * (HEIGHT - 2) + 1 if pages else 1):
                self.window.add(TextWidget("line %d of S%d" % (k, self.i)))
            do_cmds(self, self.spec[1], n)

        def show_all(self):
            n = count(self.i, "show")
            U(3, [top_sd().sid, self.i])
            super().show_all()
            do_cmds(self, self.spec[2], n)

        def closed(self):
            n = count(self.i, "closed")
            d = st["lastpop"]
            U(8, [d.sid, self.i])
            do_cmds(self, self.spec[3], n, in_closed=True)

        def prompt(self, args=None):
            if self.spec[6]:
                return None
            U(18, [self.i, aid(args), st["nih"]])
            if self.i % 3 == 2:
                # every third screen has an EMPTY prompt (no message, no options): it renders to no line at all; the request
                # behaves like any other (the model does not look at the prompt's text)
                from simpleline.render.prompt import Prompt
                p = Prompt("")
                for k in list(p.options):
                    p.remove_option(k)
                return p
            return super().prompt(args)

        def input(self, args, key):
            n = count(self.i, "input")
            U(7, [self.i, aid(args)], key)
            for k, cmds, ret in self.spec[4]:
                if "".join(chr(c) for c in k) == key:
                    do_cmds(self, cmds, n); return conv_ret(ret, key)
            dc, dr = self.spec[5]
            do_cmds(self, dc, n)
            return conv_ret(dr[0], key) if dr else key

    def conv_ret(r, key):
        return {0: InputState.PROCESSED, 1: InputState.PROCESSED_AND_REDRAW, 2: InputState.PROCESSED_AND_CLOSE,
                3: InputState.DISCARDED}.get(r[0]) if r[0] < 4 else ("".join(chr(c) for c in r[1]) if r[0] == 4 else None)

    # the stock dialogs of render/adv_widgets.py: the real class, with the same events logged as by S, nothing else
    def logged(base, blocking_prompt=False):
        class Lg(base):
            def __str__(self):
                return "A%d" % self.i

            def setup(self, args):
                U(1, [top_sd().sid, self.i, aid(args), 1])
                return super().setup(args)

            def refresh(self, args=None):
                U(2, [top_sd().sid, self.i, aid(args)])
                super().refresh(args)

            def show_all(self):
                U(3, [top_sd().sid, self.i])
                super().show_all()

            def closed(self):
                U(8, [st["lastpop"].sid, self.i])
                super().closed()

            def prompt(self, args=None):
                n = st["nih"]
                if blocking_prompt:                 # PasswordDialog.prompt() asks and waits by itself, then close()s
                    U(16, [self.i, n]); self.waiting = n
                p = super().prompt(args)
                self.got()
                if p is not None:
                    U(18, [self.i, aid(args), n])
                return p

            def got(self):
                if getattr(self, "waiting", None) is not None:
                    U(13, [self.i, self.waiting]); self.waiting = None

            def close(self):
                self.got()                          # the wait of PasswordDialog.prompt() is over when it calls close()
                super().close()

            def input(self, args, key):
                U(7, [self.i, aid(args)], key)
                return super().input(args, key)
        return Lg

    def make_adv(i, kind):
        name, _, rest = kind.partition(":")
        if name == "yesno":
            s = logged(AW.YesNoDialog)("Really?")
        elif name == "error":
            s = logged(AW.ErrorDialog)("It failed.")
        elif name == "help":
            s = logged(AW.HelpScreen)(None)
        elif name == "password":
            s = logged(AW.PasswordDialog, blocking_prompt=True)()
        elif name in ("getinput", "getpassinput"):
            s = logged(AW.GetInputScreen if name == "getinput" else AW.GetPasswordInputScreen)("value: ")
            for pos, keys in json.loads(rest):
                if pos:
                    s.add_acceptance_condition(lambda key, ks: key in ks, list(keys))
                else:
                    s.add_acceptance_condition(lambda key, ks: key not in ks, list(keys))
        else:
            raise AssertionError(kind)
        if name in ("password", "getpassinput"):
            s.password_func = lambda text_prompt: (GETPASS_PROMPTS.append(text_prompt), sys.stdout.write(text_prompt), fake_get_input())[2]      # getpass -> the scripted reader
        s.i = i
        return s

    screens = []

    def do_cmds(self, cmds, n, in_closed=False):
        sch = App.get_scheduler()
        me = self.i if self is not None else 0
        for c in cmds:
            op = c[0]
            if op == 0:
                sch.push_screen(screens[c[1]], mkargs(c[2]))
            elif op == 1:
                sch.push_screen_modal(screens[c[1]], mkargs(c[2]))
            elif op == 2:
                sch.replace_screen(screens[c[1]], mkargs(c[2]))
            elif op == 3:
                sch.schedule_screen(screens[c[1]], mkargs(c[2]))
            elif op == 4:
                screens[me].close()
            elif op == 5:
                if in_closed:
                    U(14, [me, 999])
                else:
                    sch.close_screen()
            elif op == 6:
                screens[me].redraw()
            elif op == 7:
                sch.redraw()
            elif op == 8:
                raise RuntimeError("scripted")
            elif op == 9:
                raise ExitMainLoop()
            elif op == 10:
                App.get_event_loop().force_quit()
            elif op == 11:
                # every other screen asks with hidden=True (PasswordInputHandler through get_input_blocking)
                screens[me].get_user_input("value: ", hidden=(me % 2 == 1))
            elif op == 12:
                screens[me].input_required = bool(c[1])
            elif op == 13:
                if c[1] == 0:
                    if hasattr(screens[me], "answer"):
                        del screens[me].answer
                elif c[1] == 3:
                    screens[me].answer = None
                else:
                    screens[me].answer = (c[1] == 1)
            elif op == 14:
                U(14, [me, c[1]])
            elif op == 15:
                do_cmds(self, c[2] if n < c[1] else c[3], n, in_closed)
            elif op == 16:
                sys.exit(1)
            elif op == 17:
                screens[c[1]].redraw()
            elif op == 18:
                screens[c[1]].close()
            elif op == 19:
                ctl["typeahead"] = bool(c[1])
            elif op == 20:
                h = hobj.get(c[1])
                if h is None:
                    h = hobj[c[1]] = IH.InputHandler()
                h.skip_concurrency_check = bool(c[2])
                h.get_input("value: ")
            elif op == 21:
                h = hobj.get(c[1])
                if h is not None:
                    h.wait_on_input()
                    v = h.value
                    U(20, [c[1], ih_id[id(h)], 1 if h.input_successful() else 0, 0 if v is None else 1], v or "")
            elif op == 24:
                App.get_event_loop().process_signals()
            elif op == 22:
                # self.connect(Custom_c, callback_k): SignalHandler.connect -> register_signal_handler(signal, callback, None)
                scr, k = screens[me], c[2]

                def cb(signal, data, scr=scr, k=k):
                    U(21, [k, scr.i, 1 + scr_id[id(signal.source)] if id(signal.source) in scr_id else 0])
                    custom = scr.spec[12] if len(scr.spec) > 12 else []
                    do_cmds(scr, custom[k] if k < len(custom) else [], 0)
                cb.custom_k = k; cb.custom_scr = me
                scr.connect(CUSTOM[c[1]], cb)
            elif op == 23:
                # self.emit(self.create_signal(Custom_c, prio)) / self.create_and_emit(Custom_c) when prio == 0
                if c[2] == 0 and me % 2 == 0:
                    screens[me].create_and_emit(CUSTOM[c[1]])
                else:
                    screens[me].emit(screens[me].create_signal(CUSTOM[c[1]], c[2]))
            else:
                raise AssertionError(op)

    # ------------------------------------------------------------ input instrumentation
    orig_ih_init = IH.InputHandler.__init__
    orig_ih_recv = IH.InputHandler._input_received_handler
    orig_get_input = IH.InputHandlerRequest._get_input
    orig_start_thread = IT.InputRequest.start_thread
    orig_start_input = IT.InputThreadManager.start_input_thread
    orig_print_new = IT.InputThreadManager._print_new_prompt
    orig_blocking = IM.InputManager.get_input_blocking
    orig_process = IM.InputManager._process_input

    def process(self, key):
        r = orig_process(self, key)
        U(19, [scr_id[id(self._ui_screen)], {0: 0, 5: 1, 6: 2, 7: 3, -1: 4}[r.value]])
        return r

    intended_source = {}

    def ih_init(self, callback=None, source=None):
        ih_id[id(self)] = st["nih"]; st["nih"] += 1; keep.append(self)
        intended_source.setdefault(id(self), source)
        orig_ih_init(self, callback, source)

    orig_pih_init = IH.PasswordInputHandler.__init__

    def pih_init(self, callback=None, source=None):
        intended_source[id(self)] = source            # what the creator of the (hidden-input) handler named as requester
        orig_pih_init(self, callback, source)

    def ih_recv(self, signal, args):
        if signal.input_handler_source is self:
            U(12, [ih_id[id(self)], 1 if signal.success else 0], signal.data)
        return orig_ih_recv(self, signal, args)

    def fake_get_input():
        req = ctl["starting"]
        U(5, [ih_id[id(req.source)], 0])
        if ctl["typeahead"] and lines:
            # the user has typed ahead: the line is there at once
            l = lines.pop(0)
            ctl["ta_pending"] = True; ctl["ta_wait"] = True
            ta_done.clear()
            reader_ready.set()
            sys.stdout.write("\n")                # the terminal echoes the user's ENTER (console capture only)
            if l == []:
                raise EOFError()
            return "".join(chr(c) for c in l[0])
        ctl["reader"] = req
        reader_ready.set()
        line_ev.wait(30); line_ev.clear()
        if ctl["killed"]:
            raise SystemExit()
        l = ctl["line"]
        sys.stdout.write("\n")                    # the terminal echoes the user's ENTER (console capture only)
        if l == []:
            raise EOFError()
        return "".join(chr(c) for c in l[0])

    def start_thread(self):
        ctl["starting"] = self
        reader_ready.clear()
        orig_start_thread(self)
        reader_ready.wait(10)
        if ctl["ta_wait"]:
            ctl["ta_wait"] = False
            if not ta_done.wait(20):
                raise Stuck()

    def start_input(self, input_thread_object, concurrent_check=True):
        try:
            return orig_start_input(self, input_thread_object, concurrent_check)
        except KeyError as e:
            ids = [ih_id[id(t.source)] for t in self._input_stack]
            ids.append(ih_id[id(input_thread_object.source)])     # the refused request was popped before the raise
            # "refused with an error that names every requester involved": the message must name, for every request, the
            # handler and the requester its creator gave (the screen), "Unknown" only for a handler created without one
            msg = str(e.args[0]) if e.args else ""
            for t in list(self._input_stack) + [input_thread_object]:
                who = intended_source.get(id(t.source))
                line = "Input handler: {} Input requester: {}".format(t.source, who if who is not None else "Unknown")
                if line not in msg:
                    ids.append(9999)                               # not named: the acceptor will reject this refusal
                    break
            U(11, ids)
            raise

    def print_new(thread_object):
        U(5, [ih_id[id(thread_object.source)], 1])
        return orig_print_new(thread_object)

    def blocking(self, message, hidden):
        scr = scr_id[id(self._ui_screen)]
        n = st["nih"]
        U(16, [scr, n])
        v = orig_blocking(self, message, hidden)
        U(13, [scr, n])
        return v

    patches = [(IH.InputHandler, "__init__", ih_init), (IH.PasswordInputHandler, "__init__", pih_init),
               (IH.InputHandler, "_input_received_handler", ih_recv),
               # the scripted reader stands in for the builtin input() as seen from input_handler.py: the library's own
               # InputHandlerRequest._get_input runs (what it does with the line read is part of C06 "intact")
               (IH, "input", fake_get_input),
               (IT.InputRequest, "start_thread", start_thread),
               (IT.InputThreadManager, "start_input_thread", start_input),
               (IT.InputThreadManager, "_print_new_prompt", staticmethod(print_new)),
               (IM.InputManager, "get_input_blocking", blocking), (IM.InputManager, "_process_input", process),
               (ML, "EventQueue", LoggedEQ), (SS, "ScreenData", SD)]
    if GLIB:                                             # C20 GLib branch
        patches.append((GEL, "EventLoopData", LoggedELD))
    MISSING = object()
    saved = [(o, n, o.__dict__.get(n, MISSING)) for o, n, _ in patches]
    for o, n, v in patches:
        setattr(o, n, v)
    out = io.StringIO()
    outcomes = []
    old_hook = sys.excepthook
    try:
        with contextlib.redirect_stdout(out), contextlib.redirect_stderr(out):
            sys.excepthook = lambda *a: None
            loop = GLoop() if GLIB else Loop()           # C20 GLib branch
            sched = Sched(loop, Stack())
            conf = GlobalConfiguration()
            conf.should_run_with_empty_stack = bool(run_empty)
            App.initialize(scheduler=sched, event_loop=loop, global_configuration=conf)
            for i, sp in enumerate(specs):
                s = make_adv(i, kinds[i]) if (kinds and kinds[i] != "plain") else S(i, sp)
                screens.append(s); scr_id[id(s)] = i
            if quit_:
                sched.quit_screen = screens[quit_[0]]
            for a in actions:
                log.append([24])
                try:
                    if a[0] == 0:
                        do_cmds(None, a[1:], 0)
                    else:
                        App.run()
                    outcomes.append(0)
                except SessionEnd:
                    outcomes.append(4); break
                except Stuck:
                    return ["HANG"]
                except StepLimit:
                    outcomes.append(5); break
                except ExitMainLoop:
                    outcomes.append(1)
                except SystemExit:
                    outcomes.append(3); break
                except Exception:
                    outcomes.append(2)
    finally:
        ctl["killed"] = True
        line_ev.set()
        for o, n, v in saved:
            if v is MISSING:
                if n in o.__dict__:
                    delattr(o, n)
            else:
                setattr(o, n, v)
        sys.excepthook = old_hook
        if GLIB:                                         # C20 GLib branch: the default main context is shared by every
            GLib._pending_exc[0] = None                  # GLibEventLoop of the process: leave nothing attached
            for src in list(GLib._live_sources.values()):
                src.destroy()
            GLib._live_sources.clear()
            del GLib._running_loops[:]
    stack = [d.sid for d in reversed(sched._screen_stack._screens)]
    levels = [l.lid for l in loop._event_loops] if GLIB else [q.qid for q in loop._event_queues]
    return [outcomes, log, stack, levels, out.getvalue(), list(GETPASS_PROMPTS)]


def main():
    for line in sys.stdin:
        line = line.strip()
        if not line:
            continue
        case = json.loads(line)
        res = {}

        def go():
            try:
                res["r"] = run_session(case)
            except BaseException as e:            # noqa
                import traceback
                res["r"] = ["ERROR", "%s: %s\n%s" % (type(e).__name__, e, traceback.format_exc()[-1500:])]
        # the session runs on a fresh thread that plays the application's main thread
        t = threading.Thread(target=go, daemon=True)
        t.start(); t.join(float(os.environ.get("VERIF_CASE_TIMEOUT", "8")))
        if t.is_alive():
            REAL_STDOUT.write(json.dumps(["HANG"]) + "\n"); REAL_STDOUT.flush()
            os._exit(3)
        REAL_STDOUT.write(json.dumps(res["r"]) + "\n"); REAL_STDOUT.flush()


if __name__ == "__main__":
    main()
