"""conc_impl.py — the implementation side of the C19 (L4) correspondence: the real MainLoop/EventQueue
of /repo, driven by real threads under a COOPERATIVE SCHEDULER.

A case is (progs, sched): progs[0] is the loop thread's program, the others are submitters; actions
  [0, sid, prio, src?]  loop.enqueue_signal(Sig)         src? = [] | [o]
  [1]                   one turn of `while self._run_loop: signal = self._active_queue.get(); self._process_signal(signal)`
  [2, o]                loop.register_signal_source(o)
  [3, sid, prio, src?]  loop.execute_new_loop(Sig)       (up to the entry of the nested _mainloop, which the subclass stubs out)
  [4]                   loop.close_loop(), then (a separate schedule point) the return of the handler that called it:
                        the closed level's _mainloop re-arms _run_loop
  [5]                   loop.force_quit()
sched is a list of thread ids.  Every thread may perform its next *shared access* only when the
schedule names it; a turn of a thread whose access would block (lock held, get() on an empty queue) or
which has finished is a stutter, exactly as in Conc.v.

Instrumentation is by instance-level replacement only (nothing in /repo is edited):
  loop._lock, queue._lock            -> SLock       (gate before acquire and before release)
  queue._queue.put/get/empty/qsize   -> gated wrappers bound on the PriorityQueue instance
  queue._counter                     -> SCounter    (gated __next__)
  queue._contained_screens           -> SSet        (gated __contains__/add/remove)
  loop._event_queues                 -> SList       (gated __reversed__/__iter__ + iterator __next__, append, pop, clear)
  loop._force_quit, _active_queue    -> properties of a MainLoop subclass (reads gated inside enqueue_signal,
                                        writes gated always)
Reads by the loop thread of variables only it writes, outside enqueue_signal, are not gated (Conc.v header).

Stand-alone:  conc_impl.py --serve   reads one JSON case per line on stdin, writes one JSON result per line.
Every wait has a timeout; ImplPool (used by checks/C19.py) runs the server in a recycled subprocess with a
hard per-case timeout."""
import sys, os, json, threading, time, subprocess, select

WAIT = float(os.environ.get("CONC_WAIT", "3.0"))     # max seconds the controller waits for a thread to park


class Abort(BaseException):
    pass


class Hang(Exception):
    pass


class Sched:
    """Cooperative scheduler: exactly one scheduled thread runs at a time.  A thread arriving at a shared
    access parks in gate(); the controller grants it one turn (turn(tid)) and waits until it is parked again
    (or has finished).  One semaphore per thread for the grant, one for the way back."""

    def __init__(self):
        self.parked = {}       # tid -> (can() or None, kind)
        self.go = {}           # tid -> Semaphore
        self.back = threading.Semaphore(0)
        self.done = set()
        self.trace = []
        self.abort = False
        self.ident = {}        # thread ident -> tid
        self.local = threading.local()

    def tid(self):
        return self.ident.get(threading.get_ident())

    def in_enq(self):
        return getattr(self.local, "enq", 0) > 0

    # ---- thread side
    def gate(self, can=None, kind=None):
        tid = self.tid()
        if tid is None:
            return None
        if self.abort:
            raise Abort()
        self.parked[tid] = (can, kind)
        self.back.release()
        if not self.go[tid].acquire(timeout=120) or self.abort:
            raise Abort()
        return tid

    def rec(self, *label):
        tid = self.tid()
        if tid is not None:
            self.trace.append([tid] + [int(x) for x in label])

    def finish(self, tid):
        self.done.add(tid)
        if not self.abort:
            self.back.release()

    # ---- controller side
    def wait_parked(self, tid):
        """Wait until the thread that was started / granted a turn is parked at a gate or has finished."""
        if not self.back.acquire(timeout=WAIT):
            raise Hang("thread %s did not reach its next shared access" % tid)

    def turn(self, tid):
        if tid in self.done or tid not in self.parked:
            return "fin"
        can = self.parked[tid][0]
        if can is not None and not can():
            return "blocked"
        del self.parked[tid]
        self.go[tid].release()
        self.wait_parked(tid)
        return "ok"

    def kill(self):
        self.abort = True
        for sem in self.go.values():
            sem.release()


class SLock:
    """threading.Lock stand-in; label (2)/(10) for MainLoop._lock, (5 q)/(7 q) for EventQueue._lock."""

    def __init__(self, sched, qid):
        self.s, self.qid = sched, qid
        self.real = threading.Lock()
        self.holder = None

    def acquire(self, blocking=True, timeout=-1):
        tid = self.s.gate(lambda: self.holder is None)
        if not self.real.acquire(False):
            raise RuntimeError("scheduler let a thread into a held lock")
        self.holder = -1 if tid is None else tid
        if self.qid is None:
            self.s.rec(2)
        else:
            self.s.rec(5, self.qid)
        return True

    def release(self):
        try:
            self.s.gate()
        except Abort:
            self.holder = None
            self.real.release()
            raise
        self.holder = None
        self.real.release()
        if self.qid is None:
            self.s.rec(10)
        else:
            self.s.rec(7, self.qid)

    def locked(self):
        return self.holder is not None

    def __enter__(self):
        self.acquire()
        return self

    def __exit__(self, *a):
        self.release()
        return False


class SCounter:
    def __init__(self, sched, qid, real):
        self.s, self.qid, self.real = sched, qid, real

    def __iter__(self):
        return self

    def __next__(self):
        self.s.gate()
        v = next(self.real)
        self.s.rec(8, self.qid, v)
        return v


class SSet(set):
    def bind(self, sched, qid):
        self.s, self.qid = sched, qid
        return self

    def __contains__(self, o):
        self.s.gate()
        b = set.__contains__(self, o)
        self.s.rec(6, self.qid, b)
        return b

    def add(self, o):
        self.s.gate()
        set.add(self, o)
        self.s.rec(14, self.qid, o if isinstance(o, int) else -1)

    def remove(self, o):
        self.s.gate()
        self.s.rec(24, self.qid, o if isinstance(o, int) else -1)
        set.remove(self, o)


class GIter:
    def __init__(self, sched, it, qidof):
        self.s, self.it, self.qidof = sched, it, qidof

    def __iter__(self):
        return self

    def __next__(self):
        self.s.gate()
        try:
            v = next(self.it)
        except StopIteration:
            self.s.rec(4, -1)
            raise
        self.s.rec(4, self.qidof(v))
        return v


class SList(list):
    def bind(self, sched, qidof):
        self.s, self.qidof = sched, qidof
        return self

    def __reversed__(self):
        if self.s.tid() is None:
            return list.__reversed__(self)
        self.s.gate()
        it = list.__reversed__(self)
        self.s.rec(3, len(self))
        return GIter(self.s, it, self.qidof)

    def __iter__(self):
        if self.s.tid() is None or not self.s.in_enq():
            return list.__iter__(self)
        self.s.gate()
        it = list.__iter__(self)
        self.s.rec(3, len(self))
        return GIter(self.s, it, self.qidof)

    def __getitem__(self, i):
        if self.s.tid() is None or not self.s.in_enq():
            return list.__getitem__(self, i)
        self.s.gate()
        v = list.__getitem__(self, i)
        self.s.rec(23, i if isinstance(i, int) else -99, self.qidof(v) if not isinstance(v, list) else -1)
        return v

    def append(self, q):
        self.s.gate()
        list.append(self, q)
        self.s.rec(16, self.qidof(q))

    def pop(self, *a):
        self.s.gate()
        try:
            v = list.pop(self, *a)
        except IndexError:
            self.s.rec(19, -1)
            raise
        self.s.rec(19, self.qidof(v))
        return v

    def clear(self):
        self.s.gate()
        list.clear(self)
        self.s.rec(22)


class World:
    """One case: the instrumented loop, its queues and the observation logs."""

    def __init__(self):
        from simpleline.event_loop.main_loop import MainLoop
        from simpleline.event_loop import AbstractSignal, ExitMainLoop
        self.ExitMainLoop = ExitMainLoop
        s = self.s = Sched()
        w = self
        self.queues = []          # qid -> EventQueue
        self.qid = {}             # id(queue) -> qid
        self.dispatched = []
        self.dropped = []
        self.put_once = {}        # sid -> (tid, qid, prio, cnt) first put
        self.in_hand = {}         # sid -> tid   (got, neither dispatched nor put back yet)

        class Sig(AbstractSignal):
            def __init__(self, sid, prio, src):
                super().__init__(src, prio)
                self.sid = sid
        self.Sig = Sig

        class L(MainLoop):
            def _get_fq(self):
                v = self.__dict__.get("_x_fq", False)
                if s.tid() is not None and s.in_enq():
                    s.gate()
                    v = self.__dict__.get("_x_fq", False)
                    s.rec(1, v)
                return v

            def _set_fq(self, v):
                if s.tid() is not None:
                    s.gate()
                    self.__dict__["_x_fq"] = v
                    s.rec(21 if v else 25)
                else:
                    self.__dict__["_x_fq"] = v
            _force_quit = property(_get_fq, _set_fq)

            def _get_aq(self):
                if s.tid() is not None and s.in_enq():
                    s.gate()
                    q = self.__dict__["_x_aq"]
                    s.rec(11, w.qidof(q))
                    return q
                return self.__dict__["_x_aq"]

            def _set_aq(self, q):
                if s.tid() is not None:
                    s.gate()
                new = id(q) not in w.qid
                if new:
                    w.instrument(q)
                self.__dict__["_x_aq"] = q
                if s.tid() is not None:
                    s.rec(15 if new else 20, w.qidof(q))
            _active_queue = property(_get_aq, _set_aq)

            def _get_evq(self):
                return self.__dict__["_x_evq"]

            def _set_evq(self, l):
                self.__dict__["_x_evq"] = SList(l).bind(s, w.qidof)
            _event_queues = property(_get_evq, _set_evq)

            def _mainloop(self):
                # only reached from execute_new_loop (the harness never calls run()): the model's "open"
                # action ends at the entry of the nested _mainloop; its body is the dispatch actions that follow
                return

            def enqueue_signal(self, signal):
                s.local.enq = getattr(s.local, "enq", 0) + 1
                try:
                    return super().enqueue_signal(signal)
                finally:
                    s.local.enq -= 1

        self.loop = L()
        self.loop._lock = SLock(s, None)
        self.loop.register_signal_handler(Sig, self.on_dispatch)

    def qidof(self, q):
        return self.qid.get(id(q), -7)

    def on_dispatch(self, sig, data):
        self.dispatched.append(sig.sid)
        self.in_hand.pop(sig.sid, None)

    def instrument(self, q):
        s = self.s
        qid = len(self.queues)
        self.queues.append(q)
        self.qid[id(q)] = qid
        q._lock = SLock(s, qid)
        q._contained_screens = SSet(q._contained_screens).bind(s, qid)
        q._counter = SCounter(s, qid, q._counter)
        pq = q._queue
        rput, rget, rempty, rqsize = pq.put, pq.get, pq.empty, pq.qsize
        w = self

        def put(item, block=True, timeout=None):
            s.gate()
            rput(item)
            sid = getattr(item[2], "sid", -1)
            if sid not in w.put_once:
                w.put_once[sid] = (s.tid(), qid, item[0], item[1])
            w.in_hand.pop(sid, None)
            s.rec(9, qid, sid)

        def get(block=True, timeout=None):
            s.gate(lambda: not rempty(), "get")
            item = rget(False)
            sid = getattr(item[2], "sid", -1)
            w.in_hand[sid] = s.tid()
            s.rec(12, qid, sid)
            return item

        def empty():
            s.gate()
            b = rempty()
            s.rec(17, qid, b)
            return b

        def qsize():
            s.gate()
            n = rqsize()
            s.rec(26, qid, n)
            return n
        pq.put, pq.get, pq.empty, pq.qsize = put, get, empty, qsize
        pq._real_empty = rempty

    # ---- thread bodies
    def body(self, tid, prog, state):
        s, loop = self.s, self.loop
        s.ident[threading.get_ident()] = tid
        try:
            for k, a in enumerate(prog):
                state["at"] = k
                kind = a[0]
                if kind == 0:
                    sig = self.Sig(a[1], a[2], a[3][0] if a[3] else None)
                    loop.enqueue_signal(sig)
                    if a[1] not in self.put_once:
                        self.dropped.append(a[1])
                elif kind == 1:
                    if loop._run_loop:
                        sig = loop._active_queue.get()
                        loop._process_signal(sig)
                    else:
                        s.gate()
                        s.rec(13)
                elif kind == 2:
                    loop.register_signal_source(a[1])
                elif kind == 3:
                    if loop._force_quit:
                        s.gate()
                        s.rec(13)
                        loop.execute_new_loop(self.Sig(a[1], a[2], a[3][0] if a[3] else None))
                        self.dropped.append(a[1])
                    else:
                        loop.execute_new_loop(self.Sig(a[1], a[2], a[3][0] if a[3] else None))
                        if a[1] not in self.put_once:
                            self.dropped.append(a[1])
                elif kind == 4:
                    try:
                        loop.close_loop()
                    except self.ExitMainLoop:
                        state["exit"] = True
                        state["at"] = k + 1
                        break
                    except IndexError:
                        state["indexerror"] = state.get("indexerror", 0) + 1
                    else:
                        # close_loop() has returned with _run_loop = False; the handler that called it is still
                        # running: a schedule point of its own (Conc.v PCRet), every other thread may run here.
                        # Then the handler returns and the closed level's _mainloop does
                        # `if not self._force_quit: self._run_loop = True`
                        s.gate()
                        if not loop._force_quit:
                            loop._run_loop = True
                        s.rec(27)
                elif kind == 5:
                    loop.force_quit()
                state["at"] = k + 1
            state["fin"] = True
        except Abort:
            state["aborted"] = True
        except BaseException as e:       # noqa
            state["error"] = "%s: %s" % (type(e).__name__, e)
        finally:
            s.finish(tid)


def act_sids(a):
    return [a[1]] if a[0] in (0, 3) else []


def run_case(progs, sched):
    """-> result dict shaped like Drv_conc's result."""
    w = World()
    s = w.s
    states = [dict(at=0) for _ in progs]
    threads = []
    out = {}
    try:
        for tid, prog in enumerate(progs):
            s.go[tid] = threading.Semaphore(0)
            t = threading.Thread(target=w.body, args=(tid, prog, states[tid]), daemon=True)
            threads.append(t)
            t.start()
            s.wait_parked(tid)
        turns = []
        for tid in sched:
            if tid >= len(progs):
                turns.append("none")
                continue
            turns.append(s.turn(tid))
        out["turns"] = turns
        # ---- final observation (all threads parked or done)
        loop = w.loop
        ths = []
        any_unfinished = any_enabled = False
        all_wait = True
        for tid, prog in enumerate(progs):
            fin = tid in s.done
            st = states[tid]
            at = st["at"]
            unput = []
            for b in prog[at:]:
                for sid in act_sids(b):
                    if sid not in w.put_once and sid not in w.dropped:
                        unput.append(sid)
            held = [sid for sid, t in w.in_hand.items() if t == tid]
            if fin:
                ths.append([1, 0, 0, 0 if not st.get("exit") else len(prog) - at, unput, held])
                continue
            can = s.parked.get(tid, (None, None))[0]
            en = can is None or bool(can())
            waiting = (not en) and s_waits_in_get(w, tid)
            ths.append([0, 1 if en else 0, 1 if waiting else 0, len(prog) - at, unput, held])
            any_unfinished = True
            any_enabled = any_enabled or en
            all_wait = all_wait and waiting
        pend = []
        for qid, q in enumerate(w.queues):
            for it in sorted(q._queue.queue, key=lambda x: (x[0], x[1])):
                pend.append([qid, it[0], it[1], getattr(it[2], "sid", -1)])
        evq = [w.qidof(q) for q in list.__iter__(loop._event_queues)]
        ml = loop._lock.holder
        out.update(
            trace=list(s.trace), pend=pend, disp=list(w.dispatched), drop=list(w.dropped),
            state=[1 if loop.__dict__.get("_x_fq") else 0, 1 if loop._run_loop else 0, w.qidof(loop.__dict__["_x_aq"]),
                   len(w.queues), 0 if ml is None else ml + 1],
            evq=evq,
            qlocks=[0 if q._lock.holder is None else q._lock.holder + 1 for q in w.queues],
            srcs=sorted([qid, o] for qid, q in enumerate(w.queues) for o in set.__iter__(q._contained_screens)),
            threads=ths, stuck=1 if (any_unfinished and not any_enabled and not all_wait) else 0,
            errors=[st.get("error") for st in states if st.get("error")],
            exited=[1 if st.get("exit") else 0 for st in states])
    except Hang as e:
        out["hang"] = str(e)
    finally:
        s.kill()
        for t in threads:
            t.join(1.0)
        out["leaked"] = sum(1 for t in threads if t.is_alive())
    return out


def s_waits_in_get(w, tid):
    """The parked request of tid is a PriorityQueue.get (on an empty queue when it cannot proceed)."""
    return w.s.parked.get(tid, (None, None))[1] == "get"


def serve():
    sys.path.insert(0, os.path.dirname(os.path.abspath(__file__)))
    import lib
    lib.use_repo()
    import logging
    logging.disable(logging.CRITICAL)
    out = sys.stdout
    sys.stdout = sys.stderr
    for line in sys.stdin:
        line = line.strip()
        if not line:
            continue
        c = json.loads(line)
        r = run_case(c["progs"], c["sched"])
        out.write(json.dumps(r) + "\n")
        out.flush()
        if r.get("hang") or r.get("leaked"):
            os._exit(3)           # contaminated process: let the pool start a fresh one


class ImplPool:
    """Runs cases in a recycled `conc_impl.py --serve` subprocess with a hard per-case timeout."""

    def __init__(self, recycle=1500, case_timeout=20.0):
        self.p = None
        self.n = 0
        self.recycle, self.case_timeout = recycle, case_timeout
        self.restarts = 0

    def _start(self):
        import lib
        self.p = subprocess.Popen([lib.PY, os.path.abspath(__file__), "--serve"], stdin=subprocess.PIPE,
                                  stdout=subprocess.PIPE, stderr=subprocess.DEVNULL, env=lib.ENV, text=True, bufsize=1)
        self.n = 0

    def _stop(self):
        if self.p is not None:
            import lib
            lib.stop_proc(self.p)
            self.p = None

    def run(self, case):
        if self.p is None or self.p.poll() is not None or self.n >= self.recycle:
            self._stop()
            self._start()
        self.n += 1
        try:
            self.p.stdin.write(json.dumps(case) + "\n")
            self.p.stdin.flush()
            r, _, _ = select.select([self.p.stdout], [], [], self.case_timeout)
            if not r:
                self._stop()
                self.restarts += 1
                return dict(hang="no answer within %.0fs (worker killed)" % self.case_timeout)
            line = self.p.stdout.readline()
            if not line:
                self._stop()
                self.restarts += 1
                return dict(hang="worker died")
            res = json.loads(line)
            if res.get("hang") or res.get("leaked"):
                self._stop()
                self.restarts += 1
            return res
        except (BrokenPipeError, OSError) as e:
            self._stop()
            self.restarts += 1
            return dict(hang="pipe: %s" % e)

    def close(self):
        self._stop()


if __name__ == "__main__":
    if len(sys.argv) > 1 and sys.argv[1] == "--serve":
        serve()
