"""c20_diff.py — compare one session's result on the default loop (MainLoop) and on the GLib loop and, when the
observable of property C20 differs, say WHY: which documented behavioural difference of GLibEventLoop the first
divergence is an instance of.  Results are in the format of loop_impl.run_case / glib_impl.run_case /
`bin/model loop` / `bin/model gloop` (they are interchangeable here).

Observable of C20 (`observable`): the sequence of handler invocations (EHandler: handler, signal, data) and marks
(EMark) up to the moment the application quits (the first ERunReturn), and the outcomes of the top-level calls up
to and including the first run().

Classification (`classify`): both traces are reduced to their loop-independent events (`norm`); the first position
where they differ is the point where the two loops, after an identical history, take different steps.  The pair of
steps and the history decide the class (decision list below).  None = no class matches = a violation.
"""

# event codes (LoopWire.v)
ENQ, DROPPED, DISPATCH, REQUEUE, HANDLER, HEND, DEND, NLENTER, NLRETURN, CLOSEPOP, PENTER, PRETURN, FORCEQUIT, QUITCB, \
    RUNENTER, RUNRETURN, KILL, EXT, MARK, USER, SIGNEW, REGHANDLER, REGSOURCE, SETQUITCB, TOP = range(25)

KEYS = {
    "glib-raise-skips-handlers":
        "F9(a): GLibEventLoop runs all handlers of a signal inside one try: a handler that raises stops the remaining handlers of that signal; MainLoop runs them",
    "glib-exception-not-overtaking":
        "F9(b): the ExceptionSignal (priority -20) enqueued for a failed handler does not overtake the sources already in the current GLib dispatch batch; MainLoop dispatches it next",
    "glib-urgent-not-overtaking":
        "F9(b'): a more urgent signal enqueued while a GLib dispatch batch is in progress waits for the end of the batch; MainLoop dispatches it next",
    "glib-exit-batch-continues":
        "F9(c): a handler raising ExitMainLoop does not stop the other sources of the current GLib dispatch batch (the loops are only marked as quit); MainLoop unwinds at once",
    "glib-exit-not-unwinding":
        "F9(c'): ExitMainLoop is swallowed by _run_handlers: the frames below (the handler that opened the nested loop or called process_signals) go on with their next statements; MainLoop unwinds them",
    "glib-close-no-drain":
        "F9(d): MainLoop.close_loop() first processes the top-priority batch of the level it closes, GLibEventLoop.close_loop() pops and quits without draining",
    "glib-mark-after-handlers":
        "F9(e): the waiting ticket of a signal class is marked after the handlers in GLibEventLoop, before them in MainLoop",
    "glib-handler-after-force-quit":
        "F9(f): after a handler called force_quit() GLibEventLoop still runs the remaining handlers of that signal (fix 4181f90 was made in MainLoop only)",
    "glib-after-force-quit":
        "F9(f'): after force_quit() the two loops are left in different states (MainLoop forgets its levels and stops every loop at once; GLibEventLoop keeps its levels, finishes its batches, refuses run() with nested levels left)",
    "glib-process-one-batch":
        "F9(g): process_signals() without return_after: MainLoop goes on with signals of the same priority enqueued meanwhile, GLibEventLoop dispatches one snapshot batch (and an iteration started from inside a handler takes over the rest of the outer batch)",
    "glib-wait-not-stopped":
        "F9(h): process_signals(return_after) ends in MainLoop when its loop is told to stop (close_loop / ExitMainLoop), in GLibEventLoop only when the signal arrives or on force_quit",
    "glib-handlers-bound-at-enqueue":
        "F9(i): GLibEventLoop binds the handler list when the signal is enqueued: a handler registered later for a class that had none then is not invoked (and an ExceptionSignal keeps the kill handler); MainLoop looks the handlers up at dispatch",
    "main-newloop-after-close":
        "F13 seen from C20: execute_new_loop() called after close_loop() in the same handler returns at once in MainLoop (stale _run_loop=False); GLibEventLoop runs the new loop",
    "main-frame-outlives-level":
        "two levels closed from one dispatch (each of two handlers of the signal calls close_loop): MainLoop's frame of the outer closed level keeps running and dispatches from the queue below it; GLibEventLoop's loop of that level ends (the misuse C03/C05 exclude by well-bracketedness)",
    "glib-close-last-level":
        "F9(j): close_loop() with no nested level open: MainLoop raises ExitMainLoop, GLibEventLoop pops its only level (later calls fail with IndexError / ValueError)",
    "glib-wait-finishes-batch":
        "F9(h'): process_signals(return_after) returns in MainLoop right after the dispatch of the awaited signal, in GLibEventLoop only after the whole dispatch batch containing it",
}

_KEEP = {DISPATCH, HANDLER, HEND, MARK, SIGNEW, ENQ, DROPPED, NLENTER, NLRETURN, CLOSEPOP, FORCEQUIT, QUITCB, RUNENTER,
         RUNRETURN, KILL, EXT, TOP, REGHANDLER, REGSOURCE, SETQUITCB}


def upto_quit(trace):
    out = []
    for e in trace:
        out.append(e)
        if e[0] == RUNRETURN:
            break
    return out


def observable(case, res):
    """[outcomes up to the first run(), [EHandler/EMark ... up to the first ERunReturn]]"""
    acts = case[2]
    n = len(acts)
    for k, a in enumerate(acts):
        if a[0] == 1:
            n = k + 1
            break
    return [res[0][:n], [e for e in upto_quit(res[1]) if e[0] in (HANDLER, MARK)]]


def norm(trace):
    """loop-independent events with their raw positions; plain process_signals() brackets, re-queues and
    dispatch ends are dropped (MainLoop.close_loop logs an inner process_signals(), GLib's does not)."""
    out = []
    for j, e in enumerate(upto_quit(trace)):
        if e[0] in _KEEP or (e[0] in (PENTER, PRETURN) and e[1]):
            out.append((e[:2] if e[0] == DISPATCH else e, j))
    return out


def first_divergence(main, glib):
    nm, ng = norm(main[1]), norm(glib[1])
    k = 0
    while k < min(len(nm), len(ng)) and nm[k][0] == ng[k][0]:
        k += 1
    return k, nm, ng


class _Hist(object):
    """what the common prefix of the two normalised traces tells"""

    def __init__(self, prefix):
        self.levels = [0]            # GLib's view (force_quit does not forget them)
        self.emptied = False
        self.fq = False              # force_quit in effect
        self.fq_ever = False         # MainLoop.force_quit forgot the levels for good (run() does not restore them)
        self.waits = {}              # (cls, ticket) -> position of the EProcEnter of a wait
        self.prio = {}
        self.cls = {}
        self.enq_at = {}             # sid -> position of its enqueue
        self.enq_level = {}
        self.disp_at = {}
        self.reg_at = {}             # cls -> position of the first handler registration
        self.last_he = None          # the last Handler/HandlerEnd event
        self.last = None
        self.open_disp = []          # dispatches begun (sid), innermost last — approximated: never closed here
        for pos, (e, _) in enumerate(prefix):
            k = e[0]
            if k == SIGNEW:
                self.cls[e[1]] = e[2]; self.prio[e[1]] = e[3]
            elif k == ENQ:
                self.enq_at[e[1]] = pos; self.enq_level[e[1]] = e[2]
            elif k == DISPATCH:
                self.disp_at[e[1]] = pos
            elif k == REGHANDLER:
                self.reg_at.setdefault(e[1], pos)
            elif k == NLENTER:
                self.levels.append(e[1])
            elif k == CLOSEPOP:
                if self.levels:
                    self.levels.pop()
                if not self.levels:
                    self.emptied = True
            elif k == FORCEQUIT:
                self.fq = True; self.fq_ever = True
            elif k == PENTER:
                self.waits[(e[1][0], e[2])] = pos
            elif k == RUNENTER:
                self.fq = False
            if k in (HANDLER, HEND):
                self.last_he = e
            self.last = e
        self.pending = [s for s in self.enq_at if s not in self.disp_at]


def _main_in_close_drain(main_raw, upto):
    """is MainLoop, at raw position `upto`, inside the process_signals() that close_loop() runs first?
    (a plain process_signals bracket that is open, in a trace where the GLib side logged none: decided by the caller)"""
    depth = 0
    for e in main_raw[:upto]:
        if e[0] == PENTER and not e[1]:
            depth += 1
        elif e[0] == PRETURN and not e[1]:
            depth -= 1
    return depth > 0


def _open_plain_proc(raw, upto):
    """number of plain process_signals() calls open at raw position upto (exception unwinding ignored)"""
    d = 0
    for e in raw[:upto]:
        if e[0] == PENTER and not e[1]:
            d += 1
        elif e[0] == PRETURN and not e[1]:
            d -= 1
    return d


def classify(case, main, glib):
    """-> (key | None, description of the divergence)"""
    k, nm, ng = first_divergence(main, glib)
    em = nm[k][0] if k < len(nm) else None
    eg = ng[k][0] if k < len(ng) else None
    jm = nm[k][1] if k < len(nm) else len(upto_quit(main[1]))
    jg = ng[k][1] if k < len(ng) else len(upto_quit(glib[1]))
    h = _Hist(nm[:k])
    km = em[0] if em else None
    kg = eg[0] if eg else None
    desc = dict(at=k, main_next=em, glib_next=eg, last_common=h.last)
    main_raw, glib_raw = main[1], glib[1]

    def ret(key):
        return key, desc

    # -- the event sequences are the same to the end: only the outcome of a top-level call differs
    if em is None and eg is None:
        om, og = main[0], glib[0]
        j = next((j for j in range(min(len(om), len(og))) if om[j] != og[j]), None)
        desc["outcomes"] = [om, og]
        # a handler raised ExitMainLoop under a process_signals() / execute_new_loop() called from OUTSIDE run():
        # MainLoop lets it escape that top-level call (outcome 1), GLibEventLoop swallowed it in _run_handlers (outcome 0)
        if j is not None and om[j] == 1 and og[j] == 0 and any(e[0] == HEND and e[3] == [1] for e, _ in nm):
            return ret("glib-exit-not-unwinding")
    # -- misuse: the only level was closed
    if h.emptied:
        return ret("glib-close-last-level")
    # -- (d) MainLoop is draining inside close_loop(), GLib popped at once
    plain_m, plain_g = _open_plain_proc(main_raw, jm), _open_plain_proc(glib_raw, jg)
    if kg == CLOSEPOP and km != CLOSEPOP and plain_m > plain_g:
        return ret("glib-close-no-drain")
    # -- (a) the next handler of the same signal after a raising one
    if km == HANDLER and h.last_he and h.last_he[0] == HEND and h.last_he[2] == em[2] and h.last_he[3] == [2] \
            and not (kg == HANDLER and eg[2] == em[2]):
        return ret("glib-raise-skips-handlers")
    # -- force_quit
    if h.fq:
        if kg == HANDLER and h.last_he and h.last_he[0] == HEND and h.last_he[2] == eg[2]:
            return ret("glib-handler-after-force-quit")
        return ret("glib-after-force-quit")
    # -- (c) ExitMainLoop: MainLoop is unwinding
    if h.last_he and h.last_he[0] == HEND and h.last_he[3] == [1]:
        if kg == DISPATCH:
            return ret("glib-exit-batch-continues")
        return ret("glib-exit-not-unwinding")
    # -- F13: MainLoop's new loop returns before dispatching anything
    if km == NLRETURN:
        opened = [p for p, (e, _) in enumerate(nm[:k]) if e[0] == NLENTER and e[1] == em[1]]
        if opened and not any(e[0] == DISPATCH for e, _ in nm[opened[-1]:k]) and \
                any(e[0] == CLOSEPOP for e, _ in nm[:opened[-1]]):
            return ret("main-newloop-after-close")
    # -- a level closed while a deeper loop was still open: MainLoop's frame of that level lives on
    if kg == NLRETURN and km != NLRETURN and any(e[0] == CLOSEPOP and e[1] == eg[1] for e, _ in nm[:k]):
        return ret("main-frame-outlives-level")
    # -- handlers bound at enqueue time
    if km == HANDLER and em[2] in h.enq_at and h.cls.get(em[2]) in h.reg_at \
            and h.reg_at[h.cls[em[2]]] > h.enq_at[em[2]] and not (kg == HANDLER and eg[2] == em[2]):
        return ret("glib-handlers-bound-at-enqueue")
    if kg == KILL and km == HANDLER and h.cls.get(em[2]) == 0:
        return ret("glib-handlers-bound-at-enqueue")
    # -- a wait that MainLoop ends because its loop was told to stop
    if km == PRETURN and kg != PRETURN:
        start = h.waits.get((em[1][0], em[2]), 0)
        released = any(e[0] == DISPATCH and h.cls.get(e[1]) == em[1][0] for e, _ in nm[start:k])
        return ret("glib-wait-finishes-batch" if released else "glib-wait-not-stopped")
    # -- both dispatch, but different signals
    if km == DISPATCH and kg == DISPATCH:
        x, y = em[1], eg[1]
        px, py = h.prio.get(x), h.prio.get(y)
        if px is not None and py is not None and px < py:
            return ret("glib-exception-not-overtaking" if h.cls.get(x) == 0 else "glib-urgent-not-overtaking")
    if km == KILL and kg == DISPATCH:
        return ret("glib-exception-not-overtaking")
    # -- MainLoop goes on dispatching inside a plain process_signals(), GLib's single iteration is over
    if km == DISPATCH and plain_m > plain_g:
        return ret("glib-process-one-batch")
    if kg == DISPATCH and plain_g > plain_m:
        return ret("glib-process-one-batch")
    if h.fq_ever:
        return ret("glib-after-force-quit")
    return None, desc
