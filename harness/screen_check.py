"""screen_check.py — the shared check of the screen-layer properties C04, C05, C06, C07, C08, C18
(and the separator clause of C17).

For one property P:
  1. generate application sessions (screen specs + typed lines), run each on the real
     App/ScreenScheduler/UIScreen/InputManager/InputHandler/InputThreadManager/MainLoop in recycled worker
     subprocesses (harness/screen_worker.py; typed lines are released when the loop is idle);
  2. run the extracted model (ScreenSem.v) on the same sessions and compare outcomes, final stack, open levels
     and P's projection of the event trace — the correspondence;
  3. evaluate P's extracted acceptor (ScreenMon.v: the very function the theorem is about) on the
     IMPLEMENTATION's trace.  A rejection is a concrete violation (the session is the replay).
A session on which the implementation hangs is compared with the model run on generous fuel: a model that also
diverges (out of fuel in wait_on_input) is finding F14; a model that terminates is a violation.
"""
import os, json, copy
import lib, screen_impl, screen_gen

EV = {0: 'Enq', 1: 'Dropped', 2: 'Dispatch', 3: 'Requeue', 4: 'Handler', 5: 'HandlerEnd', 6: 'DispatchEnd',
      7: 'NewLoopEnter', 8: 'NewLoopReturn', 9: 'ClosePop', 10: 'ProcEnter', 11: 'ProcReturn', 12: 'ForceQuit',
      13: 'QuitCb', 14: 'RunEnter', 15: 'RunReturn', 16: 'Kill', 17: 'Ext', 18: 'Mark', 19: 'U', 20: 'SigNew',
      21: 'RegHandler', 22: 'RegSource', 23: 'SetQuitCb', 24: 'Top'}
UT = {22: 'SETUP_BEGIN', 1: 'SETUP', 2: 'REFRESH', 3: 'SHOW', 4: 'SEPARATOR', 5: 'PROMPT', 7: 'INPUT', 8: 'CLOSED', 10: 'MODAL_RETURN',
      11: 'REFUSED', 12: 'READY', 13: 'GOT', 14: 'MARK', 15: 'STACK', 16: 'ASK', 17: 'OP', 18: 'REQ', 19: 'ACTION', 20: 'WAITED'}

MON = {"C04": 4, "C05": 5, "C06": 6, "C07": 7, "C08": 8, "C18": 18, "C17": 17, "C09": 9, "C02": 2}
# which user-event tags / loop events each property's correspondence compares
PROJ_U = {
    "C04": {1, 2, 3, 4, 15, 17, 22}, "C05": {1, 2, 3, 7, 10, 12, 15, 17, 22}, "C06": {5, 7, 12, 18}, "C07": {7, 19, 17, 18, 10},
    "C08": {1, 2, 3, 8, 15, 17, 22}, "C18": {5, 11, 12, 13, 16, 20}, "C17": {3, 4}, "C09": {8, 15, 17, 10}, "C02": set(),
}
PROJ_L = {
    "C04": {24}, "C05": {7, 8, 9, 24}, "C06": {4, 5, 17, 24}, "C07": {0, 1, 4, 5, 20, 24}, "C08": {24}, "C18": {4, 5, 17, 24}, "C17": {24},
    "C09": {5, 7, 8, 9, 12, 13, 14, 15, 16, 24},
    "C02": {2, 4, 5, 6, 14, 15, 16, 24},        # dispatch frames, handler starts and ends (with their outcome), the kill, run() returning
}


def show(e):
    if e[0] == 19:
        return "%s %s %r" % (UT.get(e[1], e[1]), e[2], "".join(chr(x) for x in e[3]))
    return "%s %s" % (EV.get(e[0], e[0]), e[1:])


def pretty(trace, upto=None, last=60):
    t = trace if upto is None else trace[:upto + 1]
    off = max(0, len(t) - last)
    return ["%d %s" % (off + k, show(e)) for k, e in enumerate(t[off:])]


def project(prop, res):
    tr = [e for e in res[1] if (e[0] == 19 and e[1] in PROJ_U[prop]) or (e[0] != 19 and e[0] in PROJ_L[prop])]
    if prop == "C07":
        # the follow-up action is read off the signals created / enqueued / dropped and the handlers' ends; the SOURCE of
        # a new signal is not C07's business (and differs for PasswordDialog's own blocking request: AdvWidgets.v, gap G3)
        tr = [e[:4] if (e[0] == 20 and e[2] != 1) else e for e in tr]      # render signals keep their source (chk_C07 reads it)
    return [res[0], tr, res[2], res[3]]


def mon_case(prop_code, case, trace):
    return [prop_code, case[2], case[3], [s[8] for s in case[1]], trace]


def monitors(code, pairs):
    out = []
    CH = 1500
    if code in (9, 2):     # C09 / C02 on application sessions: the loop-level acceptor (Monitors.v) on the session's trace
        for a in range(0, len(pairs), CH):
            out += lib.model_run("mon", [[code, t] for c, t in pairs[a:a + CH]])
        return out
    for a in range(0, len(pairs), CH):
        out += lib.model_run("smon", [mon_case(code, c, t) for c, t in pairs[a:a + CH]])
    return out


def nontrivial(prop, res):
    us = [e for e in res[1] if e[0] == 19]
    tags = [e[1] for e in us]
    if prop == "C04":      # >= 3 stack operations of >= 2 kinds
        ops = [e[2][0] for e in us if e[1] == 17]
        return len(ops) >= 3 and len(set(ops)) >= 2
    if prop == "C05":      # an input handled inside a modal screen while an entry lies beneath
        depth = 0
        for e in res[1]:
            if e[0] == 7:
                depth += 1
            elif e[0] == 9:
                depth -= 1
            elif e[0] == 19 and e[1] == 7 and depth >= 1:
                return True
        return False
    if prop == "C06":      # >= 3 lines reaching >= 2 screens
        ins = [e[2][0] for e in us if e[1] == 7]
        return len(ins) >= 3 and len(set(ins)) >= 2
    if prop == "C07":      # >= 5 consecutive rejections, or a quit dialog answered
        run = 0
        for e in us:
            if e[1] == 19:
                run = run + 1 if e[2][1] == 4 else 0
                if run >= 5 or e[2][1] == 3:
                    return True
        return False
    if prop == "C08":      # a screen shown >= 2 times or a failing setup
        shows = [e[2][1] for e in us if e[1] == 3]
        return len(shows) != len(set(shows)) or any(e[1] == 1 and e[2][3] == 0 for e in us)
    if prop == "C18":      # overlapping requests (a refusal, a re-printed prompt or a failed ready signal)
        return any((e[1] == 11) or (e[1] == 5 and e[2][1] == 1) or (e[1] == 12 and e[2][1] == 0) for e in us)
    if prop == "C17":
        return tags.count(3) >= 2
    if prop == "C02":      # a callback failed (handler ended with an ordinary exception) and the application went on or was killed
        return any(e[0] == 5 and e[3] == [2] for e in res[1])
    if prop == "C09":      # the application ended (or was told to) while a modal level was open or screens remained
        return any(e[0] == 12 or (e[0] == 5 and e[3] == [1]) for e in res[1]) and any(e[0] == 7 for e in res[1])
    return False


SESSION_WIDTH = 80          # GlobalConfiguration's default width, which the worker sessions use
MAX_NESTING = 25


def handler_nesting(trace):
    """greatest number of handler invocations open at the same time (a callback that waits for input or opens a modal
    screen runs further handlers inside itself).  CPython's recursion limit (1000 frames) is reached at about 60 such
    levels: the RecursionError is then an ordinary exception of some handler and the session no longer says anything
    about the library; sessions nesting deeper than MAX_NESTING are therefore discarded (counted)."""
    d = best = 0
    for e in trace:
        if e[0] == 4:
            d += 1; best = max(best, d)
        elif e[0] == 5:
            d -= 1
    return best


def delivered_texts(trace):
    return ["".join(chr(x) for x in e[3]) for e in trace if e[0] == 19 and e[1] == 7]


def out_of_order(case, trace):
    """index of the first T_INPUT whose text cannot be matched, in typed order, after the lines delivered before it
    (None: the deliveries are typed lines in typed order; EOF counts as the empty line)"""
    typed = ["".join(chr(x) for x in t[0]) if t else "" for t in case[2]]
    pos = 0
    for k, e in enumerate(trace):
        if e[0] == 19 and e[1] == 7:
            text = "".join(chr(x) for x in e[3])
            while pos < len(typed) and typed[pos] != text:
                pos += 1
            if pos == len(typed):
                return k if text in typed else None        # a text that was never typed is the acceptor's business
            pos += 1
    return None


def wrong_discard_before(before):
    """finding F19 happened in this prefix: a setup() with commands of its own (T_SETUP_BEGIN) returned False for entry f and
    the next stack primitive popped another entry"""
    us = [e for e in before if e[0] == 19]
    for k, e in enumerate(us):
        if e[1] == 1 and e[2][3] == 0 and any(x[1] == 22 and x[2][0] == e[2][0] for x in us[:k]):
            nxt = next((x for x in us[k + 1:] if x[1] == 15), None)
            if nxt is not None and nxt[2][0] == 2 and nxt[2][1] != e[2][0]:
                return True
    return False


def classify(prop, case, res, idx, model=None):
    ev = res[1][idx]
    kind = UT.get(ev[1], str(ev[1])) if ev[0] == 19 else EV.get(ev[0], str(ev[0]))
    if prop == "C05" and kind == "MODAL_RETURN" and wrong_discard_before(res[1][:idx]):
        # finding F19 seen from C05: the entry whose setup() failed is MODAL, its setup() had pushed another screen: the
        # scheduler discards the pushed screen and closes the modal loop; push_screen_modal returns although its own entry
        # is still on the stack
        return "failed-setup-after-stack-change:wrong-entry-discarded"
    if prop == "C05" and kind == "MODAL_RETURN":
        r = lib.model_run("smon", [mon_case(105, case, res[1])])[0]
        if r[0] == 1:
            return "modal-push-after-close-in-same-callback"
    before = res[1][:idx]
    if prop in ("C04", "C08"):
        # finding F19: a setup() that ran commands of its own (T_SETUP_BEGIN) changed the stack and then reported failure:
        # the scheduler discards `self._screen_stack.pop()`, i.e. whatever is on top at that moment (or fails on an empty
        # stack), not the entry whose setup failed
        us = [e for e in before if e[0] == 19]
        if us and us[-1][1] == 1 and us[-1][2][3] == 0:
            f = us[-1][2][0]
            began = any(e[1] == 22 and e[2][0] == f for e in us)
            pops_f = ev[0] == 19 and ev[1] == 15 and ev[2][0] == 2 and ev[2][1] == f
            if began and not pops_f:
                return "failed-setup-after-stack-change:wrong-entry-discarded"
    if prop == "C05" and kind == "INPUT":
        # finding F16: (2) run() again after a force-quit; (1) the same screen object twice on the stack
        if any(e[0] == 12 for e in before) and sum(1 for e in before if e[0] == 14) >= 2:
            return "input-beneath-modal:rerun-after-force-quit"
        stack, twice = [], False
        for e in before:
            if e[0] == 19 and e[1] == 15:
                k, eid, scr = e[2][0], e[2][1], e[2][2]
                if k == 0:
                    stack.append(scr)
                elif k == 1:
                    stack.insert(0, scr)
                elif stack:
                    stack.pop()
                twice = twice or len(stack) != len(set(stack))
        if twice:
            return "input-beneath-modal:same-screen-twice-on-stack"
        # (3) a prompt that outlived the stack entry of its screen: the entry that asked was popped before the line
        # arrived, and the screen object has (or gets) another entry beneath an open modal screen
        ready = [e for e in before if e[0] == 19 and e[1] == 12 and e[2][1] == 1]
        if ready:
            n = ready[-1][2][0]
            for k, e in enumerate(before):
                if e[0] == 19 and e[1] == 18 and e[2][2] == n and e[2][0] == ev[2][0]:
                    if any(x[0] == 19 and x[1] == 15 and x[2][0] == 2 and x[2][2] == ev[2][0] for x in before[k:]):
                        return "input-beneath-modal:prompt-outlived-its-entry"
                    # (4) the prompt was issued for a screen that was never processed (re-prompt of a freshly pushed top
                    # screen after a rejected line): it is registered as a signal source nowhere, its ready signal falls
                    # back to the active (modal) level
                    if not any(x[0] == 22 and x[1] == ev[2][0] for x in before[:k]):
                        return "input-beneath-modal:prompt-for-unregistered-screen"
                    # (5) _process_screen asked on behalf of a screen whose entry was no longer the top one (the top
                    # changed during show_all(), after the only re-check)
                    st5 = []
                    for x in before[:k]:
                        if x[0] == 19 and x[1] == 15:
                            if x[2][0] == 0:
                                st5.append(x[2][2])
                            elif x[2][0] == 1:
                                st5.insert(0, x[2][2])
                            elif st5:
                                st5.pop()
                    if st5 and st5[-1] != ev[2][0]:
                        return "input-beneath-modal:prompt-after-top-changed"
        # every mechanism of F16 has one root: a ready signal is routed by the registration of its SOURCE screen in the
        # loop levels, not by the position of that screen on the stack.  The faithful model (validated event for event
        # against the code) reproduces that routing; a T_INPUT beneath an open modal screen that the MODEL performs too,
        # after an identical history, is this finding.  One that the model does not perform is reported as new.
        if model is not None and model[1][:idx + 1] == res[1][:idx + 1]:
            return "input-beneath-modal:routed-by-source-registration"
    if prop == "C06" and kind == "INPUT":
        # finding F15: InputManager._input_args is one slot per screen: a LATER request of the same screen
        # (refused, or still outstanding) overwrote the args of the request this line answers
        ready = [e for e in before if e[0] == 19 and e[1] == 12 and e[2][1] == 1]
        if ready:
            n = ready[-1][2][0]
            reqs = [e[2] for e in before if e[0] == 19 and e[1] == 18]           # [scr, args, handler]
            mine = [r for r in reqs if r[2] == n]
            if mine and mine[0][0] == ev[2][0] and mine[0][1] != ev[2][1] and ready[-1][3] == ev[3]:
                later = [r for r in reqs if r[0] == ev[2][0] and r[2] > n and r[1] == ev[2][1]]
                if later:
                    return "args-overwritten-by-later-request-of-same-screen"
    return "%s:%s" % (prop, kind)


def gen_cases(prop, tier, rng):
    n = dict(quick=1500, thorough=40000)[tier]
    cases = []
    for k in range(n):
        r = rng.random()
        cases.append(screen_gen.gen_case(rng, plausible=(r < 0.7), malformed=(r > 0.88)))
    for k in range(n // 3):
        # C17 (what the framework writes during a session): also the overlapping-prompt family, where a prompt is re-printed
        cases.append(screen_gen.gen_focus_case(rng, "C18" if (prop == "C17" and k % 2) else prop))
    for k in range(n // 6):
        # setup() callbacks that push / schedule / replace / close screens, emit signals or raise before reporting their result
        cases.append(screen_gen.gen_setup_case(rng))
    if prop == "C07":
        # ~15 % sessions with the REAL stock dialogs of render/adv_widgets.py (YesNoDialog as quit dialog, ...): 7-element cases,
        # the model runs on the specs of coq/theories/AdvWidgets.v (harness/adv_specs.py, checks/adv_corr.py)
        for k in range(n // 4):
            cases.append(screen_gen.gen_adv_case(rng, with_error=True, with_password=(k % 3 == 0)))      # PasswordDialog: an answer that is neither True, False nor None
        # ... and the hand-written stock-dialog sessions of checks/adv_corr.py (every dialog as quit dialog / pushed modally /
        # scheduled, rejection streaks, the quit dialog that is never rendered, the remembered answer)
        import importlib.util
        sp = importlib.util.spec_from_file_location("adv_corr", os.path.join(lib.VERIF, "checks", "adv_corr.py"))
        adv_corr = importlib.util.module_from_spec(sp); sp.loader.exec_module(adv_corr)
        cases = adv_corr.fixed_cases() + cases
    return cases


def run(chk, tier, prop):
    cases = corpus_cases(prop) + gen_cases(prop, tier, chk.rng)
    # a changed implementation that hangs on a large share of the sessions would eat the whole time limit (every hang costs a
    # per-case time-out): when more than 40 of the first 400 sessions hang, judge those 400 and leave the rest
    impl = screen_impl.run_cases(cases[:400], nproc=14)
    if sum(1 for i in impl if i and i[0] == "HANG") > 40:
        cases = cases[:400]
        chk.hist("many-hangs:judged-the-first-400-sessions-only")
    else:
        impl += screen_impl.run_cases(cases[400:], nproc=14)
    kept, kimpl, hangs = [], [], []
    for c, i in zip(cases, impl):
        chk.count()
        if i[0] == "HANG":
            hangs.append(c); chk.hist("impl:hang"); continue
        if i[0] == "ERROR":
            chk.hist("impl:error")
            chk.violation("harness-error", "the implementation worker failed on a session: %s" % str(i[1])[:300],
                          dict(kind="screen", prop=prop, case=c, error=i[1]), found=False)
            continue
        if 5 in i[0]:
            chk.hist("discarded:step-limit"); continue
        if handler_nesting(i[1]) > MAX_NESTING:
            chk.hist("discarded:handler-nesting>%d" % MAX_NESTING); continue
        c = copy.deepcopy(c); c[0] = 100 + 6 * len(i[1])
        kept.append(c); kimpl.append(i)
        chk.hist("outcome=%s" % (i[0][-1] if i[0] else "none"))
    # sessions on which the implementation did not come back within the short limit
    nretry = 0
    nhang_viol = 0
    for c in hangs:
        if nhang_viol >= 3:
            chk.hist("hang:not-examined(3 hanging sessions already reported)"); continue
        c2 = copy.deepcopy(c); c2[0] = 4000
        m = lib.model_run("screen", [c2[:6]])[0]
        if m[0] and m[0][-1] == 5:
            chk.hist("hang:model-diverges-too(F14)")       # wait_on_input spins after the loops were told to stop
            if prop == "C09":
                chk.violation("blocking-wait-spins-after-stop", "wait_on_input spins after the loops were told to stop",
                              dict(kind="screen", prop=prop, case=c), found=True)
            continue
        # the model finishes: run the session once more, alone, with a generous limit (a loaded machine must not
        # produce alarms); only a session that hangs twice counts as hanging
        if nretry >= 10:
            chk.hist("hang:not-retried"); continue
        nretry += 1
        again = screen_impl.run_alone(c)
        if again and again[0] in ("HANG", "ERROR"):
            chk.violation("impl-hangs", "the implementation hangs on a session that the model finishes with outcomes %s" % m[0],
                          dict(kind="screen", prop=prop, case=c, model_tail=pretty(m[1])[-30:]), found=True)
            nhang_viol += 1
        elif 5 not in again[0]:
            chk.hist("hang:slow-machine-retry-ok")
            c3 = copy.deepcopy(c); c3[0] = 100 + 6 * len(again[1])
            kept.append(c3); kimpl.append(again)
    models = []
    CH = 2000
    for a in range(0, len(kept), CH):
        models += lib.model_run_tolerant("screen", [c[:6] for c in kept[a:a + CH]], timeout=180, floor=15)       # c[6], when present: kinds (worker side only)
    verdicts = monitors(MON[prop], [(c, i[1]) for c, i in zip(kept, kimpl)])
    nbad = 0
    for c, i, m, v in zip(kept, kimpl, models, verdicts):
        if nontrivial(prop, i):
            chk.nontriv(c)
        if len(chk.samples) < 2 and len(i[1]) > 60:
            chk.sample(dict(session=c, implementation_trace=[show(e) for e in i[1] if e[0] == 19][:50], outcomes=i[0]))
        if prop == "C17" and len(i) > 4:
            # everything the session wrote to the console: no carriage return, backspace, escape, tab, VT, FF, DEL
            # (the sessions' own texts contain none of them)
            badc = sorted({ch for ch in i[4] if ord(ch) in (8, 9, 11, 12, 13, 27, 127)})
            if badc:
                pos = min(i[4].index(ch) for ch in badc)
                chk.violation("control-char-in-session-output",
                              "C17_append_only / C17_charset_framework: the session's console output contains %r (…%r…)" % (badc, i[4][max(0, pos - 30):pos + 10]),
                              dict(kind="screen", prop=prop, case=c, output_excerpt=i[4][max(0, pos - 200):pos + 50]), found=True)
                nbad += 1
                continue
            # ... and what the framework hands to getpass for a hidden input is wrapped like every other prompt: no line of it,
            # ignoring trailing blanks, is longer than the configured width (C17_width_prompt)
            long_ = [l for p_ in (i[5] if len(i) > 5 else []) for l in p_.split("\n") if len(l.rstrip()) > SESSION_WIDTH]
            if long_:
                chk.violation("line-wider-than-width",
                              "C17_width_prompt: the prompt of a hidden input has a line of %d characters (width %d): %r"
                              % (len(long_[0].rstrip()), SESSION_WIDTH, long_[0][:120]),
                              dict(kind="screen", prop=prop, case=c, line=long_[0]), found=True)
                nbad += 1
                continue
        if m is None:
            chk.violation("corr:%s" % prop, "the implementation finishes a session on which the proved model, given fuel for the "
                          "implementation's trace length, gives no answer in time: implementation and model disagree",
                          dict(kind="screen", prop=prop, case=c, trace=pretty(i[1])[-40:]), found=False)
            nbad += 1
            continue
        if v[0] == 0:
            key = classify(prop, c, i, v[1], m)
            chk.violation(key, "%s acceptor rejects the implementation's own trace at event %d: %s" % (prop, v[1], show(i[1][v[1]])),
                          dict(kind="screen", prop=prop, case=c, rejected_index=v[1], trace=pretty(i[1], v[1])), found=True)
            nbad += 1
        elif prop == "C06" and out_of_order(c, i[1]) is not None:
            # "lines are delivered in the order typed", evaluated directly on the implementation's trace: the texts of the
            # successful deliveries, in delivery order, must be typed lines in typed order
            k = out_of_order(c, i[1])
            same = (m[1][:k + 1] == i[1][:k + 1])
            key = "lines-out-of-order:ready-signal-waits-in-outer-level" if same else "C06:lines-out-of-order"
            chk.violation(key, "C06: a typed line is delivered before an earlier one (event %d: %s); delivered so far: %r"
                          % (k, show(i[1][k]), delivered_texts(i[1][:k + 1])),
                          dict(kind="screen", prop=prop, case=c, rejected_index=k, trace=pretty(i[1], k)), found=True)
            nbad += 1
        elif project(prop, i[:4]) != project(prop, m[:4]):
            pi, pm = project(prop, i[:4]), project(prop, m[:4])
            # liveness-type failures: the theorem-backed model performs a step that the implementation never
            # performs before it comes to rest (blocked): a concrete failure, not just a disagreement
            MISSING = {"C18": (12, None, "a requester is never told that its request failed/succeeded (ready signal)"),
                       "C06": (12, 1, "a typed line was consumed but never delivered to the requester"),
                       "C05": (10, None, "a modal push whose screen was closed/discarded never returned to its caller")}
            if prop in MISSING and i[0] and i[0][-1] == 4:
                tag, flag, text = MISSING[prop]
                sel = lambda t: [e[2][:2] for e in t if e[0] == 19 and e[1] == tag and (flag is None or e[2][1] == flag)]
                ri, rm = sel(i[1]), sel(m[1])
                if len(ri) < len(rm) and ri == rm[:len(ri)]:
                    chk.violation("%s:%s-missing" % (prop, UT[tag]), "%s: the model performs %s, the implementation only %s and then waits for ever" % (text, rm, ri),
                                  dict(kind="screen", prop=prop, case=c, trace=pretty(i[1])), found=True)
                    nbad += 1
                    continue
            k = next((k for k in range(min(len(pi[1]), len(pm[1]))) if pi[1][k] != pm[1][k]), min(len(pi[1]), len(pm[1])))
            chk.violation("corr:%s" % prop,
                          "implementation and model disagree on the %s-relevant part of a session (first difference at projected event %d; the acceptor still accepts the implementation trace)" % (prop, k),
                          dict(kind="screen", prop=prop, case=c, impl=[show(e) for e in pi[1][max(0, k - 10):k + 3]],
                               model=[show(e) for e in pm[1][max(0, k - 10):k + 3]], outcomes=[i[0], m[0]],
                               stacks=[i[2], m[2]], levels=[i[3], m[3]]), found=False)
            nbad += 1
        if nbad > 30:
            break
    chk.extra["sessions_compared"] = len(kept)
    chk.extra["sessions_hanging_in_both_model_and_implementation"] = len(hangs)


def corpus_cases(prop):
    import os
    p = os.path.join(lib.VERIF, "corpus", "screen")
    out = []
    if os.path.isdir(p):
        for f in sorted(os.listdir(p)):
            if f.endswith(".json"):
                d = json.load(open(os.path.join(p, f)))
                out.append(d["case"])         # every corpus session is a valid session for every screen-layer property
    return out


def replay(path, prop):
    d = json.load(open(path))["replay"]
    c = d["case"]
    i = screen_impl.run_cases([c])[0]
    if i[0] in ("HANG", "ERROR"):
        print("implementation:", i[0]); return 1
    c2 = copy.deepcopy(c); c2[0] = 100 + 6 * len(i[1])
    m = lib.model_run("screen", [c2[:6]])[0]
    v = monitors(MON[prop], [(c, i[1])])[0]
    print("outcomes impl/model:", i[0], m[0])
    print("acceptor on the implementation trace:", "REJECTED at %d" % v[1] if v[0] == 0 else "accepted")
    for l in pretty(i[1], v[1] if v[0] == 0 else None, last=40):
        print("  ", l)
    same = project(prop, i[:4]) == project(prop, m[:4])
    print("correspondence on the %s projection: %s" % (prop, "equal" if same else "DIFFERENT"))
    return 1 if (v[0] == 0 or not same) else 0
