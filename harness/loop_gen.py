"""loop_gen.py — generator of event-loop cases (format: coq/theories/drv/Drv_loop.v)."""
PRIOS = [-20, -5, 0, 0, 0, 0, 1, 7]
FUEL = 3000


def opt(x):
    return [] if x is None else [x]


def gen_case(rng, malformed=False, nest=True):
    ncls = rng.randrange(1, 5)
    nh = rng.randrange(1, 7)
    classes = list(range(1, ncls + 1))
    srcs = [None, None, 1, 2, 3]

    def enq(kind=0):
        return [kind, rng.choice(classes + ([0] if rng.random() < 0.05 else [])), rng.choice(PRIOS), opt(rng.choice(srcs))]

    def body(depth=0):
        cmds = []
        for _ in range(rng.randrange(0, 4)):
            r = rng.random()
            if r < 0.30:
                cmds.append([9, rng.randrange(1, 3), [enq() for _ in range(rng.randrange(1, 3))], []])
            elif r < 0.40:
                cmds.append([10, rng.randrange(100)])
            elif r < 0.48:
                cmds.append([9, rng.randrange(1, 3), [[1]], []] if rng.random() < 0.7 else [1])
            elif r < 0.53:
                cmds.append([2] if rng.random() < 0.5 else [9, rng.randrange(1, 4), [], [[2]]])
            elif r < 0.56:
                cmds.append([3])
            elif r < 0.66 and nest:
                cmds.append([9, rng.randrange(1, 3), [enq(4)], []])
            elif r < 0.74 and nest:
                cmds.append([5] if rng.random() < 0.6 else [9, 1, [[5]], []])
            elif r < 0.84:
                cmds.append([9, rng.randrange(1, 3), [[6, opt(rng.choice([None, None] + classes))]], []])
            elif r < 0.88:
                cmds.append([7, rng.choice([1, 2, 3])])
            elif r < 0.93:
                cmds.append([8, rng.choice(classes), rng.randrange(nh), rng.randrange(10)])
            elif r < 0.97:
                cmds.append([11] + enq()[1:])
            else:
                cmds.append([9, 1, [enq(), enq()], [[10, 1]]])
        if rng.random() < 0.06:
            cmds.append([12, rng.randrange(100)])              # set_quit_callback() while the loop is running
        return cmds

    bodies = [body() for _ in range(nh)]
    setup = [0]
    for c in classes:
        for _ in range(rng.choice([0, 1, 1, 2, 3])):
            setup.append([8, c, rng.randrange(nh), rng.randrange(10)])
    if rng.random() < 0.25:
        setup.append([8, 0, rng.randrange(nh), 0])         # an application handler for ExceptionSignal
    if rng.random() < 0.5:
        setup.append([12, rng.randrange(100)])
    for _ in range(rng.randrange(0, 3)):
        setup.append([7, rng.choice([1, 2, 3])])
    for _ in range(rng.choice([1, 2, 3, 5, 8, 12, 25])):
        setup.append(enq())
    for _ in range(rng.randrange(0, 3)):
        setup.append([11] + enq()[1:])
    actions = [setup, [1]]
    if malformed:
        extra = rng.choice([[0, [5]], [0, [5], [5]], [0, [3], enq(), [6, []]], [0, [6, []]], [1], [0, [2]],
                            [0, [4] + enq()[1:]]])
        actions.insert(rng.randrange(0, 3), extra)
    if rng.random() < 0.15:
        actions.append([0, [6, []]])
        actions.append([1])
    return [FUEL, bodies, actions]


def gen_ties_case(rng):
    """Many signals over two or three priorities, handlers that enqueue more ties and call the partial
    batch form from inside handlers (re-queue path)."""
    prios = rng.choice([[0], [0, 0, 1], [-5, 0], [0, 7, 7], [-20, 0]])
    nh = 4
    bodies = [
        [[9, 3, [[0, 1, rng.choice(prios), []], [0, 2, rng.choice(prios), []]], []]],
        [[9, 2, [[6, []]], []], [10, 1]],
        [[10, 2]],
        [[9, 1, [[0, 3, rng.choice(prios), []]], [[10, 3]]]],
    ]
    setup = [0, [8, 1, 0, 1], [8, 2, 1, 2], [8, 3, 2, 3], [8, 1, 3, 4]]
    if rng.random() < 0.5:
        setup.append([8, 2, 2, 9])
    for _ in range(rng.randrange(4, 40)):
        setup.append([0, rng.choice([1, 2, 3]), rng.choice(prios), []])
    for _ in range(rng.randrange(0, 4)):
        setup.append([11, rng.choice([1, 2, 3]), rng.choice(prios), []])
    acts = [setup]
    if rng.random() < 0.4:
        acts.append([0, [6, []]])
    acts.append([1])
    return [FUEL, bodies, acts]


def gen_nested_case(rng, prop="C03"):
    """Well-bracketed nesting to depth D: class 10+d opens level d+1; inside each level a worker handler
    enqueues to sources registered at several levels, waits / drains, then closes its level."""
    if rng.random() < 0.2:
        # a source registered at level 0 is registered AGAIN inside a nested level; that level is closed; later nested
        # loops run while the source emits: the outer registration must still hold the signals for level 0
        src = rng.choice([100, 101, 102])
        again = [9, rng.choice([1, 1, 2]), [[7, src]], []]              # re-register in the first nested loop(s) only
        emit = [0, rng.choice([1, 2]), rng.choice(PRIOS), [src]]
        inner = [again] + [emit for _ in range(rng.randrange(1, 3))] + ([[6, []]] if rng.random() < 0.3 else []) + [[5]]
        opener = [[4, 11, 0, opt(rng.choice([None, src]))]] + ([emit] if rng.random() < 0.4 else [])
        bodies = [opener, inner, [[10, 1]], [[10, 2]]]
        setup = [0, [8, 10, 0, 0], [8, 11, 1, 1], [8, 1, 2, 2], [8, 2, 3, 3]]
        if rng.random() < 0.6:
            setup.append([7, src])
        # else: the source is registered ONLY inside the first nested loop(s); once those are closed it belongs to no level:
        # what it emits in a later nested loop goes to that (the active) loop, not to level 0
        if rng.random() < 0.5:
            setup.append([12, 5])
        for _ in range(rng.randrange(2, 5)):
            setup.append([0, 10, rng.choice([0, 0, 1]), []])             # several nested loops, one after another
            if rng.random() < 0.5:
                setup.append(emit)
        return [FUEL, bodies, [setup, [1]]]
    D = rng.randrange(1, 5)
    bodies = []
    setup = [0]
    hid = 0
    for d in range(D):
        opener = 10 + d
        body = []
        if rng.random() < 0.7:
            body.append([7, 100 + d])                     # register a source at this level
        for _ in range(rng.randrange(0, 3)):
            body.append([0, rng.choice([1, 2]), rng.choice(PRIOS), opt(rng.choice([None, 100, 101, 102, 103]))])
        # open the next level (or work) on the first invocation only
        nxt = [4, opener + 1, 0, opt(rng.choice([None, 100 + d]))]
        body.append([9, 1, [nxt], []])
        if prop == "C10" and rng.random() < 0.7:
            body.append([9, 1, [[6, [rng.choice([1, 2])]]], []])
        if d > 0:
            body.append([9, 1, [[5]], []] if rng.random() < 0.85 else [5])
        bodies.append(body)
        setup.append([8, opener, hid, d])
        hid += 1
    # innermost worker (class 10+D): enqueue outward, maybe wait, close
    inner = [[0, rng.choice([1, 2]), rng.choice(PRIOS), opt(rng.choice([None, 100, 101, 102]))] for _ in range(rng.randrange(0, 4))]
    if rng.random() < 0.3:
        inner.append([6, []])
    if prop == "C09" and rng.random() < 0.5:
        inner.append(rng.choice([[2], [3], [9, 1, [[2]], []]]))
    inner.append([5])
    bodies.append(inner); setup.append([8, 10 + D, hid, 9]); hid += 1
    # plain workers for classes 1, 2
    w1 = [[10, 1]] + ([[9, 2, [[0, 2, rng.choice(PRIOS), opt(rng.choice([None, 100, 101]))]], []]] if rng.random() < 0.6 else [])
    if prop == "C10" and rng.random() < 0.6:
        # a worker that itself waits for the other class: nested waiters released by a dispatch inside the nested call
        w1.append([9, 2, [[0, 2, 0, []], [6, [2]]], []])
    w2 = [[10, 2]] + ([[9, 1, [[1]], []]] if rng.random() < 0.3 else [])
    bodies += [w1, w2]
    setup += [[8, 1, hid, 1], [8, 2, hid + 1, 2]]
    if rng.random() < 0.5:
        setup.append([8, 1, hid + 1, 7])
    if rng.random() < 0.5:
        setup.append([12, 5])
    setup.append([7, 100])
    for _ in range(rng.randrange(0, 6)):
        setup.append([0, rng.choice([1, 2]), rng.choice(PRIOS), opt(rng.choice([None, 100]))])
    setup.append([0, 10, 0, []])
    for _ in range(rng.randrange(0, 3)):
        setup.append([0, rng.choice([1, 2]), rng.choice(PRIOS), opt(rng.choice([None, 100]))])
    if rng.random() < 0.3:
        setup.append([11, rng.choice([1, 2]), 0, opt(rng.choice([None, 100, 101]))])
    return [FUEL, bodies, [setup, [1]]]


def gen_rearm_case(rng):
    """Handlers that re-enqueue the very signal object they are handling ("re-arming"), among ties.
    The 4th element maps handler id -> [cls, prio, src] so that the model case can spell the re-arm as an
    ordinary enqueue of one more signal of that class (see loop_check.model_case)."""
    p = rng.choice([0, 0, 1, -5])
    ncls = 3
    bodies = [[[10, 1], [9, rng.randrange(1, 3), [[13]], []]],          # handler 0: class 1, re-arms itself
              [[10, 2]] + ([[9, 1, [[0, 1, p, []]], []]] if rng.random() < 0.5 else []),
              [[10, 3], [9, 1, [[13]], []]]]                            # handler 2: class 3, re-arms once
    rearm = {0: [1, p, []], 2: [3, p, []]}
    setup = [0, [8, 1, 0, 1], [8, 2, 1, 2], [8, 3, 2, 3]]
    for _ in range(rng.randrange(3, 12)):
        setup.append([0, rng.choice([1, 2, 2, 3]), p, []])
    if rng.random() < 0.4:
        setup.append([0, 2, p + 1, []])
    return [FUEL, bodies, [setup, [1]], rearm]
