"""loop_gen.py — generator of event-loop cases (format: coq/theories/drv/Drv_loop.v)."""
PRIOS = [-20, -5, 0, 0, 0, 0, 1, 7]
FUEL = 3000


def opt(x):
    return [] if x is None else [x]


def gen_case(rng, malformed=False, nest=True):
    ncls = rng.randrange(1, 5)
    nh = rng.randrange(1, 7)
    classes = list(range(1, ncls + 1))
    srcs = [None, None, 1, 2, 3]

    def enq(kind=0):
        return [kind, rng.choice(classes + ([0] if rng.random() < 0.05 else [])), rng.choice(PRIOS), opt(rng.choice(srcs))]

    def body(depth=0):
        cmds = []
        for _ in range(rng.randrange(0, 4)):
            r = rng.random()
            if r < 0.30:
                cmds.append([9, rng.randrange(1, 3), [enq() for _ in range(rng.randrange(1, 3))], []])
            elif r < 0.40:
                cmds.append([10, rng.randrange(100)])
            elif r < 0.48:
                cmds.append([9, rng.randrange(1, 3), [[1]], []] if rng.random() < 0.7 else [1])
            elif r < 0.53:
                cmds.append([2] if rng.random() < 0.5 else [9, rng.randrange(1, 4), [], [[2]]])
            elif r < 0.56:
                cmds.append([3])
            elif r < 0.66 and nest:
                cmds.append([9, rng.randrange(1, 3), [enq(4)], []])
            elif r < 0.74 and nest:
                cmds.append([5] if rng.random() < 0.6 else [9, 1, [[5]], []])
            elif r < 0.84:
                cmds.append([9, rng.randrange(1, 3), [[6, opt(rng.choice([None, None] + classes))]], []])
            elif r < 0.88:
                cmds.append([7, rng.choice([1, 2, 3])])
            elif r < 0.93:
                cmds.append([8, rng.choice(classes), rng.randrange(nh), rng.randrange(10)])
            elif r < 0.97:
                cmds.append([11] + enq()[1:])
            else:
                cmds.append([9, 1, [enq(), enq()], [[10, 1]]])
        return cmds

    bodies = [body() for _ in range(nh)]
    setup = [0]
    for c in classes:
        for _ in range(rng.choice([0, 1, 1, 2, 3])):
            setup.append([8, c, rng.randrange(nh), rng.randrange(10)])
    if rng.random() < 0.25:
        setup.append([8, 0, rng.randrange(nh), 0])         # an application handler for ExceptionSignal
    if rng.random() < 0.5:
        setup.append([12, rng.randrange(100)])
    for _ in range(rng.randrange(0, 3)):
        setup.append([7, rng.choice([1, 2, 3])])
    for _ in range(rng.choice([1, 2, 3, 5, 8, 12, 25])):
        setup.append(enq())
    for _ in range(rng.randrange(0, 3)):
        setup.append([11] + enq()[1:])
    actions = [setup, [1]]
    if malformed:
        extra = rng.choice([[0, [5]], [0, [5], [5]], [0, [3], enq(), [6, []]], [0, [6, []]], [1], [0, [2]],
                            [0, [4] + enq()[1:]]])
        actions.insert(rng.randrange(0, 3), extra)
    if rng.random() < 0.15:
        actions.append([0, [6, []]])
        actions.append([1])
    return [FUEL, bodies, actions]
