"""c20_gen.py — sessions shaped like the screen scheduler's use of the loop (render/close chains, modal = nested loop,
guarded by invocation counters): about one in three falls into the fragment of theorem C20_agree_partial."""
import random
def gen_frag_case(rng):
    ncls = rng.randrange(1, 4)
    classes = list(range(1, ncls + 1))
    nh = rng.randrange(1, 5)
    srcs = [None, None, None, 50, 100, 101]
    def sig(kind):
        s = rng.choice(srcs)
        return [kind, rng.choice(classes), rng.choice([0, 0, 0, -5, 3]), [] if s is None else [s]]
    def branch(last):
        cmds = []
        for _ in range(rng.randrange(0, 4)):
            r = rng.random()
            if r < 0.35: cmds.append([10, rng.randrange(20)])
            elif r < 0.55: cmds.append([7, rng.choice([100, 101, 102])])
            elif r < 0.85 and not last: cmds.append(sig(4))     # never in the branch that repeats: unbounded nesting
            elif r < 0.93: cmds.append([8, rng.choice(classes), rng.randrange(nh), rng.randrange(5)])
            else: cmds.append([12, rng.randrange(9)])
        r = rng.random()
        if last and r < 0.40: r = 0.99                    # the repeating branch enqueues nothing: every session ends
        if r < 0.40: cmds.append(sig(0))
        elif r < 0.65: cmds.append([5])
        elif r < 0.80: cmds.append([2])
        return cmds
    def chain(k):
        bs = [branch(i == k - 1) for i in range(k)]
        out = bs[-1]
        for i in range(k - 2, -1, -1):
            out = [[9, i + 1, bs[i], out]]
        return out
    bodies = [chain(rng.randrange(1, 5)) for _ in range(nh)]
    setup = [0]
    for c in classes:
        for _ in range(rng.choice([1, 1, 1, 2])):
            setup.append([8, c, rng.randrange(nh), rng.randrange(5)])
    if rng.random() < 0.3: setup.append([12, 7])
    if rng.random() < 0.3: setup.append([7, 100])
    setup.append(sig(0))
    acts = [setup, [1]]
    if rng.random() < 0.2:
        acts.append([0, sig(0)]); acts.append([1])
    return [600, bodies, acts]
