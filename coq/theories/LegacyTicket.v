(* LegacyTicket.v — how AbstractEventLoop used its TicketMachine BEFORE commit 7e1f12d
   ("fix: waiting for a signal is keyed by the signal class, not by its name"):
     _register_wait_on_signal      : take_ticket(wait_on_signal.__name__)
     _mark_signal_processed        : mark_line_to_go(signal.__class__.__name__)
     _check_if_signal_processed    : check_ticket(wait_on_signal.__name__, unique_id)
   A class is a nat (as in LoopSem); [name] gives its __name__, which two distinct classes may share
   (classes of the same name defined in different modules).  Definitions only; the statements are in
   props/C10.v.  The current code is the instance [name := fun c => c]. *)
From Coq Require Import List.
From SL Require Import LoopSem.

Section Legacy.
  Variable name : nat -> nat.

  Definition legacy_register_wait (tm : tmachine) (cls : nat) : nat * tmachine :=
    take_ticket tm (name cls).
  Definition legacy_mark_processed (tm : tmachine) (cls : nat) : tmachine :=
    mark_line_to_go tm (name cls).
  Definition legacy_check_processed (tm : tmachine) (cls id : nat) : option (bool * tmachine) :=
    check_ticket tm (name cls) id.

  (* a waiter registers for [waited]; a signal of class [dispatched] is processed; the waiter checks *)
  Definition legacy_wait_then_dispatch (tm : tmachine) (waited dispatched : nat) : option bool :=
    let '(id, tm1) := legacy_register_wait tm waited in
    option_map fst (legacy_check_processed (legacy_mark_processed tm1 dispatched) waited id).
End Legacy.
