(* Drv_wwrite — wire entry for the C11 correspondence on histories of one widget:
   Widget.write(..., wordwrap=True) after earlier writes / set_cursor_position (TextWrite.v).
   case   = (buffer (row col) maxw? (op ...))
            buffer = ((codepoints) ...)     initial content ; (row col) initial cursor ; maxw? = () | (z)
   op     = (0 text row? col? width? block)       write(text, row, col, width, block, wordwrap=True)
                                                  text = (codepoints ((chunk ...) ...)) as in Drv_render
          | (1 codepoints row? col? width? block) write(text, row, col, width, block)
          | (2 row col)                           set_cursor_position(row, col)
            row? / col? / width? = () means "not given" (None)
   result = (r ...) one r per op:  (0 buffer (row col))  state after the op
                                 | (1) ValueError, (4) TypeError : state unchanged, the history goes on
                                 | (2) outside the model, (3) chunk contract violated : nothing follows *)
From Coq Require Import ZArith NArith List Bool.
From SL Require Import Sx PyInt Widget TextWrap TextWrite.
Import ListNotations.

Inductive op :=
| OWrap (t : text) (row col : option nat) (width : option Z) (block : bool)
| OPlain (s : list char) (row col : option nat) (width : option Z) (block : bool)
| OCursor (row col : nat).

Definition as_text (s : sx) : option text :=
  match as_pair as_str (as_list (as_list as_str)) s with
  | Some (t, c) => Some {| t_text := t; t_chunks := c |}
  | None => None
  end.

Definition as_op (s : sx) : option op :=
  match s with
  | L [I 0%Z; t; r; c; w; bl] =>
    match as_text t, as_opt as_nat r, as_opt as_nat c, as_opt as_Z w, as_bool bl with
    | Some t, Some r, Some c, Some w, Some bl => Some (OWrap t r c w bl)
    | _, _, _, _, _ => None
    end
  | L [I 1%Z; t; r; c; w; bl] =>
    match as_str t, as_opt as_nat r, as_opt as_nat c, as_opt as_Z w, as_bool bl with
    | Some t, Some r, Some c, Some w, Some bl => Some (OPlain t r c w bl)
    | _, _, _, _, _ => None
    end
  | L [I 2%Z; r; c] =>
    match as_nat r, as_nat c with
    | Some r, Some c => Some (OCursor r c)
    | _, _ => None
    end
  | _ => None
  end.

Definition state := (buffer * (nat * nat))%type.

Definition of_state (st : state) : sx :=
  L [I 0%Z; of_list of_str (fst st); of_pair of_nat of_nat (snd st)].

(* the answer for this op and the state to go on with (None: stop) *)
Definition step (maxw : option Z) (st : state) (o : op) : sx * option state :=
  match o with
  | OWrap t r c w bl =>
    if chunks_ok t then
      match write_wrapped (fst st) (snd st) maxw t r c w bl with
      | WOk b cur => (of_state (b, cur), Some (b, cur))
      | WValueError => (L [I 1%Z], Some st)
      | WTypeError => (L [I 4%Z], Some st)
      | WOutOfModel => (L [I 2%Z], None)
      end
    else (L [I 3%Z], None)
  | OPlain s r c w bl =>
    match write_plain (fst st) (snd st) maxw s r c w bl with
    | Some st' => (of_state st', Some st')
    | None => (L [I 2%Z], None)
    end
  | OCursor r c => let st' := (fst st, (r, c)) in (of_state st', Some st')
  end.

Fixpoint run_ops (maxw : option Z) (st : state) (ops : list op) : list sx :=
  match ops with
  | [] => []
  | o :: rest =>
    match step maxw st o with
    | (r, Some st') => r :: run_ops maxw st' rest
    | (r, None) => [r]
    end
  end.

Definition run (s : sx) : sx :=
  match s with
  | L [b; cur; mw; ops] =>
    do buf <- as_list as_str b;
    do cur <- as_pair as_nat as_nat cur;
    do maxw <- as_opt as_Z mw;
    do ops <- as_list as_op ops;
    L (run_ops maxw (buf, cur) ops)
  | _ => bad_input
  end.
