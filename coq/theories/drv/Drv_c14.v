(* Drv_c14 — wire entry for the C14 correspondence.
   case   = (pattern items key)
            pattern = () | ((prefix suffix offset))
            items   = ((cb? data) ...)      cb? = () | (id)
            key     = () for a non-string | (codepoints)
   result = (handled ((cb data) ...) (label_0 ... label_n-1)) *)
From Coq Require Import ZArith NArith List.
From SL Require Import Sx PyInt KeyPattern.
Import ListNotations.

Definition as_pattern (s : sx) : option key_pattern :=
  match s with
  | L [p; q; o] =>
    match as_str p, as_str q, as_Z o with
    | Some p, Some q, Some o => Some {| kp_prefix := p; kp_suffix := q; kp_offset := o |}
    | _, _, _ => None
    end
  | _ => None
  end.

Definition as_item (s : sx) : option item :=
  match as_pair (as_opt as_nat) as_nat s with
  | Some (c, d) => Some {| it_callback := c; it_data := d |}
  | None => None
  end.

Definition as_key (s : sx) : option key :=
  match as_opt as_str s with
  | Some (Some k) => Some (KStr k)
  | Some None => Some KNotStr
  | None => None
  end.

Definition run (s : sx) : sx :=
  match s with
  | L [p; its; k] =>
    do kp <- as_opt as_pattern p;
    do items <- as_list as_item its;
    do key <- as_key k;
    let r := process_user_input kp items key in
    L [ of_bool (fst r);
        of_list (of_pair of_nat of_nat) (snd r);
        match kp with
        | Some kp => of_list of_str (map (get_widget_label kp) (seq 0 (length items)))
        | None => L []
        end ]
  | _ => bad_input
  end.
