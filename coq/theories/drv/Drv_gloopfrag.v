(* Drv_gloopfrag — is a session in the fragment of C20_agree_partial?  case as Drv_loop; result = (0|1). *)
From Coq Require Import ZArith NArith List Bool.
From SL Require Import Sx LoopSem LoopProg LoopWire GLibFrag drv.Drv_loop.
Import ListNotations.

Definition run (s : sx) : sx :=
  match s with
  | L [fu; bs; acts] =>
    do fuel <- as_nat fu;
    do bodies <- as_list (as_list (as_cmd 50)) bs;
    do actions <- as_list as_action acts;
    L [ if in_fragment (handler_prog bodies) fuel (map top_of actions) [] then I 1%Z else I 0%Z ]
  | _ => bad_input
  end.
