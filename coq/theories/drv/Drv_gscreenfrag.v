(* Drv_gscreenfrag — is an application session (case format of Drv_screen) in the fragment of
   C20_applications_agree_partial?  result = (0|1). *)
From Coq Require Import ZArith NArith List Bool.
From SL Require Import Sx PyInt LoopSem LoopWire ScreenSem GLibApp drv.Drv_screen.
Import ListNotations.

Definition run (s : sx) : sx :=
  match s with
  | L [fu; sps; ty; qu; re; acts] =>
    do fuel <- as_nat fu;
    do specl <- as_list as_spec sps;
    do typed <- as_list (as_opt as_str) ty;
    do quit <- as_opt as_nat qu;
    do run_empty <- as_bool re;
    do actions <- as_list as_saction acts;
    let specs := fun n => nth n specl default_spec in
    L [ if in_app_fragment specs specl typed quit run_empty fuel actions then I 1%Z else I 0%Z ]
  | _ => bad_input
  end.
