(* Drv_prompt — wire entry for the prompt correspondence (C12).
   case   = (message? ops extra)
            message? = () for None | ((codepoints))
            op  = (0 k d) add_option | (1 k d) update_option | (2 k) remove_option | (3 message?) set_message
                | (4 d) add_refresh_option | (5 d) add_continue_option | (6 d) add_quit_option | (7 d) add_help_option
            extra = () | ((width chunks))   chunks = the chunk oracle of str(prompt), one chunk list per source line
   result = (str(prompt)  ((k d) ...) = list(options.items())  text_prompt?)
            text_prompt? = () | ((0 codepoints)) | ((1)) ValueError | ((2)) out of model | ((3)) chunk contract violated *)
From Coq Require Import ZArith NArith List Bool.
From SL Require Import Sx PyInt Widget TextWrap Prompt.
Import ListNotations.

Definition as_pop (s : sx) : option pop :=
  match s with
  | L [I 0%Z; k; d] => match as_str k, as_str d with Some k, Some d => Some (PAdd k d) | _, _ => None end
  | L [I 1%Z; k; d] => match as_str k, as_str d with Some k, Some d => Some (PUpdate k d) | _, _ => None end
  | L [I 2%Z; k] => option_map PRemove (as_str k)
  | L [I 3%Z; m] => option_map PSetMsg (as_opt as_str m)
  | L [I 4%Z; d] => option_map PAddRefresh (as_str d)
  | L [I 5%Z; d] => option_map PAddContinue (as_str d)
  | L [I 6%Z; d] => option_map PAddQuit (as_str d)
  | L [I 7%Z; d] => option_map PAddHelp (as_str d)
  | _ => None
  end.

Definition of_text_prompt (s : str) (extra : option (Z * list (list str))) : sx :=
  match extra with
  | None => L []
  | Some (width, chunks) =>
    let t := {| t_text := s; t_chunks := chunks |} in
    if chunks_ok t then
      match text_prompt t width with
      | ROk r => L [L [I 0%Z; of_str r]]
      | RValueError => L [L [I 1%Z]]
      | ROutOfModel => L [L [I 2%Z]]
      end
    else L [L [I 3%Z]]
  end.

Definition run (s : sx) : sx :=
  match s with
  | L [m; os; ex] =>
    do m0 <- as_opt as_str m;
    do ops <- as_list as_pop os;
    do extra <- as_opt (as_pair as_Z (as_list (as_list as_str))) ex;
    let p := run_pops (new_prompt m0) ops in
    let str_p := prompt_str p in
    L [ of_str str_p; of_list (of_pair of_str of_str) (p_options p); of_text_prompt str_p extra ]
  | _ => bad_input
  end.
