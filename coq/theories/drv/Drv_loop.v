(* Drv_loop — wire entry for the event-loop correspondence (C01, C02, C03, C09, C10).
   case   = (fuel (body ...) (action ...))      body = (cmd ...) for handler id = position
            action = (0 cmd ...) commands executed from outside any handler | (1) loop.run()
   cmd    = (0 cls prio src?) enqueue | (1) raise | (2) exit | (3) force_quit | (4 cls prio src?) new loop
          | (5) close_loop | (6 cls?) process_signals | (7 o) register source | (8 cls hid data) register handler
          | (9 k (then) (else)) | (10 tag) mark | (11 cls prio src?) ext | (12 arg) set quit callback
   result = ((outcome ...) (event ...) ((qid (sid ...)) ...) (level ...) active)
            outcome per executed action: 0 normal | 1 ExitMainLoop | 2 Exception | 3 SystemExit | 4 blocked | 5 fuel *)
From Coq Require Import ZArith NArith List Bool.
From SL Require Import Sx LoopSem LoopProg LoopWire.
Import ListNotations.

Fixpoint as_cmd (fuel : nat) (s : sx) : option cmd :=
  match fuel with
  | O => None
  | S f =>
    match s with
    | L [I 0%Z; c; p; src] =>
      match as_nat c, as_Z p, as_opt as_nat src with Some c, Some p, Some src => Some (CmEnqueue c p src) | _, _, _ => None end
    | L [I 1%Z] => Some CmRaise
    | L [I 2%Z] => Some CmExit
    | L [I 3%Z] => Some CmForceQuit
    | L [I 4%Z; c; p; src] =>
      match as_nat c, as_Z p, as_opt as_nat src with Some c, Some p, Some src => Some (CmNewLoop c p src) | _, _, _ => None end
    | L [I 5%Z] => Some CmCloseLoop
    | L [I 6%Z; r] => option_map CmProcess (as_opt as_nat r)
    | L [I 7%Z; o] => option_map CmRegSource (as_nat o)
    | L [I 8%Z; c; h; d] =>
      match as_nat c, as_nat h, as_nat d with Some c, Some h, Some d => Some (CmRegHandler c h d) | _, _, _ => None end
    | L [I 9%Z; k; t; e] =>
      match as_nat k, as_list (as_cmd f) t, as_list (as_cmd f) e with
      | Some k, Some t, Some e => Some (CmIfCount k t e) | _, _, _ => None end
    | L [I 10%Z; t] => option_map CmMark (as_nat t)
    | L [I 11%Z; c; p; src] =>
      match as_nat c, as_Z p, as_opt as_nat src with Some c, Some p, Some src => Some (CmExt c p src) | _, _, _ => None end
    | L [I 12%Z; a] => option_map CmSetQuitCb (as_nat a)
    | _ => None
    end
  end.

Inductive action := ACmds (l : list cmd) | ARun.
Definition as_action (s : sx) : option action :=
  match s with
  | L (I 0%Z :: r) => option_map ACmds (all_some (map (as_cmd 50) r))
  | L [I 1%Z] => Some ARun
  | _ => None
  end.

Definition of_outcome (o : outcome) : sx :=
  match o with ONormal => I 0%Z | OThrow e => of_exn e | OBlocked => I 4%Z | OFuel => I 5%Z end.

(* drain order of a queue object: what successive get() calls would return *)
Fixpoint drain (fuel : nat) (q : equeue) : list nat :=
  match fuel with
  | O => []
  | S f => match q_pop q with Some ((_, _, sg), q') => sg_id sg :: drain f q' | None => [] end
  end.

Definition top_of (a : action) : top counters :=
  match a with ACmds l => TProg (compile_cmds 0 l) | ARun => TRun end.

Definition run (s : sx) : sx :=
  match s with
  | L [fu; bs; acts] =>
    do fuel <- as_nat fu;
    do bodies <- as_list (as_list (as_cmd 50)) bs;
    do actions <- as_list as_action acts;
    let '(os, st) := run_session (handler_prog bodies) fuel (map top_of actions) (init_state []) in
    L [ of_list of_outcome os;
        of_list of_event (rev (trace st));
        L (map (fun iq => L [of_nat (fst iq); of_list of_nat (drain (S (length (eq_entries (snd iq)))) (snd iq))])
               (combine (seq 0 (length (qstore st))) (qstore st)));
        of_list of_nat (levels st);
        of_nat (active st) ]
  | _ => bad_input
  end.
