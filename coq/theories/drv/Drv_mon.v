(* Drv_mon — evaluate a property monitor on a trace (model's or implementation's).
   case = (property trace)   property = 1 | 2 | 3 | 9 | 10 ; trace = (event ...) oldest first
   result = (1) accepted | (0 index-of-first-rejected-event) *)
From Coq Require Import ZArith NArith List Bool.
From SL Require Import Sx LoopSem LoopWire Monitors.
Import ListNotations.

Definition run (s : sx) : sx :=
  match s with
  | L [I p; t] =>
    do tr <- as_list as_event t;
    let chk := match p with
               | 1%Z => Some chk_C01 | 2%Z => Some chk_C02 | 3%Z => Some chk_C03
               | 9%Z => Some chk_C09 | 10%Z => Some chk_C10 | 103%Z => Some chk_C03_partial | _ => None end in
    match chk with
    | Some c => match run_mon c world0 tr 0 with None => L [I 1%Z] | Some i => L [I 0%Z; of_nat i] end
    | None => bad_input
    end
  | _ => bad_input
  end.
