(* Drv_parseint — case = (codepoints) ; result = () | (z) : the model of Python's int(str). *)
From Coq Require Import ZArith NArith List.
From SL Require Import Sx PyInt.
Import ListNotations.
Definition run (s : sx) : sx :=
  do str <- as_str s;
  of_opt I (parse_int str).
