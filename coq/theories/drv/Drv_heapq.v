(* Drv_heapq — wire entry for the correspondence of Heapq.v with CPython's real heapq (checks/heapq_corr.py).
   case   = (op ...)  on an initially empty list      op = (0 p c id) heappush(heap, (p, c, id)) | (1) heappop(heap)
   result = (status (pop ...) (entry ...))
            status  0 = every internal call returned Done
                    1 / 2 = an internal IndexError / OutOfFuel happened (HeapqProofs.v: impossible) and the run stopped
            pop     = ((p c id)) the popped tuple | () IndexError: pop from an empty list (the list is unchanged)
            entry   = (p c id): the final list, in list order
   The run uses heappush_res / heappop_res; by heappush_res_ok / heappop_res_ok these are heappush / heappop. *)
From Coq Require Import ZArith NArith List Bool.
From SL Require Import Sx LoopSem.
Require Import SL.Heapq.
Import ListNotations.

Definition mk_entry (p : Z) (c id : nat) : entry :=
  (p, c, mk_signal id {| sp_cls := 1; sp_prio := p; sp_src := None; sp_a := 0; sp_b := false; sp_data := [] |}).
Definition of_entry (e : entry) : sx :=
  let '(p, c, s) := e in L [I p; of_nat c; of_nat (sg_id s)].

Inductive op := Push (e : entry) | Pop.
Definition as_op (s : sx) : option op :=
  match s with
  | L [I 0%Z; p; c; id] =>
    match as_Z p, as_nat c, as_nat id with
    | Some p, Some c, Some id => Some (Push (mk_entry p c id))
    | _, _, _ => None
    end
  | L [I 1%Z] => Some Pop
  | _ => None
  end.

(* popped: newest first *)
Fixpoint exec_ops (ops : list op) (heap : list entry) (popped : list sx) : Z * list sx * list entry :=
  match ops with
  | [] => (0%Z, popped, heap)
  | Push e :: r =>
    match heappush_res heap e with
    | Done h => exec_ops r h popped
    | IndexError => (1%Z, popped, heap)
    | OutOfFuel => (2%Z, popped, heap)
    end
  | Pop :: r =>
    match heappop_res heap with
    | Done (m, h) => exec_ops r h (L [of_entry m] :: popped)
    | IndexError =>
      match heap with
      | [] => exec_ops r heap (L [] :: popped)
      | _ => (1%Z, popped, heap)
      end
    | OutOfFuel => (2%Z, popped, heap)
    end
  end.

Definition run (s : sx) : sx :=
  do ops <- as_list as_op s;
  let '(st, popped, heap) := exec_ops ops [] [] in
  L [I st; L (rev popped); of_list of_entry heap].
