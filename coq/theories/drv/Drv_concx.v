(* Drv_concx — enumeration of interleavings for the C19 thorough tier (L4, Conc.v).
   case   = (progs pre fuel cap)    progs as in Drv_conc; pre = schedule prefix run first
   result = ((tid ...) ...)         every maximal stutter-free schedule from the state after [pre]
                                    (depth <= fuel; at most cap of them, depth-first order).
   By ConcProofs.steps_stutter_free every schedule reaches the same state as its stutter-free
   sub-schedule, so this enumeration covers every interleaving of the given programs. *)
From Coq Require Import ZArith NArith List Bool.
From SL Require Import Sx Conc drv.Drv_conc.
Import ListNotations.

Definition run (s : sx) : sx :=
  match s with
  | L [ps; pre; fuel; cap] =>
    do progs <- as_progs ps;
    do pre <- as_list as_nat pre;
    do fuel <- as_nat fuel;
    do cap <- as_nat cap;
    of_list (of_list of_nat) (rev (snd (explore fuel (steps pre (init progs)) [] (cap, []))))
  | _ => bad_input
  end.
