(* Drv_paging — wire entry for the paging correspondence (C12).
   case   = (lines height)          lines = ((codepoints) ...), height = integer (any sign)
   result = (event ...)             event = (0 codepoints) printed line | (1) press-ENTER prompt | (2) out of fuel
   case   = (lines height typed)    typed = ((codepoints) ...) the lines the user types, in order
   result = ((event ...) (left ...) status)     left = typed lines not consumed; status = 0 done | 1 blocked at a prompt | 2 out of fuel *)
From Coq Require Import ZArith NArith List.
From SL Require Import Sx PyInt Widget Paging.
Import ListNotations.

Definition of_pevent (e : pevent) : sx :=
  match e with
  | PPrint l => L [I 0%Z; of_str l]
  | PAskContinue => L [I 1%Z]
  | POutOfFuel => L [I 2%Z]
  end.

Definition of_pstatus (st : pstatus) : sx :=
  match st with PgDone => I 0%Z | PgBlocked => I 1%Z | PgOutOfFuel => I 2%Z end.

Definition run (s : sx) : sx :=
  match s with
  | L [ls; h] =>
    do lines <- as_list as_str ls;
    do height <- as_Z h;
    of_list of_pevent (print_widget lines height)
  | L [ls; h; ty] =>
    do lines <- as_list as_str ls;
    do height <- as_Z h;
    do typed <- as_list as_str ty;
    let r := print_widget_in lines height typed in
    L [ of_list of_pevent (pr_events r); of_list of_str (pr_left r); of_pstatus (pr_status r) ]
  | _ => bad_input
  end.
