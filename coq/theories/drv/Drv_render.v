(* Drv_render — wire entry for every rendering correspondence (C11, C12, C13, C15, C16, C17).
   case   = (tree width)
   tree   = (0 text) | (1 n) | (2 tree) | (3 ((cw? (tree ...)) ...) spacing) | (4 text (text ...))
          | (5 kind columns (tree ...) forced? spacing pattern?) | (6 title? (tree ...))
   text   = (codepoints ((chunk ...) ...))       one chunk list per source line (the oracle)
   result = (0 (line ...)) | (1) ValueError | (2) out of model | (3) chunk contract violated *)
From Coq Require Import ZArith NArith List Bool.
From SL Require Import Sx PyInt Widget TextWrap KeyPattern Containers.
Import ListNotations.

Definition as_text (s : sx) : option text :=
  match as_pair as_str (as_list (as_list as_str)) s with
  | Some (t, c) => Some {| t_text := t; t_chunks := c |}
  | None => None
  end.

Definition as_pattern (s : sx) : option key_pattern :=
  match s with
  | L [p; q; o] =>
    match as_str p, as_str q, as_Z o with
    | Some p, Some q, Some o => Some {| kp_prefix := p; kp_suffix := q; kp_offset := o |}
    | _, _, _ => None
    end
  | _ => None
  end.

Fixpoint as_tree (fuel : nat) (s : sx) : option wtree :=
  match fuel with
  | O => None
  | S f =>
    match s with
    | L [I 0%Z; t] => option_map WText (as_text t)
    | L [I 1%Z; n] => option_map WSep (as_nat n)
    | L [I 2%Z; c] => option_map WCenter (as_tree f c)
    | L [I 3%Z; cols; sp] =>
      match as_list (as_pair (as_opt as_Z) (as_list (as_tree f))) cols, as_Z sp with
      | Some cols, Some sp => Some (WColumn cols sp)
      | _, _ => None
      end
    | L [I 4%Z; box; data] =>
      match as_text box, as_list as_text data with
      | Some b, Some d => Some (WCheckbox b d)
      | _, _ => None
      end
    | L [I 5%Z; kind; columns; items; forced; sp; pat] =>
      match as_bool kind, as_Z columns, as_list (as_tree f) items, as_opt as_Z forced, as_Z sp, as_opt as_pattern pat with
      | Some k, Some c, Some its, Some fo, Some sp, Some kp =>
        Some (WList (if k then KCol else KRow) c its fo sp kp)
      | _, _, _, _, _, _ => None
      end
    | L [I 6%Z; title; items] =>
      match as_opt as_text title, as_list (as_tree f) items with
      | Some t, Some its => Some (WWindow t its)
      | _, _ => None
      end
    | _ => None
    end
  end.

Fixpoint tree_chunks_ok (fuel : nat) (w : wtree) : bool :=
  match fuel with
  | O => false
  | S f =>
    match w with
    | WText t => chunks_ok t
    | WSep _ => true
    | WCenter c => tree_chunks_ok f c
    | WColumn cols _ => forallb (fun c => forallb (tree_chunks_ok f) (snd c)) cols
    | WCheckbox b d => chunks_ok b && forallb chunks_ok d
    | WList _ _ items _ _ _ => forallb (tree_chunks_ok f) items
    | WWindow t items => match t with Some t => chunks_ok t | None => true end && forallb (tree_chunks_ok f) items
    end
  end.

Definition of_rres (r : rres buffer) : sx :=
  match r with
  | ROk b => L [I 0%Z; of_list of_str b]
  | RValueError => L [I 1%Z]
  | ROutOfModel => L [I 2%Z]
  end.

Definition run (s : sx) : sx :=
  match s with
  | L [t; w] =>
    do tree <- as_tree 200 t;
    do width <- as_Z w;
    if tree_chunks_ok (S (depth tree)) tree then of_rres (render_tree tree width) else L [I 3%Z]
  | _ => bad_input
  end.
