(* Drv_screen — wire entry for the screen-layer correspondence (C04..C08, C18, C12 reads, C17 separator).
   case   = (fuel (spec ...) (typed ...) quit? run_empty (action ...))
   spec   = ((setup-result ...) (scmd ...)refresh (scmd ...)show (scmd ...)closed ((key (scmd ...) ret) ...)
             ((scmd ...) ret?) prompt_none input_required no_separator skip_check pages answer0)
   typed  = (line) | ()  end of file
   action = (0 scmd ...) commands issued by the application outside any callback | (1) App.run()
   scmd   = (0 s a) push | (1 s a) push modal | (2 s a) replace | (3 s a) schedule | (4) self.close() | (5) close_screen()
          | (6) self.redraw() | (7) scheduler.redraw() | (8) raise | (9) exit | (10) force_quit | (11) get_user_input
          | (12 b) input_required := b | (13 a) answer := a | (14 n) mark | (15 k (then) (else))
          | (16) sys.exit(1) | (17 s) screens[s].redraw() | (18 s) screens[s].close()
          | (19 b) type-ahead := b | (20 h skip) handler object h: skip_concurrency_check := skip; get_input | (21 h) h.wait_on_input()
   ret    = (0) PROCESSED | (1) PROCESSED_AND_REDRAW | (2) PROCESSED_AND_CLOSE | (3) DISCARDED | (4 key) | (5) None
   result = ((outcome ...) (event ...) (stack entry ids, top first) (level ...)) *)
From Coq Require Import ZArith NArith List Bool.
From SL Require Import Sx PyInt LoopSem LoopWire ScreenSem.
Import ListNotations.

Definition as_answer (s : sx) : option answer :=
  match s with I 0%Z => Some AnsNoAttr | I 1%Z => Some AnsTrue | I 2%Z => Some AnsOther | I 3%Z => Some AnsOther | _ => None end.   (* 2 = False, 3 = None *)

Fixpoint as_scmd (fuel : nat) (s : sx) : option scmd :=
  match fuel with
  | O => None
  | S f =>
    let two (k : nat -> nat -> scmd) a b := match as_nat a, as_nat b with Some a, Some b => Some (k a b) | _, _ => None end in
    match s with
    | L [I 0%Z; a; b] => two SPush a b
    | L [I 1%Z; a; b] => two SPushModal a b
    | L [I 2%Z; a; b] => two SReplace a b
    | L [I 3%Z; a; b] => two SSchedule a b
    | L [I 4%Z] => Some SCloseSig
    | L [I 5%Z] => Some SCloseNow
    | L [I 6%Z] => Some SRedrawSig
    | L [I 7%Z] => Some SSchedRedraw
    | L [I 8%Z] => Some SRaise
    | L [I 9%Z] => Some SExit
    | L [I 10%Z] => Some SForceQuit
    | L [I 11%Z] => Some SGetUserInput
    | L [I 12%Z; b] => option_map SSetInputRequired (as_bool b)
    | L [I 13%Z; a] => option_map SSetAnswer (as_answer a)
    | L [I 14%Z; n] => option_map SMark (as_nat n)
    | L [I 16%Z] => Some SSysExit
    | L [I 17%Z; a] => option_map SRedrawOther (as_nat a)
    | L [I 18%Z; a] => option_map SCloseOther (as_nat a)
    | L [I 19%Z; b] => option_map SSetTypeAhead (as_bool b)
    | L [I 20%Z; h; b] => match as_nat h, as_bool b with Some h, Some b => Some (SHandlerAsk h b) | _, _ => None end
    | L [I 21%Z; h] => option_map SHandlerWait (as_nat h)
    | L [I 24%Z] => Some SProcess
    | L [I 22%Z; c; k] => two SConnect c k
    | L [I 23%Z; c; I p] => option_map (fun c => SEmit c p) (as_nat c)
    | L [I 15%Z; k; t; e] =>
      match as_nat k, as_list (as_scmd f) t, as_list (as_scmd f) e with
      | Some k, Some t, Some e => Some (SIfCount k t e) | _, _, _ => None end
    | _ => None
    end
  end.
Definition as_cmds := as_list (as_scmd 30).

Definition as_ret (s : sx) : option ret_val :=
  match s with
  | L [I 0%Z] => Some RProcessed | L [I 1%Z] => Some RRedraw | L [I 2%Z] => Some RClose
  | L [I 3%Z] => Some RDiscarded | L [I 4%Z; k] => option_map RKey (as_str k) | L [I 5%Z] => Some RNone
  | _ => None
  end.

Definition as_input_entry (s : sx) : option (str * (list scmd * ret_val)) :=
  match s with
  | L [k; c; r] => match as_str k, as_cmds c, as_ret r with Some k, Some c, Some r => Some (k, (c, r)) | _, _, _ => None end
  | _ => None
  end.

Definition as_spec12 (s : sx) : option screen_spec :=
  match s with
  | L [su; rf; sh; cl; it; L [dc; dr]; pn; ir; ns; sk; pg; a0] =>
    match as_list as_bool su, as_cmds rf, as_cmds sh, as_cmds cl, as_list as_input_entry it, as_cmds dc, as_opt as_ret dr with
    | Some su, Some rf, Some sh, Some cl, Some it, Some dc, Some dr =>
      match as_bool pn, as_bool ir, as_bool ns, as_bool sk, as_nat pg, as_answer a0 with
      | Some pn, Some ir, Some ns, Some sk, Some pg, Some a0 =>
        Some {| sc_setup := su; sc_refresh := rf; sc_show := sh; sc_closed := cl; sc_input := it;
                sc_input_default := (dc, dr); sc_prompt_none := pn; sc_input_required := ir;
                sc_no_separator := ns; sc_skip_check := sk; sc_pages := pg; sc_answer0 := a0; sc_custom := []; sc_setup_cmds := [] |}
      | _, _, _, _, _, _ => None
      end
    | _, _, _, _, _, _, _ => None
    end
  | _ => None
  end.

(* the 11-element form (sessions recorded before [sc_answer0] existed): no initial answer attribute;
   the 13-element form carries the screen's own signal callbacks (a list of command lists) *)
Definition as_spec (s : sx) : option screen_spec :=
  match s with
  | L [su; rf; sh; cl; it; d; pn; ir; ns; sk; pg] => as_spec12 (L [su; rf; sh; cl; it; d; pn; ir; ns; sk; pg; I 0%Z])
  | L [su; rf; sh; cl; it; d; pn; ir; ns; sk; pg; a0; cu] =>
    match as_spec12 (L [su; rf; sh; cl; it; d; pn; ir; ns; sk; pg; a0]), as_list as_cmds cu with
    | Some sp, Some cu => Some {| sc_setup := sc_setup sp; sc_refresh := sc_refresh sp; sc_show := sc_show sp;
                                  sc_closed := sc_closed sp; sc_input := sc_input sp; sc_input_default := sc_input_default sp;
                                  sc_prompt_none := sc_prompt_none sp; sc_input_required := sc_input_required sp;
                                  sc_no_separator := sc_no_separator sp; sc_skip_check := sc_skip_check sp;
                                  sc_pages := sc_pages sp; sc_answer0 := sc_answer0 sp; sc_custom := cu; sc_setup_cmds := [] |}
    | _, _ => None
    end
  | L [su; rf; sh; cl; it; d; pn; ir; ns; sk; pg; a0; cu; sc] =>       (* the 14-element form: + the commands of setup() itself *)
    match as_spec12 (L [su; rf; sh; cl; it; d; pn; ir; ns; sk; pg; a0]), as_list as_cmds cu, as_cmds sc with
    | Some sp, Some cu, Some sc =>
                          Some {| sc_setup := sc_setup sp; sc_refresh := sc_refresh sp; sc_show := sc_show sp;
                                  sc_closed := sc_closed sp; sc_input := sc_input sp; sc_input_default := sc_input_default sp;
                                  sc_prompt_none := sc_prompt_none sp; sc_input_required := sc_input_required sp;
                                  sc_no_separator := sc_no_separator sp; sc_skip_check := sc_skip_check sp;
                                  sc_pages := sc_pages sp; sc_answer0 := sc_answer0 sp; sc_custom := cu; sc_setup_cmds := sc |}
    | _, _, _ => None
    end
  | _ => as_spec12 s
  end.

Definition as_saction (s : sx) : option saction :=
  match s with
  | L (I 0%Z :: r) => option_map SACmds (all_some (map (as_scmd 30) r))
  | L [I 1%Z] => Some SARun
  | _ => None
  end.

Definition of_outcome (o : outcome) : sx :=
  match o with ONormal => I 0%Z | OThrow e => of_exn e | OBlocked => I 4%Z | OFuel => I 5%Z end.

Definition run (s : sx) : sx :=
  match s with
  | L [fu; sps; ty; qu; re; acts] =>
    do fuel <- as_nat fu;
    do specl <- as_list as_spec sps;
    do typed <- as_list (as_opt as_str) ty;
    do quit <- as_opt as_nat qu;
    do run_empty <- as_bool re;
    do actions <- as_list as_saction acts;
    let specs := fun n => nth n specl default_spec in
    let '(os, st) := app_run_all specs specl typed quit run_empty fuel actions in
    L [ of_list of_outcome os;
        of_list of_event (rev (trace st));
        of_list of_nat (map sd_id (st_stack (ust st)));
        of_list of_nat (levels st) ]
  | _ => bad_input
  end.
