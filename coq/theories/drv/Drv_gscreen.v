(* Drv_gscreen — the screen-layer sessions of Drv_screen (same case format, same parsers, same event encoding)
   run on the GLibEventLoop model (GLibApp.gapp_run_all).
   result = ((outcome ...) (event ...) (stack entry ids, top first) (level ...)) *)
From Coq Require Import ZArith NArith List Bool.
From SL Require Import Sx PyInt LoopSem LoopWire ScreenSem GLibSem GLibApp drv.Drv_screen.
Import ListNotations.

Definition run (s : sx) : sx :=
  match s with
  | L [fu; sps; ty; qu; re; acts] =>
    do fuel <- as_nat fu;
    do specl <- as_list as_spec sps;
    do typed <- as_list (as_opt as_str) ty;
    do quit <- as_opt as_nat qu;
    do run_empty <- as_bool re;
    do actions <- as_list as_saction acts;
    let specs := fun n => nth n specl default_spec in
    let '(os, st) := gapp_run_all specs specl typed quit run_empty fuel actions in
    L [ of_list of_outcome os;
        of_list of_event (rev (gtrace st));
        of_list of_nat (map sd_id (st_stack (gust st)));
        of_list of_nat (glevels st) ]
  | _ => bad_input
  end.
