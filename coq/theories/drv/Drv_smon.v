(* Drv_smon — evaluate a screen-layer monitor on a trace.
   case = (property (typed ...) quit? (nosep ...) (event ...))   property = 4|5|105|6|7|8|18|17
   result = (1) accepted | (0 index-of-first-rejected-event) *)
From Coq Require Import ZArith NArith List Bool.
From SL Require Import Sx PyInt LoopSem LoopWire ScreenSem ScreenMon.
Import ListNotations.

Definition run (s : sx) : sx :=
  match s with
  | L [I p; ty; qu; ns; t] =>
    do typed <- as_list (as_opt as_str) ty;
    do quit <- as_opt as_nat qu;
    do nosep <- as_list as_bool ns;
    do tr <- as_list as_event t;
    let chk := match p with
               | 4%Z => Some chk_C04 | 5%Z => Some chk_C05 | 105%Z => Some chk_C05_partial
               | 6%Z => Some chk_C06 | 7%Z => Some (chk_C07 quit) | 8%Z => Some chk_C08
               | 18%Z => Some chk_C18 | 17%Z => Some (chk_C17sep nosep) | _ => None end in
    match chk with
    | Some c => match srun_mon c (sworld0 typed) tr 0 with None => L [I 1%Z] | Some i => L [I 0%Z; of_nat i] end
    | None => bad_input
    end
  | _ => bad_input
  end.
