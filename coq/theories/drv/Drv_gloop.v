(* Drv_gloop — wire entry for the GLib event loop (C20): the same cases as Drv_loop (see there for the
   format), run on the GLibEventLoop model [grun_session].
   result = ((outcome ...) (event ...) ((level-id (sid ...)) ...) (level ...) active)
            per level: the signals whose sources are still attached to its context, in dispatch order;
            active = the top level (0 when no level is left). *)
From Coq Require Import ZArith NArith List Bool.
From SL Require Import Sx LoopSem LoopProg LoopWire GLibSem drv.Drv_loop.
Import ListNotations.

Definition run_gen (mark_first : bool) (s : sx) : sx :=
  match s with
  | L [fu; bs; acts] =>
    do fuel <- as_nat fu;
    do bodies <- as_list (as_list (as_cmd 50)) bs;
    do actions <- as_list as_action acts;
    let '(os, st) := grun_session mark_first (handler_prog bodies) fuel (map top_of actions) (ginit_state []) in
    L [ of_list of_outcome os;
        of_list of_event (rev (gtrace st));
        L (map (fun iq => L [of_nat (fst iq);
                             of_list of_nat (map (fun x => sg_id (gs_sig x)) (attached_in_order (gl_sources (snd iq))))])
               (combine (seq 0 (length (gstore st))) (gstore st)));
        of_list of_nat (glevels st);
        of_nat (match rev (glevels st) with top :: _ => top | [] => 0 end) ]
  | _ => bad_input
  end.

(* the model of the code as it is *)
Definition run : sx -> sx := run_gen false.
