(* Drv_gloopmf — the GLib loop model with the counterfactual switch [mark_first] on (see GLibSem.v): used by the
   C20 check only to search for sessions on which marking the ticket before/after the handlers is observable. *)
From SL Require Import Sx drv.Drv_gloop.
Definition run : sx -> sx := run_gen true.
