(* Drv_conc — wire entry for the C19 correspondence (L4, Conc.v).
   case   = (progs sched)
            progs  = (prog ...)            thread 0 = loop thread, the others submitters
            prog   = (action ...)
            action = (0 sid prio src?) enqueue_signal | (1) dispatch one | (2 o) register_signal_source
                   | (3 sid prio src?) execute_new_loop | (4) close_loop | (5) force_quit      src? = () | (o)
            sched  = (tid ...)
   result = (trace pend disp drop putlog (fq run active nq mlock) evq qlocks srcs threads stuck)
            trace   = ((tid kind arg ...) ...) chronological
            pend    = ((q prio cnt sid) ...)
            putlog  = ((tid q prio cnt sid) ...) chronological
            qlocks  = (holder_0 ... holder_nq-1)     0 free | tid+1
            threads = ((finished enabled waiting_get actions_not_completed (unput ...) (held ...)) ...)
            stuck   = 1 iff some thread is unfinished, none is enabled and not all unfinished ones wait in get() *)
From Coq Require Import ZArith NArith List Bool.
From SL Require Import Sx Conc.
Import ListNotations.

Definition as_sig (i p o : sx) : option sig :=
  match as_nat i, as_Z p, as_opt as_nat o with
  | Some i, Some p, Some o => Some {| s_id := i; s_prio := p; s_src := o |}
  | _, _, _ => None
  end.

Definition as_action (s : sx) : option action :=
  match s with
  | L [I 0%Z; i; p; o] => option_map ASubmit (as_sig i p o)
  | L [I 1%Z] => Some ADispatch
  | L [I 2%Z; o] => option_map ARegister (as_nat o)
  | L [I 3%Z; i; p; o] => option_map AOpen (as_sig i p o)
  | L [I 4%Z] => Some AClose
  | L [I 5%Z] => Some AForceQuit
  | _ => None
  end.

Definition as_progs : sx -> option (list (list action)) := as_list (as_list as_action).

Definition of_entry (x : nat * entry) : sx :=
  L [of_nat (fst x); I (e_prio (snd x)); of_nat (e_cnt (snd x)); of_nat (e_sid (snd x))].

Definition stuck (st : cstate) : bool :=
  let ths := c_thr st in
  existsb (fun th => negb (finished th)) ths
  && negb (existsb (fun t => enabled t st) (seq 0 (length ths)))
  && negb (forallb (fun th => finished th || waiting_get th (c_sh st)) ths).

Definition of_state (st : cstate) : sx :=
  let h := c_sh st in
  L [ of_list (fun x => L (of_nat (fst x) :: map I (snd x))) (rev (h_trace h));
      of_list of_entry (h_pend h);
      of_list of_nat (h_disp h);
      of_list of_nat (h_drop h);
      of_list (fun x => L [of_nat (fst x); of_nat (fst (snd x)); I (e_prio (snd (snd x)));
                           of_nat (e_cnt (snd (snd x))); of_nat (e_sid (snd (snd x)))]) (rev (h_putlog h));
      L [of_bool (h_fq h); of_bool (h_run h); of_nat (h_active h); of_nat (h_nq h); of_nat (h_mlock h)];
      of_list of_nat (h_evq h);
      of_list (fun q => of_nat (aget (h_qlock h) q)) (seq 0 (h_nq h));
      of_list (fun x => L [of_nat (fst x); of_nat (snd x)]) (h_src h);
      L (map (fun tth => let '(t, th) := tth in
                L [of_bool (finished th); of_bool (enabled t st); of_bool (waiting_get th h);
                   of_nat (length (t_prog th) + match t_pc th with P0 | PDead => 0 | _ => 1 end); of_list of_nat (thr_unput th); of_list of_nat (thr_held th)])
             (combine (seq 0 (length (c_thr st))) (c_thr st)));
      of_bool (stuck st) ].

Definition run (s : sx) : sx :=
  match s with
  | L [ps; sch] =>
    do progs <- as_progs ps;
    do sched <- as_list as_nat sch;
    of_state (steps sched (init progs))
  | _ => bad_input
  end.
