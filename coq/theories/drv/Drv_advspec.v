(* Drv_advspec — prints the specs of AdvWidgets.v in the wire format of Drv_screen.v (the Gallina definitions
   are the single source of truth; harness/adv_specs.py must produce the same lists).
   case   = (kind)      kind = (0) YesNoDialog | (1) ErrorDialog | (2) HelpScreen | (3 (cond ...)) GetInputScreen
                             | (4 (cond ...)) GetPasswordInputScreen | (5) PasswordDialog
            cond = (1 (key ...)) the key is one of | (0 (key ...)) the key is none of
   result = the spec, as Drv_screen.as_spec reads it (answers: 0 no attribute | 1 True | 2 anything else) *)
From Coq Require Import ZArith NArith List Bool.
From SL Require Import Sx PyInt LoopSem ScreenSem AdvWidgets.
Import ListNotations.

Definition of_answer (a : answer) : sx := I (match a with AnsNoAttr => 0 | AnsTrue => 1 | AnsOther => 2 end)%Z.

Fixpoint of_scmd (c : scmd) : sx :=
  match c with
  | SPush s a => L [I 0%Z; of_nat s; of_nat a]
  | SPushModal s a => L [I 1%Z; of_nat s; of_nat a]
  | SReplace s a => L [I 2%Z; of_nat s; of_nat a]
  | SSchedule s a => L [I 3%Z; of_nat s; of_nat a]
  | SCloseSig => L [I 4%Z]
  | SCloseNow => L [I 5%Z]
  | SRedrawSig => L [I 6%Z]
  | SSchedRedraw => L [I 7%Z]
  | SRaise => L [I 8%Z]
  | SExit => L [I 9%Z]
  | SForceQuit => L [I 10%Z]
  | SSysExit => L [I 16%Z]
  | SRedrawOther s => L [I 17%Z; of_nat s]
  | SCloseOther s => L [I 18%Z; of_nat s]
  | SGetUserInput => L [I 11%Z]
  | SSetTypeAhead b => L [I 19%Z; of_bool b]
  | SHandlerAsk h b => L [I 20%Z; of_nat h; of_bool b]
  | SHandlerWait h => L [I 21%Z; of_nat h]
  | SProcess => L [I 24%Z]
  | SConnect c k => L [I 22%Z; of_nat c; of_nat k]
  | SEmit c p => L [I 23%Z; of_nat c; I p]
  | SSetInputRequired b => L [I 12%Z; of_bool b]
  | SSetAnswer a => L [I 13%Z; of_answer a]
  | SMark n => L [I 14%Z; of_nat n]
  | SIfCount k t e =>
    let fix go (l : list scmd) : list sx := match l with [] => [] | x :: r => of_scmd x :: go r end in
    L [I 15%Z; of_nat k; L (go t); L (go e)]
  end.
Definition of_cmds (l : list scmd) : sx := of_list of_scmd l.

Definition of_ret (r : ret_val) : sx :=
  match r with
  | RProcessed => L [I 0%Z] | RRedraw => L [I 1%Z] | RClose => L [I 2%Z] | RDiscarded => L [I 3%Z]
  | RKey k => L [I 4%Z; of_str k] | RNone => L [I 5%Z]
  end.

Definition of_spec (sp : screen_spec) : sx :=
  L [ of_list of_bool (sc_setup sp); of_cmds (sc_refresh sp); of_cmds (sc_show sp); of_cmds (sc_closed sp);
      of_list (fun kv => L [of_str (fst kv); of_cmds (fst (snd kv)); of_ret (snd (snd kv))]) (sc_input sp);
      L [of_cmds (fst (sc_input_default sp)); of_opt of_ret (snd (sc_input_default sp))];
      of_bool (sc_prompt_none sp); of_bool (sc_input_required sp); of_bool (sc_no_separator sp);
      of_bool (sc_skip_check sp); of_nat (sc_pages sp); of_answer (sc_answer0 sp) ].

Definition as_cond (s : sx) : option acond :=
  match s with
  | L [I 1%Z; l] => option_map CondIn (as_list as_str l)
  | L [I 0%Z; l] => option_map CondNotIn (as_list as_str l)
  | _ => None
  end.

Definition as_kind (s : sx) : option adv_kind :=
  match s with
  | L [I 0%Z] => Some KYesNo
  | L [I 1%Z] => Some KError
  | L [I 2%Z] => Some KHelp
  | L [I 3%Z; c] => option_map KGetInput (as_list as_cond c)
  | L [I 4%Z; c] => option_map KGetPasswordInput (as_list as_cond c)
  | L [I 5%Z] => Some KPassword
  | _ => None
  end.

Definition run (s : sx) : sx :=
  match s with
  | L [k] => do kind <- as_kind k; of_spec (adv_spec kind)
  | _ => bad_input
  end.
