(* Drv_screenout — wire entry for the C17 correspondence: the characters one draw of a screen writes.
   case   = (no_separator tree width height)      tree as in Drv_render (texts carry their chunk oracle)
   result = (0 (codepoints of the stream) outcome) | (3) chunk contract violated
            outcome = 0 the draw completed | 1 it ended with ValueError | 2 out of model
            (the stream is what was written before the exception) *)
From Coq Require Import ZArith NArith List Bool.
From SL Require Import Sx PyInt Widget TextWrap KeyPattern Containers Prompt Paging ScreenOut.
From SL Require drv.Drv_render.
Import ListNotations.

Definition of_outcome (r : rres unit) : sx :=
  match r with ROk _ => I 0%Z | RValueError => I 1%Z | ROutOfModel => I 2%Z end.

Definition run (s : sx) : sx :=
  match s with
  | L [ns; t; w; h] =>
    do no_sep <- as_bool ns;
    do tree <- Drv_render.as_tree 200 t;
    do width <- as_Z w;
    do height <- as_Z h;
    if Drv_render.tree_chunks_ok (S (depth tree)) tree then
      let r := draw_output no_sep tree width height in
      L [I 0%Z; of_str (fst r); of_outcome (snd r)]
    else L [I 3%Z]
  | _ => bad_input
  end.
