(* Drv_c16 — wire entry for the C16 correspondence: a tree and a history of operations.
   case   = (tree (op ...))
   op     = (0 width) render | (1 (index ...) tree) add below the container at that path
          | (2 tree width) build and render another tree
   result = (res ...) one per render (own or other), res as in Drv_render;  ((3)) = chunk contract violated *)
From Coq Require Import ZArith NArith List Bool.
From SL Require Import Sx PyInt Widget TextWrap KeyPattern Containers ContainerObject drv.Drv_render.
Import ListNotations.

Definition as_op (s : sx) : option op :=
  match s with
  | L [I 0%Z; w] => option_map ORender (as_Z w)
  | L [I 1%Z; p; t] =>
    match as_list as_nat p, as_tree 200 t with
    | Some p, Some t => Some (OAdd p t)
    | _, _ => None
    end
  | L [I 2%Z; t; w] =>
    match as_tree 200 t, as_Z w with
    | Some t, Some w => Some (OOther t w)
    | _, _ => None
    end
  | _ => None
  end.

Definition op_chunks_ok (o : op) : bool :=
  match o with
  | ORender _ => true
  | OAdd _ x => tree_chunks_ok (S (depth x)) x
  | OOther t _ => tree_chunks_ok (S (depth t)) t
  end.

Definition run (s : sx) : sx :=
  match s with
  | L [t; ops] =>
    do tree <- as_tree 200 t;
    do ops <- as_list as_op ops;
    if tree_chunks_ok (S (depth tree)) tree && forallb op_chunks_ok ops
    then of_list of_rres (run_ops tree ops)
    else L [L [I 3%Z]]
  | _ => bad_input
  end.
