(* Drv_widget — wire entry for the C15 correspondence (Widget.draw / Widget.write on a real buffer).
   case   = (buffer (row col) maxw? (op ...))
            buffer = ((codepoints) ...)            initial content of the target
            (row col)                              initial cursor
            maxw?  = () | (n)                      Widget(max_width=n)
   op     = (0 src row? col? block)                target.draw(src, row, col, block)
          | (1 text row? col? width? block)        target.write(text, row, col, width, block)
            row? / col? = () means "take it from the cursor"; width? = () means None
   result = (r ...)   one r per op, in order:  (0 buffer (row col))  state after the op
                                             | (2)  the op is outside the model (width defaulted from
                                                    max_width would be negative); nothing follows it.
   Defaults mirror the Python:  row = cursor[0], col = cursor[1];
   `if width is None and self._max_width: width = self._max_width - col`. *)
From Coq Require Import ZArith NArith List Bool.
From SL Require Import Sx Widget.
Import ListNotations.

Inductive op :=
| ODraw (src : buffer) (row col : option nat) (block : bool)
| OWrite (text : list char) (row col width : option nat) (block : bool).

Definition as_buffer : sx -> option buffer := as_list as_str.

Definition as_op (s : sx) : option op :=
  match s with
  | L [I 0%Z; src; r; c; bl] =>
    match as_buffer src, as_opt as_nat r, as_opt as_nat c, as_bool bl with
    | Some src, Some r, Some c, Some bl => Some (ODraw src r c bl)
    | _, _, _, _ => None
    end
  | L [I 1%Z; t; r; c; w; bl] =>
    match as_str t, as_opt as_nat r, as_opt as_nat c, as_opt as_nat w, as_bool bl with
    | Some t, Some r, Some c, Some w, Some bl => Some (OWrite t r c w bl)
    | _, _, _, _, _ => None
    end
  | _ => None
  end.

Definition dflt (o : option nat) (d : nat) : nat := match o with Some v => v | None => d end.

(* None = outside the model *)
Definition eff_width (maxw : option nat) (col : nat) (width : option nat) : option (option nat) :=
  match width with
  | Some w => Some (Some w)
  | None =>
    match maxw with
    | None => Some None
    | Some O => Some None                      (* `and self._max_width` is falsy for 0 *)
    | Some m => if (m <? col)%nat then None else Some (Some (m - col))
    end
  end.

Definition state := (buffer * (nat * nat))%type.

Definition step (maxw : option nat) (st : state) (o : op) : option state :=
  let cur := snd st in
  match o with
  | ODraw src r c bl => Some (draw (fst st) (dflt r (fst cur)) (dflt c (snd cur)) bl src)
  | OWrite t r c w bl =>
    let col := dflt c (snd cur) in
    match eff_width maxw col w with
    | None => None
    | Some w' => Some (write (fst st) cur t (dflt r (fst cur)) col w' bl)
    end
  end.

Definition of_state (st : state) : sx :=
  L [I 0%Z; of_list of_str (fst st); of_pair of_nat of_nat (snd st)].

Fixpoint run_ops (maxw : option nat) (st : state) (ops : list op) : list sx :=
  match ops with
  | [] => []
  | o :: rest =>
    match step maxw st o with
    | None => [L [I 2%Z]]
    | Some st' => of_state st' :: run_ops maxw st' rest
    end
  end.

Definition run (s : sx) : sx :=
  match s with
  | L [b; cur; mw; ops] =>
    do buf <- as_buffer b;
    do cur <- as_pair as_nat as_nat cur;
    do maxw <- as_opt as_nat mw;
    do ops <- as_list as_op ops;
    L (run_ops maxw (buf, cur) ops)
  | _ => bad_input
  end.
