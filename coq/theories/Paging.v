(* Paging.v — simpleline/render/screen/__init__.py  UIScreen._print_widget, line by line.
   The widget is its list of lines (widget.get_lines()); printing and asking the user to press ENTER
   become events.  All arithmetic is Python's (unbounded integers, Z) and the two slices are Python's
   slices (negative indices count from the end), so that the function is also defined for the screen
   heights the Python does not support (< 3); there the Python can loop forever (real height 0 or
   negative: pos does not advance), which is the POutOfFuel outcome.
   Definitions only; the vocabulary of the C12 statements (prints_of, count_asks, page_events) is at
   the end. *)
From Coq Require Import ZArith List Bool.
From SL Require Import Widget TextWrap Containers.
Import ListNotations.
Local Open Scope Z_scope.

Inductive pevent :=
| PPrint (l : line)        (* one line written to the terminal *)
| PAskContinue             (* self._ask_user_input_blocking(Prompt("\nPress ENTER to continue")) : reads one typed line *)
| POutOfFuel.              (* the while loop did not finish within the fuel: never for height >= 3 *)

(* Python slice bound: i < 0 -> max(0, i + n) ; else min(i, n) *)
Definition norm_idx (n i : Z) : Z := if i <? 0 then Z.max 0 (i + n) else Z.min i n.

(* l[a:] *)
Definition py_slice_from {A} (l : list A) (a : Z) : list A :=
  skipn (Z.to_nat (norm_idx (Z.of_nat (length l)) a)) l.

(* l[a:b] *)
Definition py_slice {A} (l : list A) (a b : Z) : list A :=
  let n := Z.of_nat (length l) in
  let a' := norm_idx n a in
  let b' := norm_idx n b in
  firstn (Z.to_nat (b' - a')) (skipn (Z.to_nat a') l).

(* while pos <= last_line:
       if pos + real_screen_height > last_line:
           for line in lines[pos:]: print(line)
           pos += self._screen_height - 1
       else:
           for line in lines[pos:(pos + real_screen_height)]: print(line)
           self._ask_user_input_blocking(custom_prompt)
           pos += real_screen_height                                                        *)
Fixpoint page_loop (fuel : nat) (lines : list line) (pos last_line real_screen_height screen_height : Z)
  : list pevent :=
  if pos <=? last_line then
    match fuel with
    | O => [POutOfFuel]
    | S f =>
      if pos + real_screen_height >? last_line then
        map PPrint (py_slice_from lines pos)
        ++ page_loop f lines (pos + (screen_height - 1)) last_line real_screen_height screen_height
      else
        map PPrint (py_slice lines pos (pos + real_screen_height))
        ++ PAskContinue
        :: page_loop f lines (pos + real_screen_height) last_line real_screen_height screen_height
    end
  else [].

(* _print_widget(widget) with lines = widget.get_lines(), screen_height = self._screen_height *)
Definition print_widget (lines : list line) (screen_height : Z) : list pevent :=
  let pos := 0 in
  let num_lines := Z.of_nat (length lines) in
  if num_lines =? 0 then []                                   (* if num_lines == 0: return *)
  else
    let prompt_height := 2 in
    let real_screen_height := screen_height - prompt_height in
    if num_lines <? real_screen_height then
      map PPrint lines                                        (* print("\n".join(lines)) *)
    else
      let last_line := num_lines - 1 in
      page_loop (S (length lines)) lines pos last_line real_screen_height screen_height.

(* UIScreen.show_all():  self.window.render(App.get_configuration().width); self._print_widget(self.window)
   (widget.get_lines() = ["".join(line) for line in buffer]: the rows of the buffer) *)
Definition show_all (window : wtree) (width screen_height : Z) : rres (list pevent) :=
  match render_tree window width with
  | ROk b => ROk (print_widget b screen_height)
  | RValueError => RValueError
  | ROutOfModel => ROutOfModel
  end.

(* ---- vocabulary of the statements ------------------------------------------------------ *)
(* the printed lines, in order *)
Fixpoint prints_of (evs : list pevent) : list line :=
  match evs with
  | [] => []
  | PPrint l :: r => l :: prints_of r
  | _ :: r => prints_of r
  end.

Fixpoint count_asks (evs : list pevent) : nat :=
  match evs with
  | [] => 0
  | PAskContinue :: r => S (count_asks r)
  | _ :: r => count_asks r
  end.

Definition is_out_of_fuel (e : pevent) : bool := match e with POutOfFuel => true | _ => false end.

(* the events of a sequence of pages: every page is printed, every page but the last is followed by
   one press-ENTER prompt *)
Fixpoint page_events (pages : list (list line)) : list pevent :=
  match pages with
  | [] => []
  | p :: rest =>
    match rest with
    | [] => map PPrint p
    | _ => map PPrint p ++ PAskContinue :: page_events rest
    end
  end.
