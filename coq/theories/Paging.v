(* Paging.v — simpleline/render/screen/__init__.py  UIScreen._print_widget, line by line.
   The widget is its list of lines (widget.get_lines()); printing and asking the user to press ENTER
   become events.  All arithmetic is Python's (unbounded integers, Z) and the two slices are Python's
   slices (negative indices count from the end), so that the function is also defined for the screen
   heights the Python does not support (< 3); there the Python can loop forever (real height 0 or
   negative: pos does not advance), which is the POutOfFuel outcome.
   Definitions only; the vocabulary of the C12 statements (prints_of, count_asks, page_events) is at
   the end. *)
From Coq Require Import ZArith List Bool.
From SL Require Import Widget TextWrap Containers.
Import ListNotations.
Local Open Scope Z_scope.

Inductive pevent :=
| PPrint (l : line)        (* one line written to the terminal *)
| PAskContinue             (* self._ask_user_input_blocking(Prompt("\nPress ENTER to continue")) : reads one typed line *)
| POutOfFuel.              (* the while loop did not finish within the fuel: never for height >= 3 *)

(* Python slice bound: i < 0 -> max(0, i + n) ; else min(i, n) *)
Definition norm_idx (n i : Z) : Z := if i <? 0 then Z.max 0 (i + n) else Z.min i n.

(* l[a:] *)
Definition py_slice_from {A} (l : list A) (a : Z) : list A :=
  skipn (Z.to_nat (norm_idx (Z.of_nat (length l)) a)) l.

(* l[a:b] *)
Definition py_slice {A} (l : list A) (a b : Z) : list A :=
  let n := Z.of_nat (length l) in
  let a' := norm_idx n a in
  let b' := norm_idx n b in
  firstn (Z.to_nat (b' - a')) (skipn (Z.to_nat a') l).

(* while pos <= last_line:
       if pos + real_screen_height > last_line:
           for line in lines[pos:]: print(line)
           pos += self._screen_height - 1
       else:
           for line in lines[pos:(pos + real_screen_height)]: print(line)
           self._ask_user_input_blocking(custom_prompt)
           pos += real_screen_height                                                        *)
Fixpoint page_loop (fuel : nat) (lines : list line) (pos last_line real_screen_height screen_height : Z)
  : list pevent :=
  if pos <=? last_line then
    match fuel with
    | O => [POutOfFuel]
    | S f =>
      if pos + real_screen_height >? last_line then
        map PPrint (py_slice_from lines pos)
        ++ page_loop f lines (pos + (screen_height - 1)) last_line real_screen_height screen_height
      else
        map PPrint (py_slice lines pos (pos + real_screen_height))
        ++ PAskContinue
        :: page_loop f lines (pos + real_screen_height) last_line real_screen_height screen_height
    end
  else [].

(* _print_widget(widget) with lines = widget.get_lines(), screen_height = self._screen_height *)
Definition print_widget (lines : list line) (screen_height : Z) : list pevent :=
  let pos := 0 in
  let num_lines := Z.of_nat (length lines) in
  if num_lines =? 0 then []                                   (* if num_lines == 0: return *)
  else
    let prompt_height := 2 in
    let real_screen_height := screen_height - prompt_height in
    if num_lines <? real_screen_height then
      map PPrint lines                                        (* print("\n".join(lines)) *)
    else
      let last_line := num_lines - 1 in
      page_loop (S (length lines)) lines pos last_line real_screen_height screen_height.

(* UIScreen.show_all():  self.window.render(App.get_configuration().width); self._print_widget(self.window)
   (widget.get_lines() = ["".join(line) for line in buffer]: the rows of the buffer) *)
Definition show_all (window : wtree) (width screen_height : Z) : rres (list pevent) :=
  match render_tree window width with
  | ROk b => ROk (print_widget b screen_height)
  | RValueError => RValueError
  | ROutOfModel => ROutOfModel
  end.

(* ---- vocabulary of the statements ------------------------------------------------------ *)
(* the printed lines, in order *)
Fixpoint prints_of (evs : list pevent) : list line :=
  match evs with
  | [] => []
  | PPrint l :: r => l :: prints_of r
  | _ :: r => prints_of r
  end.

Fixpoint count_asks (evs : list pevent) : nat :=
  match evs with
  | [] => 0
  | PAskContinue :: r => S (count_asks r)
  | _ :: r => count_asks r
  end.

Definition is_out_of_fuel (e : pevent) : bool := match e with POutOfFuel => true | _ => false end.

(* the events of a sequence of pages: every page is printed, every page but the last is followed by
   one press-ENTER prompt *)
Fixpoint page_events (pages : list (list line)) : list pevent :=
  match pages with
  | [] => []
  | p :: rest =>
    match rest with
    | [] => map PPrint p
    | _ => map PPrint p ++ PAskContinue :: page_events rest
    end
  end.

(* ---- the same, with the typed lines made explicit ----------------------------------------
   _ask_user_input_blocking(prompt) writes the prompt and reads ONE line from the user (InputHandler:
   one input() call); its value is dropped by _print_widget.  [typed] is the list of lines the user
   types, in order.  The run ends PgDone (loop finished), PgBlocked (a prompt was written and no typed
   line is available: the call does not return) or PgOutOfFuel (as POutOfFuel above).
   proofs/PagingProofs.v: print_widget_in agrees with print_widget on the events (paging_in_spec). *)
Inductive pstatus := PgDone | PgBlocked | PgOutOfFuel.
Record prun := { pr_events : list pevent;      (* what was written, prompts included *)
                 pr_left : list line;          (* the typed lines not consumed *)
                 pr_status : pstatus }.

Definition pr_prepend (evs : list pevent) (r : prun) : prun :=
  {| pr_events := evs ++ pr_events r; pr_left := pr_left r; pr_status := pr_status r |}.

Fixpoint page_loop_in (fuel : nat) (lines : list line) (pos last_line real_screen_height screen_height : Z)
         (typed : list line) : prun :=
  if pos <=? last_line then
    match fuel with
    | O => {| pr_events := [POutOfFuel]; pr_left := typed; pr_status := PgOutOfFuel |}
    | S f =>
      if pos + real_screen_height >? last_line then
        pr_prepend (map PPrint (py_slice_from lines pos))
          (page_loop_in f lines (pos + (screen_height - 1)) last_line real_screen_height screen_height typed)
      else
        let page := map PPrint (py_slice lines pos (pos + real_screen_height)) ++ [PAskContinue] in
        match typed with
        | [] => {| pr_events := page; pr_left := []; pr_status := PgBlocked |}
        | _ :: typed' =>                      (* the line is read and ignored, whatever it contains *)
          pr_prepend page
            (page_loop_in f lines (pos + real_screen_height) last_line real_screen_height screen_height typed')
        end
    end
  else {| pr_events := []; pr_left := typed; pr_status := PgDone |}.

Definition print_widget_in (lines : list line) (screen_height : Z) (typed : list line) : prun :=
  let num_lines := Z.of_nat (length lines) in
  if num_lines =? 0 then {| pr_events := []; pr_left := typed; pr_status := PgDone |}
  else
    let real_screen_height := screen_height - 2 in
    if num_lines <? real_screen_height then
      {| pr_events := map PPrint lines; pr_left := typed; pr_status := PgDone |}
    else
      page_loop_in (S (length lines)) lines 0 (num_lines - 1) real_screen_height screen_height typed.

(* the events up to and including the (k+1)-th press-ENTER prompt *)
Fixpoint upto_ask (k : nat) (evs : list pevent) : list pevent :=
  match evs with
  | [] => []
  | PAskContinue :: r => PAskContinue :: match k with O => [] | S k' => upto_ask k' r end
  | e :: r => e :: upto_ask k r
  end.

(* what the run with typed lines is, in terms of the events of the run without *)
Definition in_spec (evs : list pevent) (typed : list line) : prun :=
  if (count_asks evs <=? length typed)%nat
  then {| pr_events := evs; pr_left := skipn (count_asks evs) typed;
          pr_status := if existsb is_out_of_fuel evs then PgOutOfFuel else PgDone |}
  else {| pr_events := upto_ask (length typed) evs; pr_left := []; pr_status := PgBlocked |}.
