(* Monitors.v — the event-loop properties as executable acceptors of traces.
   A trace (oldest event first) is replayed into a [world]: what an observer who sees only the
   events knows about the loop (signals created, registrations, open levels, the reference content of
   every queue as a *stable* priority queue, open dispatch frames).  Each property is a predicate
   [chk_Cxx : world -> event -> bool] evaluated on every event before the world is updated;
   [ok_Cxx trace = true] iff every event is accepted.  The same functions, extracted, judge the
   traces recorded from the implementation. *)
From Coq Require Import ZArith NArith List Bool.
From RecordUpdate Require Import RecordUpdate.
From SL Require Import LoopSem.
Import ListNotations.

(* ---- small finite maps over nat keys ---- *)
Fixpoint lookup {A} (k : nat) (m : list (nat * A)) : option A :=
  match m with [] => None | (k', v) :: r => if (k =? k')%nat then Some v else lookup k r end.
Fixpoint update {A} (k : nat) (f : option A -> A) (m : list (nat * A)) : list (nat * A) :=
  match m with
  | [] => [(k, f None)]
  | (k', v) :: r => if (k =? k')%nat then (k', f (Some v)) :: r else (k', v) :: update k f r
  end.

(* ---- the reference queue: stable by priority ---- *)
Definition refq := list (Z * nat).                       (* (priority, sid), head = next to dispatch *)
Fixpoint stable_insert (p : Z) (sid : nat) (q : refq) : refq :=
  match q with
  | [] => [(p, sid)]
  | (p', s') :: r => if (p <? p')%Z then (p, sid) :: q else (p', s') :: stable_insert p sid r
  end.

(* an open dispatch: the signal, its class, how many handlers have been started, is one running *)
Record frame := { f_sid : nat; f_cls : nat; f_idx : nat; f_in : bool }.
#[export] Instance eta_frame : Settable _ := settable! Build_frame <f_sid; f_cls; f_idx; f_in>.

(* an outstanding wait (process_signals(return_after=cls)) *)
Record waiter := { wt_cls : nat; wt_ticket : nat; wt_released : bool; wt_depth : nat }.
#[export] Instance eta_waiter : Settable _ := settable! Build_waiter <wt_cls; wt_ticket; wt_released; wt_depth>.

Record world := {
  w_sig : list (nat * (nat * Z * option nat));      (* sid -> (class, priority, source) *)
  w_hand : list (nat * list (nat * nat));           (* class -> [(handler, data)] *)
  w_levels : list nat;                              (* open levels (queue ids), bottom .. top *)
  w_active : nat;
  w_src : list (nat * list nat);                    (* queue id -> registered sources *)
  w_pend : list (nat * refq);                       (* queue id -> reference content *)
  w_fq : bool;                                      (* force-quit in effect *)
  w_quit : option nat;                              (* registered quit-callback argument *)
  w_frames : list frame;                            (* open dispatches, innermost first *)
  w_expect_exc : nat;                               (* 0 none | 1 an ExceptionSignal must be created next | 2 .. enqueued next *)
  w_exc_sid : nat;
  w_in_run : bool; w_run_levels1 : bool;            (* inside run(); run() was entered with exactly one level *)
  w_cause : bool;                                   (* a reason to stop occurred since run() was entered *)
  w_exiting : bool;                                 (* an ExitMainLoop is in flight *)
  w_quit_called : bool;
  w_killed : bool;
  w_waiters : list waiter;                          (* outstanding waits, innermost first *)
  w_iters : list (nat * option Z);                  (* open non-waiting process_signals(): (depth, batch priority) *)
  w_stillborn : list nat;                           (* levels opened while the loops were already told to stop *)
  w_runloop : bool                                  (* the loops have not been told to stop (close_loop / force_quit) since the last re-arm *)
}.
#[export] Instance eta_world : Settable _ :=
  settable! Build_world <w_sig; w_hand; w_levels; w_active; w_src; w_pend; w_fq; w_quit; w_frames;
                         w_expect_exc; w_exc_sid; w_in_run; w_run_levels1; w_cause; w_exiting;
                         w_quit_called; w_killed; w_waiters; w_iters; w_stillborn; w_runloop>.

Definition world0 : world :=
  {| w_sig := []; w_hand := []; w_levels := [0]; w_active := 0; w_src := []; w_pend := [];
     w_fq := false; w_quit := None; w_frames := []; w_expect_exc := 0; w_exc_sid := 0;
     w_in_run := false; w_run_levels1 := false; w_cause := false; w_exiting := false;
     w_quit_called := false; w_killed := false; w_waiters := []; w_iters := []; w_stillborn := []; w_runloop := true |}.

Definition sig_cls (w : world) (sid : nat) : nat := match lookup sid (w_sig w) with Some (c, _, _) => c | None => 0 end.
Definition sig_prio (w : world) (sid : nat) : Z := match lookup sid (w_sig w) with Some (_, p, _) => p | None => 0%Z end.
Definition sig_src (w : world) (sid : nat) : option nat := match lookup sid (w_sig w) with Some (_, _, s) => s | None => None end.
Definition pend (w : world) (q : nat) : refq := match lookup q (w_pend w) with Some l => l | None => [] end.
Definition sources (w : world) (q : nat) : list nat := match lookup q (w_src w) with Some l => l | None => [] end.
Definition hand (w : world) (cls : nat) : option (list (nat * nat)) := lookup cls (w_hand w).

(* the level a signal with this source must be routed to *)
Fixpoint w_route (w : world) (rev_levels : list nat) (src : option nat) : option nat :=
  match rev_levels with
  | [] => None
  | q :: r =>
    match src with
    | Some o => if existsb (Nat.eqb o) (sources w q) then Some q else w_route w r src
    | None => None
    end
  end.
Definition route_target (w : world) (src : option nat) : nat :=
  match w_route w (rev (w_levels w)) src with Some q => q | None => w_active w end.

(* frames left open by an exception are dropped down to (and including / excluding) the frame of sid *)
Fixpoint unwind_to (sid : nat) (fs : list frame) : list frame :=
  match fs with
  | [] => []
  | f :: r => if (f_sid f =? sid)%nat then fs else unwind_to sid r
  end.

Definition last_opt {A} (l : list A) : option A := match rev l with x :: _ => Some x | [] => None end.

(* ---- the world transformer ---- *)
Definition world_step (w : world) (e : event) : world :=
  match e with
  | ESigNew sid c p src =>
    let w1 := w <| w_sig := (sid, (c, p, src)) :: w_sig w |> in
    if (w_expect_exc w =? 1)%nat then w1 <| w_expect_exc := 2 |> <| w_exc_sid := sid |> else w1
  | ERegHandler c h d => w <| w_hand := update c (fun o => match o with Some l => l ++ [(h, d)] | None => [(h, d)] end) (w_hand w) |>
  | ERegSource o q => w <| w_src := update q (fun s => match s with
                                                     | Some l => if existsb (Nat.eqb o) l then l else l ++ [o]
                                                     | None => [o] end) (w_src w) |>
  | ESetQuitCb a => w <| w_quit := Some a |>
  | EEnq sid q =>
    let w1 := w <| w_pend := update q (fun o => stable_insert (sig_prio w sid) sid (match o with Some l => l | None => [] end)) (w_pend w) |> in
    if (w_expect_exc w =? 2)%nat then w1 <| w_expect_exc := 0 |> else w1
  | EDropped sid => if (w_expect_exc w =? 2)%nat then w <| w_expect_exc := 0 |> else w
  | EDispatch sid q d =>
    w <| w_pend := update q (fun o => match o with Some (_ :: r) => r | _ => [] end) (w_pend w) |>
      <| w_frames := {| f_sid := sid; f_cls := sig_cls w sid; f_idx := 0; f_in := false |} :: w_frames w |>
      <| w_waiters := map (fun t => if (wt_cls t =? sig_cls w sid)%nat then t <| wt_released := true |> else t) (w_waiters w) |>
      <| w_iters := match w_iters w with
                    | (dp, None) :: r => if (dp =? length (w_frames w))%nat then (dp, Some (sig_prio w sid)) :: r else w_iters w
                    | _ => w_iters w end |>
  | ERequeue _ _ => w
  | EHandler h sid d =>
    w <| w_frames := match w_frames w with f :: r => (f <| f_in := true |>) :: r | [] => [] end |>
  | EHandlerEnd h sid how =>
    let fs := unwind_to sid (w_frames w) in
    match how with
    | None => w <| w_frames := match fs with f :: r => (f <| f_in := false |> <| f_idx := S (f_idx f) |>) :: r | [] => [] end |>
    | Some XError =>
      w <| w_frames := match fs with f :: r => (f <| f_in := false |> <| f_idx := S (f_idx f) |>) :: r | [] => [] end |>
        <| w_expect_exc := 1 |>
    | Some XExit => w <| w_frames := tl fs |> <| w_exiting := true |> <| w_cause := true |>
    | Some XSysExit => w <| w_frames := tl fs |>
    end
  | EDispatchEnd sid => w <| w_frames := tl (w_frames w) |>
  | ENewLoopEnter q => w <| w_levels := w_levels w ++ [q] |> <| w_active := q |>
                         <| w_stillborn := if w_runloop w then w_stillborn w else q :: w_stillborn w |>
  | ENewLoopReturn q => if w_fq w then w else w <| w_runloop := true |>      (* _mainloop re-armed the flag *)
  | EClosePop q =>
    let ls := removelast (w_levels w) in
    let w1 := w <| w_levels := ls |> in
    let w2 := w1 <| w_runloop := false |> in
    match last_opt ls with
    | Some a => w2 <| w_active := a |>
    | None => w2 <| w_exiting := true |> <| w_cause := true |>      (* the outermost loop was closed *)
    end
  | EProcEnter (Some c) t =>
    w <| w_waiters := {| wt_cls := c; wt_ticket := t; wt_released := false;
                         wt_depth := length (w_frames w) |} :: w_waiters w |>
  | EProcEnter None _ => w <| w_iters := (length (w_frames w), None) :: w_iters w |>
  | EProcReturn (Some c) t => w <| w_waiters := filter (fun x => negb (wt_ticket x =? t)%nat) (w_waiters w) |>
  | EProcReturn None _ => w <| w_iters := tl (w_iters w) |>
  | EForceQuit => w <| w_levels := [] |> <| w_fq := true |> <| w_cause := true |> <| w_runloop := false |>
  | EQuitCb a => w <| w_quit_called := true |>
  | ERunEnter =>
    w <| w_fq := false |> <| w_in_run := true |> <| w_run_levels1 := (length (w_levels w) =? 1)%nat |>
      <| w_cause := false |> <| w_exiting := false |> <| w_quit_called := false |> <| w_frames := [] |> <| w_waiters := [] |> <| w_iters := [] |> <| w_runloop := true |>
  | ERunReturn => w <| w_in_run := false |> <| w_exiting := false |>     (* run() re-arms the stop flag only when it is entered *)
  | EKill => w <| w_killed := true |>
  | EExt _ => w
  | EMark _ => w
  | ETop => w <| w_frames := [] |> <| w_waiters := [] |> <| w_iters := [] |> <| w_exiting := false |> <| w_expect_exc := 0 |>
  | EUser _ _ _ => w
  end.

(* ================================================================== C01 *)
(* most urgent first, first-in first-out within a priority: what is taken from a queue is the head of
   its reference stable queue; a re-queued signal keeps its place *)
Definition chk_C01 (w : world) (e : event) : bool :=
  match e with
  | EDispatch sid q _ => match pend w q with (_, s) :: _ => (s =? sid)%nat | [] => false end
  | ERequeue sid q => match pend w q with (_, s) :: _ => (s =? sid)%nat | [] => false end
  | _ => true
  end.

(* ================================================================== C02 *)
Definition is_unwind (e : event) : bool :=
  match e with EHandlerEnd _ _ (Some XSysExit) => true | _ => false end.

Definition chk_C02 (w : world) (e : event) : bool :=
  if w_killed w then is_unwind e else                      (* after the kill nothing but unwinding *)
  (* a failed handler is followed at once by the creation and the enqueue of exactly one ExceptionSignal *)
  (match w_expect_exc w with
   | 1 => match e with ESigNew _ c p _ => (c =? CLS_EXCEPTION)%nat && (p =? -20)%Z | _ => false end
   | 2 => match e with
          | EEnq sid q => (sid =? w_exc_sid w)%nat && (q =? w_active w)%nat
          | EDropped sid => (sid =? w_exc_sid w)%nat && w_fq w
          | _ => false end
   | _ => true
   end) &&
  match e with
  | EHandler h sid d =>
    match w_frames w with
    | f :: _ =>
      (f_sid f =? sid)%nat && negb (f_in f) && negb (w_fq w) &&
      match hand w (f_cls f) with
      | Some hs => match nth_error hs (f_idx f) with
                   | Some (h', d') => (h =? h')%nat && (d =? d')%nat
                   | None => false end
      | None => false
      end
    | [] => false
    end
  | EHandlerEnd h sid how =>
    match how with
    | None | Some XError =>            (* the handler's own dispatch frame is the innermost one *)
      match w_frames w with f :: _ => (f_sid f =? sid)%nat && f_in f | [] => false end
    | _ => match unwind_to sid (w_frames w) with f :: _ => f_in f | [] => false end
    end
  | EDispatchEnd sid =>
    match w_frames w with
    | f :: _ =>
      (f_sid f =? sid)%nat && negb (f_in f) &&
      (w_fq w || (f_idx f =? match hand w (f_cls f) with Some hs => length hs | None => 0 end)%nat)
    | [] => false
    end
  | EKill =>
    match w_frames w with
    | f :: _ => (f_cls f =? CLS_EXCEPTION)%nat && (f_idx f =? 0)%nat && negb (f_in f) &&
                match hand w CLS_EXCEPTION with None => true | Some _ => false end
    | [] => false
    end
  | EQuitCb _ => negb (w_killed w)
  | _ => true
  end.

(* ================================================================== C03 *)
Definition chk_C03_gen (strict : bool) (w : world) (e : event) : bool :=
  match e with
  | EEnq sid q => (q =? route_target w (sig_src w sid))%nat         (* routed to the innermost owning level, else the active one *)
  | EDispatch sid q d => (q =? w_active w)%nat && (d =? length (w_levels w))%nat   (* only the innermost loop's queue is read *)
  | ERequeue sid q => (q =? w_active w)%nat
  | ENewLoopReturn q =>
    (* returns only after its level was closed (or all were force-quit).  Not true of a level opened by a
       handler that had already closed a loop (the stale stop flag ends the new loop at once): finding F13;
       the non-strict form, which is what the theorem states, exempts such levels *)
    negb (existsb (Nat.eqb q) (w_levels w)) || (negb strict && existsb (Nat.eqb q) (w_stillborn w))
  | EClosePop q => match last_opt (w_levels w) with Some t => (t =? q)%nat | None => false end
  | _ => true
  end.

Definition chk_C03 := chk_C03_gen true.            (* the property as stated *)
Definition chk_C03_partial := chk_C03_gen false.   (* what holds of the code: see finding F13 *)

(* ================================================================== C09 *)
Definition chk_C09 (w : world) (e : event) : bool :=
  (* after a force-quit no handler is invoked, nothing is enqueued, no nested loop starts *)
  (if w_fq w then
     match e with EHandler _ _ _ | EEnq _ _ | ENewLoopEnter _ | EDispatch _ _ _ => false | _ => true end
   else true) &&
  (* while an ExitMainLoop is in flight inside run(): nothing but unwinding, then the quit callback and the return *)
  (if w_exiting w && w_in_run w then
     match e with
     | EHandlerEnd _ _ (Some XExit) | EQuitCb _ | ERunReturn => true
     | _ => false
     end
   else true) &&
  match e with
  | EQuitCb a => w_in_run w && negb (w_quit_called w) &&
                 match w_quit w with Some a' => (a =? a')%nat | None => false end
  | ERunReturn =>
    w_in_run w &&
    (match w_quit w with Some _ => w_quit_called w | None => true end) &&      (* says so, once *)
    (negb (w_run_levels1 w) || w_cause w)          (* nothing but exit / last level closed / force-quit ends run() *)
  | ENewLoopReturn _ => true
  | _ => true
  end.

(* ================================================================== C10 *)
Definition chk_C10 (w : world) (e : event) : bool :=
  match e with
  | EProcReturn (Some c) t =>
    (* a wait returns only after a signal of exactly that class was dispatched since the call began
       (wt_released is set by such a dispatch, at any depth) — or the loops were told to stop
       (close_loop / force_quit: "or the loop quited") *)
    match find (fun x => (wt_ticket x =? t)%nat) (w_waiters w) with
    | Some x => (wt_cls x =? c)%nat && (wt_released x || negb (w_runloop w))
    | None => false
    end
  | EDispatch sid q d =>
    (* once released, a waiter dispatches nothing more in its own frame *)
    forallb (fun x => negb (wt_released x && (wt_depth x =? length (w_frames w))%nat)) (w_waiters w) &&
    (* the non-waiting form dispatches one priority batch only *)
    match w_iters w with
    | (dp, Some p) :: _ => negb (dp =? length (w_frames w))%nat || (sig_prio w sid =? p)%Z
    | _ => true
    end
  | _ => true
  end.

(* ---- running a monitor ---- *)
Fixpoint run_mon (chk : world -> event -> bool) (w : world) (t : list event) (idx : nat) : option nat :=
  match t with
  | [] => None
  | e :: r => if chk w e then run_mon chk (world_step w e) r (S idx) else Some idx
  end.
Definition ok (chk : world -> event -> bool) (t : list event) : bool :=
  match run_mon chk world0 t 0 with None => true | Some _ => false end.

Definition ok_C01 := ok chk_C01.
Definition ok_C02 := ok chk_C02.
Definition ok_C03 := ok chk_C03.
Definition ok_C03_partial := ok chk_C03_partial.
Definition ok_C09 := ok chk_C09.
Definition ok_C10 := ok chk_C10.
