(* Conc.v — L4: concurrent submission.  A small-step interleaving semantics of exactly the shared
   accesses of MainLoop.enqueue_signal / execute_new_loop / close_loop / force_quit /
   register_signal_source / the dispatching get (simpleline/event_loop/main_loop.py, event_queue.py),
   separate from the fuel interpreter LoopSem.v.  Definitions only.

   Threads are program-counter machines; one [step] = one shared access (in program order) of the
   scheduled thread.  A schedule is a list of thread ids; the turn of a blocked or finished thread is
   a stutter.  Thread 0 is the loop thread in the theorems, the others only submit; the machine itself
   is generic (every thread runs a list of [action]s).

   The shared store is relational (tables keyed by queue-object id), so it is first-order, computable
   and needs no "valid id" side conditions:
     h_pend  : (q, (priority, counter, sid))   entries inside the PriorityQueue of queue object q
     h_cnt   : q |-> next value of q._counter  (itertools.count)
     h_src   : (q, o)                          o in q._contained_screens
     h_qlock : q |-> 0 (free) | S t (held by thread t)          EventQueue._lock
     h_mlock : 0 | S t                                          MainLoop._lock
   Accesses a thread makes to variables that only itself writes (the loop thread reading
   _active_queue, _event_queues, _run_loop, _force_quit outside enqueue_signal) are not steps:
   they commute with every step of every other thread.

   Modelled, not verified: CPython executes each single access atomically (GIL; queue.Queue's mutex;
   itertools.count.__next__; list.append/pop/clear; set.add/__contains__; the list reverse iterator's
   __next__ tests `index < len(list)` and reads the item in one go), sequential consistency,
   threading.Lock semantics, PriorityQueue.get returns the least (priority, counter) entry. *)
From Coq Require Import ZArith List Bool Arith.
From RecordUpdate Require Import RecordUpdate.
Import ListNotations.

(* ------------------------------------------------------------------ data *)
Record sig := { s_id : nat; s_prio : Z; s_src : option nat }.   (* source None: registered nowhere *)
Definition entry := (Z * nat * nat)%type.                        (* (priority, counter, sid) *)
Definition e_prio (e : entry) : Z := fst (fst e).
Definition e_cnt (e : entry) : nat := snd (fst e).
Definition e_sid (e : entry) : nat := snd e.

Inductive action :=
| ASubmit (s : sig)        (* loop.enqueue_signal(s) *)
| ADispatch                (* while self._run_loop: signal = self._active_queue.get(); process (one turn) *)
| ARegister (o : nat)      (* loop.register_signal_source(o) *)
| AOpen (s : sig)          (* loop.execute_new_loop(s) up to the entry of the nested _mainloop *)
| AClose                   (* loop.close_loop() *)
| AForceQuit.              (* loop.force_quit() *)

(* program points inside enqueue_signal *)
Inductive epc :=
| EFq                               (* if self._force_quit: return *)
| EAcqM                             (* with self._lock: *)
| EMkIter                           (* reversed(self._event_queues) *)
| ENext (k : nat)                   (* next(iterator): k = index of the item to read, plus one *)
| EAcqQ (q i : nat)                 (* contains_source: with queue._lock: *)
| ETest (q i : nat)                 (*   signal_source in self._contained_screens *)
| ERelQ (q i : nat) (b : bool)      (*   release *)
| ECnt (q : nat) (locked : bool)    (* next(self._counter) *)
| EPut (q c : nat) (locked : bool)  (* self._queue.put((priority, c, signal)) *)
| ERelMDone                         (* return True inside the with: release *)
| ERelMFb                           (* loop exhausted: release *)
| ELoadAct.                         (* self._active_queue (fallback) *)

Inductive how := HOk | HExit | HExn.   (* close_loop: normal | ExitMainLoop (last level popped) | IndexError (pop of []) *)

Inductive pc :=
| P0                                   (* between actions: the next step starts the head of the program *)
| PE (s : sig) (e : epc)               (* inside enqueue_signal(s) *)
| PRAdd (q o : nat) | PRRel (q : nat)  (* add_source under the queue lock *)
| POAcq (s : sig) | POApp (s : sig) | PORel (s : sig)     (* execute_new_loop after `_active_queue = EventQueue()` *)
| PCEmpty (p : Z)                      (* close_loop -> process_signals: `while not empty()`, batch priority p known *)
| PCGet (p : option Z)                 (*   get() / get_top_event_if_priority: self._queue.get() *)
| PCPutBack (e : entry)                (*   self._queue.put(entry): other priority, goes back *)
| PCAcq | PCPop | PCRepoint | PCRel (h : how)   (* with self._lock: pop; re-point; release (then `_run_loop = False`) *)
| PCRet                                (* close_loop has returned with _run_loop = False; the handler that called it is still
                                          running (other threads are scheduled meanwhile); the next step is its return: the closed
                                          level's _mainloop leaves `while self._run_loop` and does `if not _force_quit: _run_loop = True` *)
| PFClear                              (* force_quit after `_force_quit = True` *)
| PDead.                               (* the thread left through ExitMainLoop: the rest of its program never runs *)

Record thread := { t_prog : list action; t_pc : pc }.

Record shared := {
  h_fq : bool; h_run : bool;
  h_evq : list nat;                    (* _event_queues, outermost first *)
  h_active : nat;                      (* _active_queue *)
  h_nq : nat;                          (* number of EventQueue objects created; ids are creation order *)
  h_mlock : nat;
  h_qlock : list (nat * nat);
  h_cnt : list (nat * nat);
  h_src : list (nat * nat);
  h_pend : list (nat * entry);
  h_disp : list nat;                   (* ghost: sids handed to _process_signal, in order *)
  h_drop : list nat;                   (* ghost: sids discarded because _force_quit was read True *)
  h_putlog : list (nat * (nat * entry));   (* ghost: (thread, (q, entry)) for every first put, newest first *)
  h_trace : list (nat * list Z)        (* ghost: (thread, label) of every performed access, newest first *)
}.
#[export] Instance eta_shared : Settable _ := settable! Build_shared
  <h_fq; h_run; h_evq; h_active; h_nq; h_mlock; h_qlock; h_cnt; h_src; h_pend; h_disp; h_drop; h_putlog; h_trace>.

Record cstate := { c_thr : list thread; c_sh : shared }.

(* ------------------------------------------------------------------ tables *)
Fixpoint aget (m : list (nat * nat)) (k : nat) : nat :=
  match m with [] => 0 | (k', v) :: r => if k' =? k then v else aget r k end.
Definition aset (m : list (nat * nat)) (k v : nat) : list (nat * nat) := (k, v) :: m.

Definition has_pair (m : list (nat * nat)) (q o : nat) : bool :=
  existsb (fun x => (fst x =? q) && (snd x =? o)) m.
Definition has_src (m : list (nat * nat)) (q : nat) (src : option nat) : bool :=
  match src with Some o => has_pair m q o | None => false end.
Definition add_src (m : list (nat * nat)) (q o : nat) : list (nat * nat) :=
  if has_pair m q o then m else (q, o) :: m.

(* tuple comparison of (priority, counter) *)
Definition entry_le (a b : entry) : bool :=
  (e_prio a <? e_prio b)%Z || ((e_prio a =? e_prio b)%Z && (e_cnt a <=? e_cnt b)).

(* PriorityQueue.get() of queue object q: the least entry, removed; None = the queue is empty *)
Fixpoint pop_min (q : nat) (l : list (nat * entry)) : option (entry * list (nat * entry)) :=
  match l with
  | [] => None
  | (q', e) :: r =>
    if q' =? q then
      match pop_min q r with
      | None => Some (e, r)
      | Some (m, r') => if entry_le e m then Some (e, r) else Some (m, (q', e) :: r')
      end
    else
      match pop_min q r with
      | None => None
      | Some (m, r') => Some (m, (q', e) :: r')
      end
  end.
Definition q_empty (q : nat) (l : list (nat * entry)) : bool := negb (existsb (fun x => fst x =? q) l).

Fixpoint upd {A} (i : nat) (a : A) (l : list A) : list A :=
  match l, i with
  | [], _ => []
  | _ :: r, 0 => a :: r
  | x :: r, S j => x :: upd j a r
  end.

(* ------------------------------------------------------------------ labels (ghost) *)
Definition zn (n : nat) : Z := Z.of_nat n.
Definition zb (b : bool) : Z := if b then 1%Z else 0%Z.
Definition lbl (t : nat) (l : list Z) (h : shared) : shared := h <| h_trace := (t, l) :: h_trace h |>.
(* kinds: 1 read _force_quit b | 2 acquire MainLoop._lock | 3 reversed(_event_queues) len | 4 next -> q / -1
   5 acquire q._lock | 6 membership q b | 7 release q._lock | 8 next(counter) q c | 9 put q sid
   10 release MainLoop._lock | 11 read _active_queue q | 12 get q sid | 13 nothing shared (skipped)
   14 set.add q o | 15 write _active_queue := new q | 16 append q | 17 empty() q b | 19 pop -> q / -1
   20 write _active_queue := q (re-point) | 21 write _force_quit | 22 clear
   27 the handler that closed a level returns: _mainloop re-arms _run_loop *)

(* ------------------------------------------------------------------ enqueue_signal *)
Definition estep (t : nat) (s : sig) (e : epc) (h : shared) : option (option epc * shared) :=
  match e with
  | EFq =>
    if h_fq h then Some (None, lbl t [1; 1] (h <| h_drop := h_drop h ++ [s_id s] |>))%Z
    else Some (Some EAcqM, lbl t [1; 0] h)%Z
  | EAcqM =>
    match h_mlock h with
    | 0 => Some (Some EMkIter, lbl t [2]%Z (h <| h_mlock := S t |>))
    | S _ => None
    end
  | EMkIter => Some (Some (ENext (length (h_evq h))), lbl t [3%Z; zn (length (h_evq h))] h)
  | ENext k =>
    match k with
    | 0 => Some (Some ERelMFb, lbl t [4; -1]%Z h)
    | S i =>
      match nth_error (h_evq h) i with
      | Some q => Some (Some (EAcqQ q i), lbl t [4%Z; zn q] h)
      | None => Some (Some ERelMFb, lbl t [4; -1]%Z h)
      end
    end
  | EAcqQ q i =>
    match aget (h_qlock h) q with
    | 0 => Some (Some (ETest q i), lbl t [5%Z; zn q] (h <| h_qlock := aset (h_qlock h) q (S t) |>))
    | S _ => None
    end
  | ETest q i =>
    let b := has_src (h_src h) q (s_src s) in
    Some (Some (ERelQ q i b), lbl t [6%Z; zn q; zb b] h)
  | ERelQ q i b =>
    Some (Some (if b then ECnt q true else ENext i),
          lbl t [7%Z; zn q] (h <| h_qlock := aset (h_qlock h) q 0 |>))
  | ECnt q lk =>
    let c := aget (h_cnt h) q in
    Some (Some (EPut q c lk), lbl t [8%Z; zn q; zn c] (h <| h_cnt := aset (h_cnt h) q (S c) |>))
  | EPut q c lk =>
    let e := (s_prio s, c, s_id s) in
    Some (if lk then Some ERelMDone else None,
          lbl t [9%Z; zn q; zn (s_id s)]
              (h <| h_pend := h_pend h ++ [(q, e)] |> <| h_putlog := (t, (q, e)) :: h_putlog h |>))
  | ERelMDone => Some (None, lbl t [10]%Z (h <| h_mlock := 0 |>))
  | ERelMFb => Some (Some ELoadAct, lbl t [10]%Z (h <| h_mlock := 0 |>))
  | ELoadAct => Some (Some (ECnt (h_active h) false), lbl t [11%Z; zn (h_active h)] h)
  end.

Definition mk (prog : list action) (p : pc) : thread := {| t_prog := prog; t_pc := p |}.

Definition enq (t : nat) (s : sig) (e : epc) (prog : list action) (h : shared) : option (thread * shared) :=
  match estep t s e h with
  | None => None
  | Some (None, h') => Some (mk prog P0, h')
  | Some (Some e', h') => Some (mk prog (PE s e'), h')
  end.

(* `while not self._active_queue.empty() and self._run_loop` of _process_signals_iteration *)
Definition close_empty (t : nat) (p : option Z) (prog : list action) (h : shared) : option (thread * shared) :=
  let q := h_active h in
  let b := q_empty q (h_pend h) in
  Some (mk prog (if b || negb (h_run h) then PCAcq else PCGet p), lbl t [17%Z; zn q; zb b] h).

Definition dispatched (t q : nat) (e : entry) (pend' : list (nat * entry)) (h : shared) : shared :=
  lbl t [12%Z; zn q; zn (e_sid e)] (h <| h_pend := pend' |> <| h_disp := h_disp h ++ [e_sid e] |>).

(* the first access of an action; [prog] = the actions after it *)
Definition start (t : nat) (a : action) (prog : list action) (h : shared) : option (thread * shared) :=
  match a with
  | ASubmit s => enq t s EFq prog h
  | ADispatch =>
    if h_run h then
      match pop_min (h_active h) (h_pend h) with
      | None => None                                         (* get() blocks on the empty queue *)
      | Some (e, pend') => Some (mk prog P0, dispatched t (h_active h) e pend' h)
      end
    else Some (mk prog P0, lbl t [13]%Z h)
  | ARegister o =>
    let q := h_active h in
    match aget (h_qlock h) q with
    | 0 => Some (mk prog (PRAdd q o), lbl t [5%Z; zn q] (h <| h_qlock := aset (h_qlock h) q (S t) |>))
    | S _ => None
    end
  | AOpen s =>
    if h_fq h then Some (mk prog P0, lbl t [13]%Z (h <| h_drop := h_drop h ++ [s_id s] |>))   (* `if self._force_quit: return` *)
    else let q := h_nq h in
         Some (mk prog (POAcq s), lbl t [15%Z; zn q] (h <| h_active := q |> <| h_nq := S q |>))
  | AClose => close_empty t None prog h
  | AForceQuit => Some (mk prog PFClear, lbl t [21]%Z (h <| h_fq := true |>))
  end.

(* a step at a program point inside an action *)
Definition cont (t : nat) (p : pc) (prog : list action) (h : shared) : option (thread * shared) :=
  match p with
  | P0 | PDead => None
  | PE s e => enq t s e prog h
  | PRAdd q o => Some (mk prog (PRRel q), lbl t [14%Z; zn q; zn o] (h <| h_src := add_src (h_src h) q o |>))
  | PRRel q => Some (mk prog P0, lbl t [7%Z; zn q] (h <| h_qlock := aset (h_qlock h) q 0 |>))
  | POAcq s =>
    match h_mlock h with
    | 0 => Some (mk prog (POApp s), lbl t [2]%Z (h <| h_mlock := S t |>))
    | S _ => None
    end
  | POApp s => Some (mk prog (PORel s), lbl t [16%Z; zn (h_active h)] (h <| h_evq := h_evq h ++ [h_active h] |>))
  | PORel s => Some (mk prog (PE s EFq), lbl t [10]%Z (h <| h_mlock := 0 |>))
  | PCEmpty p => close_empty t (Some p) prog h
  | PCGet p =>
    let q := h_active h in
    match pop_min q (h_pend h) with
    | None => None
    | Some (e, pend') =>
      match p with
      | None => Some (mk prog (PCEmpty (e_prio e)), dispatched t q e pend' h)
      | Some p0 =>
        if (e_prio e =? p0)%Z then Some (mk prog (PCEmpty p0), dispatched t q e pend' h)
        else Some (mk prog (PCPutBack e), lbl t [12%Z; zn q; zn (e_sid e)] (h <| h_pend := pend' |>))
      end
    end
  | PCPutBack e =>
    Some (mk prog PCAcq, lbl t [9%Z; zn (h_active h); zn (e_sid e)]
                             (h <| h_pend := h_pend h ++ [(h_active h, e)] |>))
  | PCAcq =>
    match h_mlock h with
    | 0 => Some (mk prog PCPop, lbl t [2]%Z (h <| h_mlock := S t |>))
    | S _ => None
    end
  | PCPop =>
    match h_evq h with
    | [] => Some (mk prog (PCRel HExn), lbl t [19; -1]%Z h)
    | _ :: _ =>
      let l' := removelast (h_evq h) in
      Some (mk prog (match l' with [] => PCRel HExit | _ :: _ => PCRepoint end),
            lbl t [19%Z; zn (last (h_evq h) 0)] (h <| h_evq := l' |>))
    end
  | PCRepoint =>
    let q := last (h_evq h) 0 in
    Some (mk prog (PCRel HOk), lbl t [20%Z; zn q] (h <| h_active := q |>))
  | PCRel hw =>
    let h' := lbl t [10]%Z (h <| h_mlock := 0 |>) in
    match hw with
    | HOk => Some (mk prog PCRet, h' <| h_run := false |>)          (* ...; self._run_loop = False *)
    | HExit => Some (mk prog PDead, h')                             (* ExitMainLoop: the loop thread leaves run() *)
    | HExn => Some (mk prog P0, h')                               (* IndexError, swallowed by _process_signal *)
    end
  | PCRet => Some (mk prog P0, lbl t [27]%Z (h <| h_run := if h_fq h then h_run h else true |>))
  | PFClear => Some (mk prog P0, lbl t [22]%Z (h <| h_evq := [] |> <| h_run := false |>))
  end.

Definition tstep (t : nat) (th : thread) (h : shared) : option (thread * shared) :=
  match t_pc th with
  | P0 => match t_prog th with [] => None | a :: r => start t a r h end
  | p => cont t p (t_prog th) h
  end.

Definition finished (th : thread) : bool :=
  match t_pc th, t_prog th with P0, [] => true | PDead, _ => true | _, _ => false end.

(* ------------------------------------------------------------------ schedules *)
Definition step (t : nat) (st : cstate) : cstate :=
  match nth_error (c_thr st) t with
  | None => st
  | Some th =>
    match tstep t th (c_sh st) with
    | None => st
    | Some (th', h') => {| c_thr := upd t th' (c_thr st); c_sh := h' |}
    end
  end.

Definition steps (sch : list nat) (st : cstate) : cstate := fold_left (fun s t => step t s) sch st.

Definition h0 : shared :=
  {| h_fq := false; h_run := true; h_evq := [0]; h_active := 0; h_nq := 1; h_mlock := 0; h_qlock := [];
     h_cnt := []; h_src := []; h_pend := []; h_disp := []; h_drop := []; h_putlog := []; h_trace := [] |}.
Definition init (progs : list (list action)) : cstate :=
  {| c_thr := map (fun p => mk p P0) progs; c_sh := h0 |}.

Definition enabled (t : nat) (st : cstate) : bool :=
  match nth_error (c_thr st) t with
  | None => false
  | Some th => match tstep t th (c_sh st) with None => false | Some _ => true end
  end.

(* blocked in PriorityQueue.get() on an empty queue *)
Definition waiting_get (th : thread) (h : shared) : bool :=
  match t_pc th, t_prog th with
  | P0, ADispatch :: _ => h_run h && q_empty (h_active h) (h_pend h)
  | PCGet _, _ => q_empty (h_active h) (h_pend h)
  | _, _ => false
  end.

(* ------------------------------------------------------------------ places of signals *)
Definition act_sids (a : action) : list nat :=
  match a with ASubmit s => [s_id s] | AOpen s => [s_id s] | _ => [] end.
Definition prog_sids (p : list action) : list nat := flat_map act_sids p.

(* the signal a thread is about to put (not yet in any queue) / holds between get() and the put back *)
Definition pc_unput (p : pc) : list nat :=
  match p with
  | PE s ERelMDone => []
  | PE s _ => [s_id s]
  | POAcq s | POApp s | PORel s => [s_id s]
  | _ => []
  end.
Definition pc_held (p : pc) : list nat := match p with PCPutBack e => [e_sid e] | _ => [] end.

Definition thr_unput (th : thread) : list nat := pc_unput (t_pc th) ++ prog_sids (t_prog th).
Definition thr_held (th : thread) : list nat := pc_held (t_pc th).

Definition unput (st : cstate) : list nat := flat_map thr_unput (c_thr st).
Definition held (st : cstate) : list nat := flat_map thr_held (c_thr st).
Definition pending (st : cstate) : list nat := map (fun x => e_sid (snd x)) (h_pend (c_sh st)).

(* every place a signal can be in, as one list *)
Definition places (st : cstate) : list nat :=
  unput st ++ held st ++ pending st ++ h_disp (c_sh st) ++ h_drop (c_sh st).

(* a queue object the loop still knows: in _event_queues, or _active_queue (just created, not yet appended) *)
Definition live (h : shared) (q : nat) : bool := existsb (Nat.eqb q) (h_evq h) || (q =? h_active h).
Definition pending_live (st : cstate) : list nat :=
  map (fun x => e_sid (snd x)) (filter (fun x => live (c_sh st) (fst x)) (h_pend (c_sh st))).
Definition pending_dead (st : cstate) : list nat :=
  map (fun x => e_sid (snd x)) (filter (fun x => negb (live (c_sh st) (fst x))) (h_pend (c_sh st))).

(* ------------------------------------------------------------------ exhaustive exploration (used by the check) *)
Definition enabled_tids (st : cstate) : list nat := filter (fun t => enabled t st) (seq 0 (length (c_thr st))).

(* all maximal stutter-free schedules from [st] (depth <= fuel), at most [cap] of them, depth first;
   the accumulator carries (how many more are allowed, schedules found so far) *)
Fixpoint explore (fuel : nat) (st : cstate) (pre : list nat) (acc : nat * list (list nat)) : nat * list (list nat) :=
  match fst acc with
  | 0 => acc
  | S c =>
    match fuel with
    | 0 => (c, rev pre :: snd acc)
    | S f =>
      match enabled_tids st with
      | [] => (c, rev pre :: snd acc)
      | en => fold_left (fun a t => explore f (step t st) (t :: pre) a) en acc
      end
    end
  end.
