(* TextWrapProofs.v — lemmas about textwrap's _wrap_chunks / _handle_long_word as modelled in TextWrap.v:
   termination (the fuel suffices), width bound, conservation of non-blank characters, shape of the
   produced lines, greediness.  Render-level consequences are in TextWrapRender.v. *)
From SL Require Import Tac.
From SL Require Import PyInt Widget TextWrap.
Import ListNotations.
Local Open Scope nat_scope.

(* ------------------------------------------------------------------ vocabulary of the statements *)
Definition nonblank (s : str) : str := filter (fun c => negb (is_py_space c)) s.

(* the three small pieces wrap_step is made of *)
Definition drop_lead (chunks : list str) (first : bool) : list str :=
  match chunks with c :: r => if all_blank c && negb first then r else chunks | [] => [] end.
Definition trim_last (cur : list str) : list str :=
  match rev cur with lastc :: before => if all_blank lastc then rev before else cur | [] => cur end.
Definition line_of (cur : list str) : option str :=
  match cur with [] => None | _ => Some (concat cur) end.
Definition space_left (w cur_len : nat) : nat := if w <? 1 then 1 else w - cur_len.

Definition opt_line (l : option str) : list str := match l with Some l => [l] | None => [] end.
Definition is_nil {A} (l : list A) : bool := match l with [] => true | _ => false end.

(* the loop measure: every iteration consumes a chunk or a character *)
Definition measure (cs : list str) : nat := total_len cs + length cs.

(* ------------------------------------------------------------------ lists of strings *)
Lemma total_len_app a b : total_len (a ++ b) = total_len a + total_len b.
Proof. induction a as [|x a IH]; simpl; lia. Qed.

Lemma length_concat (cs : list str) : length (concat cs) = total_len cs.
Proof. induction cs as [|c cs IH]; simpl; [|rewrite app_length]; lia. Qed.

Lemma nonblank_app a b : nonblank (a ++ b) = nonblank a ++ nonblank b.
Proof. apply filter_app. Qed.

Lemma all_blank_nonblank c : all_blank c = true -> nonblank c = [].
Proof.
  unfold all_blank, nonblank. induction c as [|x c IH]; cbn [forallb filter]; intros H; [reflexivity|].
  apply andb_true_iff in H. destruct H as [H1 H2]. rewrite H1. cbn [negb]. auto.
Qed.

Lemma concat_snoc (l : list str) (x : str) : concat (l ++ [x]) = concat l ++ x.
Proof. rewrite concat_app. simpl. rewrite app_nil_r. reflexivity. Qed.

(* ------------------------------------------------------------------ break_point *)
Lemma rfind_hyphen_range s : forall n idx best h,
  rfind_hyphen s n idx best = Some h -> best = Some h \/ (idx <= h < idx + n).
Proof.
  induction s as [|c r IH]; intros n idx best h H; destruct n as [|n']; simpl in H; auto.
  apply IH in H. destruct H as [H|H]; [|right; lia].
  destruct (c =? HY)%N; [inversion H; right; lia | auto].
Qed.

Lemma break_point_le c sl : break_point c sl <= sl.
Proof.
  unfold break_point. destruct (sl <? length c); [|lia].
  destruct (rfind_hyphen c sl 0 None) as [h|] eqn:E; [|lia].
  apply rfind_hyphen_range in E. destruct E as [E|E]; [discriminate|].
  destruct (_ && _); lia.
Qed.

Lemma break_point_pos c sl : 1 <= sl -> 1 <= break_point c sl.
Proof.
  intros Hsl. unfold break_point. destruct (sl <? length c); [|lia].
  destruct (rfind_hyphen c sl 0 None) as [h|] eqn:E; [|lia].
  destruct (_ && _); lia.
Qed.

Lemma space_left_le w cl : 1 <= w -> space_left w cl <= w - cl.
Proof. intros H. unfold space_left. destruct (w <? 1) eqn:E; [apply Nat.ltb_lt in E|]; lia. Qed.

Lemma space_left_pos w : 1 <= space_left w 0.
Proof. unfold space_left. destruct (w <? 1) eqn:E; [|apply Nat.ltb_ge in E]; lia. Qed.

(* ------------------------------------------------------------------ take_fitting: the greedy inner loop *)
Lemma take_fitting_spec w : forall chunks cur cl cur' cl' rest,
  take_fitting chunks cur cl w = (cur', cl', rest) -> cl = total_len cur ->
  cur ++ chunks = cur' ++ rest /\ cl' = total_len cur' /\ (cl <= w -> cl' <= w) /\
  (forall c r, rest = c :: r -> cl' + length c > w).
Proof.
  induction chunks as [|c r IH]; intros cur cl cur' cl' rest H Hcl; simpl in H.
  - inversion H; subst. repeat split; auto. intros; discriminate.
  - destruct (cl + length c <=? w) eqn:E.
    + apply IH in H; [|rewrite total_len_app; simpl; lia].
      destruct H as (A & B & C & D). rewrite <- app_assoc in A. simpl in A.
      apply Nat.leb_le in E. repeat split; auto.
    + inversion H; subst. apply Nat.leb_gt in E. repeat split; auto.
      intros c0 r0 Heq; inversion Heq; subst. lia.
Qed.

(* ------------------------------------------------------------------ wrap_step, decomposed *)
Lemma wrap_step_spec chunks w first :
  exists cur rest,
    drop_lead chunks first = cur ++ rest /\ total_len cur <= w /\
    match rest with
    | [] => wrap_step chunks w first = (line_of (trim_last cur), [])
    | c :: r =>
        total_len cur + length c > w /\
        wrap_step chunks w first =
          if w <? length c then
            let e := break_point c (space_left w (total_len cur)) in
            (line_of (trim_last (cur ++ [firstn e c])), skipn e c :: r)
          else (line_of (trim_last cur), rest)
    end.
Proof.
  unfold wrap_step. fold (drop_lead chunks first).
  destruct (take_fitting (drop_lead chunks first) [] 0 w) as [[cur cl] rest] eqn:E.
  apply take_fitting_spec in E; [|reflexivity]. simpl in E. destruct E as (A & B & C & D).
  exists cur, rest. split; [exact A|]. split; [lia|]. subst cl.
  destruct rest as [|c r]; [reflexivity|].
  split; [eapply D; reflexivity|].
  destruct (w <? length c); reflexivity.
Qed.

Lemma trim_last_cases cur :
  trim_last cur = cur \/ exists lastc, cur = trim_last cur ++ [lastc] /\ all_blank lastc = true.
Proof.
  unfold trim_last. destruct (rev cur) as [|lastc before] eqn:E; [left; reflexivity|].
  destruct (all_blank lastc) eqn:B; [right|left; reflexivity].
  exists lastc. split; [|exact B].
  rewrite <- (rev_involutive cur), E. reflexivity.
Qed.

Lemma line_of_opt cur : concat (opt_line (line_of cur)) = concat cur.
Proof. destruct cur; simpl; [reflexivity|]. rewrite app_nil_r. reflexivity. Qed.

Lemma drop_lead_cases chunks first :
  drop_lead chunks first = chunks \/
  exists c, chunks = c :: drop_lead chunks first /\ all_blank c = true /\ first = false.
Proof.
  destruct chunks as [|c r]; [left; reflexivity|]. simpl.
  destruct (all_blank c) eqn:B; destruct first; simpl; auto.
  right. exists c. auto.
Qed.

(* ------------------------------------------------------------------ 1. termination *)
Lemma measure_app a b : measure (a ++ b) = measure a + measure b.
Proof. unfold measure. rewrite total_len_app, app_length. lia. Qed.

Lemma wrap_step_decreases chunks w first :
  chunks <> [] -> measure (snd (wrap_step chunks w first)) < measure chunks.
Proof.
  intros Hne.
  assert (Hd : measure (drop_lead chunks first) <= measure chunks /\
               (drop_lead chunks first = [] \/ drop_lead chunks first = chunks \/
                measure (drop_lead chunks first) < measure chunks)).
  { destruct (drop_lead_cases chunks first) as [H|(c & H & _)].
    - rewrite H. split; [lia|auto].
    - remember (drop_lead chunks first) as d eqn:Ed. clear Ed. subst chunks.
      unfold measure; simpl. split; [lia|right; right; lia]. }
  destruct (wrap_step_spec chunks w first) as (cur & rest & A & B & C).
  destruct rest as [|c r].
  - rewrite C. simpl. destruct chunks; [congruence|]. unfold measure; simpl; lia.
  - destruct C as [C1 C2]. rewrite C2. rewrite A, measure_app in Hd.
    destruct (w <? length c) eqn:L.
    + apply Nat.ltb_lt in L. cbv zeta. cbn [snd].
      unfold measure in *. cbn [total_len length] in *. rewrite skipn_length.
      destruct cur as [|c0 cur'].
      * cbn [total_len] in *.
        pose proof (break_point_pos c (space_left w 0) (space_left_pos w)) as P.
        destruct Hd as [Hd1 [Hd2|[Hd2|Hd2]]]; [discriminate| |]; cbn [length] in *; lia.
      * cbn [length] in *. lia.
    + apply Nat.ltb_ge in L. cbn [snd].
      destruct cur as [|c0 cur']; [simpl in C1; lia|].
      unfold measure in *. cbn [total_len length] in *. lia.
Qed.

Lemma wrap_loop_S f c r w lines :
  wrap_loop (S f) (c :: r) w lines =
  wrap_loop f (snd (wrap_step (c :: r) w (is_nil lines))) w
            (lines ++ opt_line (fst (wrap_step (c :: r) w (is_nil lines)))).
Proof.
  cbn [wrap_loop]. fold (is_nil lines).
  destruct (wrap_step (c :: r) w (is_nil lines)) as [[l|] rest]; cbn [fst snd opt_line];
    [|rewrite app_nil_r]; reflexivity.
Qed.

Lemma wrap_loop_fuel w : forall fuel chunks lines,
  measure chunks < fuel -> wrap_loop fuel chunks w lines <> None.
Proof.
  induction fuel as [|f IH]; intros chunks lines H; [lia|].
  destruct chunks as [|c r]; [simpl; discriminate|].
  rewrite wrap_loop_S. apply IH.
  assert (D : c :: r <> []) by discriminate.
  apply (wrap_step_decreases (c :: r) w (is_nil lines)) in D. lia.
Qed.

(* the fuel of wrap_chunks suffices: for EVERY chunk list (empty chunks included) and EVERY width *)
Lemma wrap_chunks_fuel_enough chunks w : wrap_chunks chunks w <> None.
Proof. unfold wrap_chunks, wrap_fuel. apply wrap_loop_fuel. unfold measure. lia. Qed.

Lemma wrap_all_total chunkss w : wrap_all chunkss w <> None.
Proof.
  induction chunkss as [|cs r IH]; simpl; [discriminate|].
  destruct (wrap_chunks cs w) eqn:E; [|exfalso; eapply wrap_chunks_fuel_enough; eauto].
  destruct (wrap_all r w); [discriminate|congruence].
Qed.

(* ------------------------------------------------------------------ loop invariants, generically *)
Lemma wrap_loop_inv w (I : list str -> list str -> Prop) :
  (forall chunks lines, chunks <> [] -> I chunks lines ->
     I (snd (wrap_step chunks w (is_nil lines)))
       (lines ++ opt_line (fst (wrap_step chunks w (is_nil lines))))) ->
  forall fuel chunks lines out,
    I chunks lines -> wrap_loop fuel chunks w lines = Some out -> I [] out.
Proof.
  intros Hstep. induction fuel as [|f IH]; intros chunks lines out HI H.
  - destruct chunks; simpl in H; [inversion H; subst; auto | discriminate].
  - destruct chunks as [|c r]; [simpl in H; inversion H; subst; auto|].
    rewrite wrap_loop_S in H. eapply IH; [|exact H]. apply Hstep; [discriminate|exact HI].
Qed.

(* ------------------------------------------------------------------ 2. width *)
Lemma total_len_trim cur : total_len (trim_last cur) <= total_len cur.
Proof.
  destruct (trim_last_cases cur) as [H|(l & H & _)]; [rewrite H; lia|].
  rewrite H at 2. rewrite total_len_app. lia.
Qed.

Lemma wrap_step_width chunks w first l :
  1 <= w -> fst (wrap_step chunks w first) = Some l -> length l <= w.
Proof.
  intros Hw H.
  assert (G : forall cur, total_len cur <= w -> line_of (trim_last cur) = Some l -> length l <= w).
  { intros cur Hc Hl. pose proof (total_len_trim cur) as T.
    destruct (trim_last cur); simpl in Hl; [discriminate|].
    inversion Hl; subst. rewrite <- concat_cons, length_concat. exact (Nat.le_trans _ _ _ T Hc). }
  destruct (wrap_step_spec chunks w first) as (cur & rest & A & B & C).
  destruct rest as [|c r].
  - rewrite C in H. eapply G; eauto.
  - destruct C as [C1 C2]. rewrite C2 in H. destruct (w <? length c).
    + cbv zeta in H. cbn [fst] in H. eapply G; [|exact H].
      rewrite total_len_app. cbn [total_len]. rewrite firstn_length.
      pose proof (break_point_le c (space_left w (total_len cur))).
      pose proof (space_left_le w (total_len cur) Hw). lia.
    + eapply G; eauto.
Qed.

Lemma wrap_chunks_width chunks w ls :
  1 <= w -> wrap_chunks chunks w = Some ls -> Forall (fun l => length l <= w) ls.
Proof.
  intros Hw H. unfold wrap_chunks in H.
  apply (wrap_loop_inv w (fun _ lines => Forall (fun l => length l <= w) lines)) in H; auto.
  intros cs lines _ HI. apply Forall_app. split; [exact HI|].
  destruct (fst (wrap_step cs w (is_nil lines))) as [l|] eqn:E; simpl; constructor; auto.
  eapply wrap_step_width; eauto.
Qed.

(* ------------------------------------------------------------------ 3. conservation of non-blank characters *)
Lemma nonblank_trim cur : nonblank (concat (trim_last cur)) = nonblank (concat cur).
Proof.
  destruct (trim_last_cases cur) as [H|(l & H & B)]; [rewrite H; reflexivity|].
  rewrite H at 2. rewrite concat_snoc, nonblank_app, (all_blank_nonblank l B), app_nil_r. reflexivity.
Qed.

Lemma nonblank_drop_lead chunks first :
  nonblank (concat (drop_lead chunks first)) = nonblank (concat chunks).
Proof.
  destruct (drop_lead_cases chunks first) as [H|(c & H & B & _)]; [rewrite H; reflexivity|].
  rewrite H at 2. simpl. rewrite nonblank_app, (all_blank_nonblank c B). reflexivity.
Qed.

Lemma wrap_step_conserves chunks w first :
  nonblank (concat (opt_line (fst (wrap_step chunks w first)))) ++
  nonblank (concat (snd (wrap_step chunks w first))) = nonblank (concat chunks).
Proof.
  rewrite <- (nonblank_drop_lead chunks first).
  destruct (wrap_step_spec chunks w first) as (cur & rest & A & B & C). rewrite A.
  destruct rest as [|c r].
  - rewrite C. cbn [fst snd]. rewrite line_of_opt, nonblank_trim, !app_nil_r. reflexivity.
  - destruct C as [_ C]. rewrite C. destruct (w <? length c).
    + cbv zeta. cbn [fst snd]. rewrite line_of_opt, nonblank_trim, concat_snoc.
      rewrite <- nonblank_app, <- app_assoc. cbn [concat]. rewrite (app_assoc (firstn _ c)), firstn_skipn.
      rewrite concat_app. reflexivity.
    + cbn [fst snd]. rewrite line_of_opt, nonblank_trim, <- nonblank_app, concat_app. reflexivity.
Qed.

Lemma wrap_chunks_conserves chunks w ls :
  wrap_chunks chunks w = Some ls -> nonblank (concat ls) = nonblank (concat chunks).
Proof.
  intros H. unfold wrap_chunks in H.
  apply (wrap_loop_inv w (fun cs lines =>
           nonblank (concat lines) ++ nonblank (concat cs) = nonblank (concat chunks))) in H.
  - simpl in H. rewrite app_nil_r in H. exact H.
  - intros cs lines _ HI. rewrite concat_app, nonblank_app, <- app_assoc, wrap_step_conserves. exact HI.
  - reflexivity.
Qed.

(* ------------------------------------------------------------------ characters of the lines come from the chunks *)
Lemma Forall_trim {P : str -> Prop} cur : Forall P cur -> Forall P (trim_last cur).
Proof.
  intros H. destruct (trim_last_cases cur) as [E|(l & E & _)]; [rewrite E; exact H|].
  rewrite E in H. apply Forall_app in H. tauto.
Qed.

Lemma Forall_drop_lead {P : str -> Prop} chunks first : Forall P chunks -> Forall P (drop_lead chunks first).
Proof.
  intros H. destruct (drop_lead_cases chunks first) as [E|(l & E & _)]; [rewrite E; exact H|].
  rewrite E in H. inversion H; auto.
Qed.

Lemma Forall_concat {A} (P : A -> Prop) (l : list (list A)) : Forall (Forall P) l <-> Forall P (concat l).
Proof.
  induction l as [|x l IH]; simpl; [split; constructor|].
  rewrite Forall_app, <- IH. split; [intros H; inversion H; auto | intros [H1 H2]; constructor; auto].
Qed.

Lemma Forall_line_of (P : char -> Prop) cur : Forall (Forall P) cur -> Forall (Forall P) (opt_line (line_of cur)).
Proof.
  intros H. destruct cur as [|c cur]; simpl; [constructor|]. constructor; [|constructor].
  rewrite <- concat_cons. apply Forall_concat. exact H.
Qed.

Lemma Forall_firstn {A} (P : A -> Prop) n (l : list A) : Forall P l -> Forall P (firstn n l).
Proof. intros H. rewrite <- (firstn_skipn n l) in H. apply Forall_app in H. tauto. Qed.
Lemma Forall_skipn {A} (P : A -> Prop) n (l : list A) : Forall P l -> Forall P (skipn n l).
Proof. intros H. rewrite <- (firstn_skipn n l) in H. apply Forall_app in H. tauto. Qed.

Lemma wrap_step_chars (P : char -> Prop) chunks w first :
  Forall (Forall P) chunks ->
  Forall (Forall P) (opt_line (fst (wrap_step chunks w first))) /\
  Forall (Forall P) (snd (wrap_step chunks w first)).
Proof.
  intros H. apply (Forall_drop_lead _ first) in H.
  destruct (wrap_step_spec chunks w first) as (cur & rest & A & B & C). rewrite A in H.
  apply Forall_app in H. destruct H as [H1 H2].
  destruct rest as [|c r].
  - rewrite C. cbn [fst snd]. split; [|constructor]. apply Forall_line_of, Forall_trim, H1.
  - destruct C as [_ C]. rewrite C. inversion H2; subst. destruct (w <? length c).
    + cbv zeta. cbn [fst snd]. split.
      * apply Forall_line_of, Forall_trim, Forall_app. split; [exact H1|].
        constructor; [|constructor]. apply Forall_firstn; auto.
      * constructor; auto. apply Forall_skipn; auto.
    + cbn [fst snd]. split; [|exact H2]. apply Forall_line_of, Forall_trim, H1.
Qed.

Lemma wrap_chunks_chars (P : char -> Prop) chunks w ls :
  Forall (Forall P) chunks -> wrap_chunks chunks w = Some ls -> Forall (Forall P) ls.
Proof.
  intros HP H. unfold wrap_chunks in H.
  apply (wrap_loop_inv w (fun cs lines => Forall (Forall P) cs /\ Forall (Forall P) lines)) in H;
    [tauto| |split; [exact HP|constructor]].
  intros cs lines _ [H1 H2]. destruct (wrap_step_chars P cs w (is_nil lines) H1) as [S1 S2].
  split; [exact S2|]. apply Forall_app; auto.
Qed.

(* ------------------------------------------------------------------ 4. no empty line is ever produced *)
Definition nonempty (c : str) : Prop := c <> [].

Lemma concat_nonempty (cur : list str) : cur <> [] -> Forall nonempty cur -> concat cur <> [].
Proof.
  destruct cur as [|c cur]; [congruence|]. intros _ H. inversion H; subst.
  simpl. destruct c; [unfold nonempty in *; congruence|discriminate].
Qed.

Lemma line_of_nonempty cur : Forall nonempty cur -> Forall nonempty (opt_line (line_of cur)).
Proof.
  intros H. destruct cur as [|c cur]; simpl; [constructor|]. constructor; [|constructor].
  rewrite <- concat_cons. apply concat_nonempty; [discriminate|exact H].
Qed.

(* trimming also removes the empty piece [firstn 0 c] of the long-word path: all_blank [] = true *)
Lemma trim_last_snoc_nil cur : trim_last (cur ++ [[]]) = cur.
Proof. unfold trim_last. rewrite rev_app_distr. simpl. apply rev_involutive. Qed.

Lemma wrap_step_nonempty chunks w first :
  1 <= w -> Forall nonempty chunks ->
  Forall nonempty (opt_line (fst (wrap_step chunks w first))) /\
  Forall nonempty (snd (wrap_step chunks w first)).
Proof.
  intros Hw H. apply (Forall_drop_lead _ first) in H.
  destruct (wrap_step_spec chunks w first) as (cur & rest & A & B & C). rewrite A in H.
  apply Forall_app in H. destruct H as [H1 H2].
  destruct rest as [|c r].
  - rewrite C. cbn [fst snd]. split; [|constructor]. apply line_of_nonempty, Forall_trim, H1.
  - destruct C as [C1 C]. rewrite C. inversion H2; subst. destruct (w <? length c) eqn:L.
    + apply Nat.ltb_lt in L. cbv zeta. cbn [fst snd].
      pose proof (break_point_le c (space_left w (total_len cur))) as Ble.
      pose proof (space_left_le w (total_len cur) Hw) as Sle.
      set (e := break_point c (space_left w (total_len cur))) in *.
      split.
      * apply line_of_nonempty. destruct e as [|e'] eqn:Ee.
        -- cbn [firstn]. rewrite trim_last_snoc_nil. exact H1.
        -- apply Forall_trim, Forall_app. split; [exact H1|]. constructor; [|constructor].
           destruct c; [simpl in L; lia|]. simpl. unfold nonempty; discriminate.
      * constructor; [|assumption]. unfold nonempty. intros E.
        apply (f_equal (@length _)) in E. rewrite skipn_length in E. simpl in E. lia.
    + cbn [fst snd]. split; [|exact H2]. apply line_of_nonempty, Forall_trim, H1.
Qed.

Lemma wrap_chunks_nonempty chunks w ls :
  1 <= w -> Forall nonempty chunks -> wrap_chunks chunks w = Some ls -> Forall nonempty ls.
Proof.
  intros Hw HP H. unfold wrap_chunks in H.
  apply (wrap_loop_inv w (fun cs lines => Forall nonempty cs /\ Forall nonempty lines)) in H;
    [tauto| |split; [exact HP|constructor]].
  intros cs lines _ [H1 H2]. destruct (wrap_step_nonempty cs w (is_nil lines) Hw H1) as [S1 S2].
  split; [exact S2|]. apply Forall_app; auto.
Qed.

(* ------------------------------------------------------------------ 5. greediness *)
(* the inner loop takes the longest prefix of the chunks that fits *)
Lemma take_fitting_greedy chunks w cur cl rest :
  take_fitting chunks [] 0 w = (cur, cl, rest) ->
  chunks = cur ++ rest /\ cl = total_len cur /\ cl <= w /\
  (forall c r, rest = c :: r -> cl + length c > w).
Proof.
  intros H. apply take_fitting_spec in H; [|reflexivity]. simpl in H.
  destruct H as (A & B & C & D). repeat split; auto. apply C. lia.
Qed.

(* one iteration of the outer loop, for a positive width: after the optional removal of a leading blank
   chunk the chunks split as cur ++ rest where cur is the LONGEST prefix that fits (the next chunk would
   overflow); the line is cur -- extended, when the next chunk fits on no line at all, by the piece of it
   up to the break point in the space that is left -- minus one trailing blank chunk *)
Lemma wrap_step_greedy chunks w first :
  1 <= w ->
  exists cur rest,
    drop_lead chunks first = cur ++ rest /\ total_len cur <= w /\
    match rest with
    | [] => wrap_step chunks w first = (line_of (trim_last cur), [])
    | c :: r =>
        total_len cur + length c > w /\
        wrap_step chunks w first =
          if w <? length c then
            let e := break_point c (w - total_len cur) in
            (line_of (trim_last (cur ++ [firstn e c])), skipn e c :: r)
          else (line_of (trim_last cur), c :: r)
    end.
Proof.
  intros Hw. destruct (wrap_step_spec chunks w first) as (cur & rest & A & B & C).
  exists cur, rest. split; [exact A|]. split; [exact B|].
  destruct rest as [|c r]; [exact C|]. destruct C as [C1 C2]. split; [exact C1|].
  rewrite C2. unfold space_left. replace (w <? 1) with false; [reflexivity|].
  symmetry. apply Nat.ltb_ge. exact Hw.
Qed.

(* ------------------------------------------------------------------ 6. long words are split *)
Lemma break_point_bounds c w : 1 <= w -> 1 <= break_point c w <= w.
Proof. intros H. split; [apply break_point_pos; exact H|apply break_point_le]. Qed.

Lemma wrap_step_long_word c r w first :
  1 <= w -> w < length c -> (first = true \/ all_blank c = false) ->
  wrap_step (c :: r) w first =
    ((if all_blank (firstn (break_point c w) c) then None else Some (firstn (break_point c w) c)),
     skipn (break_point c w) c :: r).
Proof.
  intros Hw L Hf. unfold wrap_step.
  replace (all_blank c && negb first) with false
    by (destruct Hf as [Hf|Hf]; rewrite Hf; [rewrite andb_false_r|]; reflexivity).
  cbn [take_fitting].
  replace (0 + length c <=? w) with false by (symmetry; apply Nat.leb_gt; lia).
  replace (w <? length c) with true by (symmetry; apply Nat.ltb_lt; lia).
  replace (w <? 1) with false by (symmetry; apply Nat.ltb_ge; lia).
  rewrite Nat.sub_0_r. cbn [app rev].
  destruct (all_blank (firstn (break_point c w) c)); cbn [rev concat]; rewrite ?app_nil_r; reflexivity.
Qed.

(* ------------------------------------------------------------------ a run of blanks wraps to nothing *)
Lemma all_blank_split c e : all_blank c = true -> all_blank (firstn e c) = true /\ all_blank (skipn e c) = true.
Proof.
  intros H. rewrite <- (firstn_skipn e c) in H. unfold all_blank in *. rewrite forallb_app in H.
  apply andb_true_iff in H. exact H.
Qed.

Lemma trim_last_blank1 c : all_blank c = true -> trim_last [c] = [].
Proof. intros H. unfold trim_last. cbn [rev app]. rewrite H. reflexivity. Qed.

(* the chunk list of a source line made of whitespace only is one blank chunk (or none): no line comes out,
   whatever the width and however long the run is *)
Lemma wrap_chunks_blank c w ls : all_blank c = true -> wrap_chunks [c] w = Some ls -> ls = [].
Proof.
  intros Hb H. unfold wrap_chunks in H.
  apply (wrap_loop_inv w (fun cs lines => lines = [] /\ (cs = [] \/ exists c0, cs = [c0] /\ all_blank c0 = true))) in H;
    [tauto| |split; [reflexivity|right; exists c; auto]].
  intros cs lines Hne [Hl [Hcs|(c0 & Hcs & Hb0)]]; [congruence|]. subst lines cs. cbn [is_nil app].
  destruct (wrap_step_spec [c0] w true) as (cur & rest & A & B & C).
  cbn [drop_lead] in A. rewrite andb_false_r in A.
  destruct cur as [|x cur'].
  - cbn [app] in A. subst rest. destruct C as [C1 C2]. rewrite C2. cbn [total_len] in C1.
    destruct (w <? length c0) eqn:L; [|apply Nat.ltb_ge in L; lia].
    cbv zeta. cbn [fst snd app].
    destruct (all_blank_split c0 (break_point c0 (space_left w (total_len []))) Hb0) as [F S].
    match goal with |- context [trim_last ?x] =>
      replace (trim_last x) with (@nil str) by (symmetry; exact (trim_last_blank1 _ F)) end.
    cbn [line_of opt_line]. split; [reflexivity|].
    right. eexists. split; [reflexivity|exact S].
  - injection A as Hx Hr. symmetry in Hr. apply app_eq_nil in Hr. destruct Hr as [-> ->]. subst x.
    rewrite C. cbn [fst snd].
    match goal with |- context [trim_last ?x] =>
      replace (trim_last x) with (@nil str) by (symmetry; exact (trim_last_blank1 _ Hb0)) end.
    cbn [line_of opt_line]. auto.
Qed.
