(* C01Proofs.v — dispatch by priority, first-in first-out within a priority. *)
From SL Require Import Tac.
From Coq Require Import Permutation Sorted.
From RecordUpdate Require Import RecordUpdate.
From SL Require Import LoopSem Monitors proofs.LoopLink.
Import ListNotations.

(* ================================================================ the reference queue *)
Definition prio_le (a b : Z * nat) : Prop := (fst a <= fst b)%Z.
Definition prio_sorted (q : refq) : Prop := StronglySorted prio_le q.

(* where stable_insert puts the new element *)
Lemma stable_insert_spec p sid q :
  exists l1 l2, q = l1 ++ l2 /\ stable_insert p sid q = l1 ++ (p, sid) :: l2 /\
                Forall (fun x => (fst x <= p)%Z) l1 /\
                match l2 with [] => True | x :: _ => (p < fst x)%Z end.
Proof.
  induction q as [|[p' s'] r IH]; cbn [stable_insert].
  - exists [], []. repeat split. constructor.
  - destruct (p <? p')%Z eqn:E.
    + exists [], ((p', s') :: r). repeat split; [constructor|]. cbn. apply Z.ltb_lt, E.
    + destruct IH as (l1 & l2 & -> & -> & F & H). exists ((p', s') :: l1), l2. repeat split; auto.
      constructor; [cbn; apply Z.ltb_ge, E|exact F].
Qed.

Lemma in_stable_insert p sid q x : In x (stable_insert p sid q) <-> x = (p, sid) \/ In x q.
Proof.
  destruct (stable_insert_spec p sid q) as (l1 & l2 & -> & -> & _). rewrite !in_app_iff. cbn. intuition.
Qed.

Lemma stable_insert_sorted p sid q : prio_sorted q -> prio_sorted (stable_insert p sid q).
Proof.
  unfold prio_sorted. induction q as [|[p' s'] r IH]; intros S; cbn [stable_insert].
  - constructor; constructor.
  - inversion S as [|? ? Sr Fr]; subst. destruct (p <? p')%Z eqn:E.
    + constructor; [exact S|]. apply Z.ltb_lt in E. constructor; [unfold prio_le; cbn; lia|].
      eapply Forall_impl; [|exact Fr]. unfold prio_le; cbn. intros; lia.
    + apply Z.ltb_ge in E. constructor; [apply IH, Sr|].
      rewrite Forall_forall. intros x Hx. apply in_stable_insert in Hx. destruct Hx as [->|Hx].
      * unfold prio_le; cbn; lia.
      * rewrite Forall_forall in Fr. apply Fr, Hx.
Qed.

Lemma tl_sorted q : prio_sorted q -> prio_sorted (tl q).
Proof. unfold prio_sorted. destruct q; cbn; [auto|]. intros S; inversion S; assumption. Qed.

(* ---- how one event changes the reference content of a queue ---- *)
Lemma w_pend_step w e :
  match e with EEnq _ _ | EDispatch _ _ _ => False | _ => True end -> w_pend (world_step w e) = w_pend w.
Proof.
  destruct e; intros H; try destruct H; cbn [world_step]; try reflexivity.
  - destruct (w_expect_exc w =? 1)%nat; reflexivity.
  - destruct (w_expect_exc w =? 2)%nat; reflexivity.
  - destruct how as [[| |]|]; reflexivity.
  - destruct (w_fq w); reflexivity.
  - cbn. destruct (last_opt (removelast (w_levels w))); reflexivity.
  - destruct wait; reflexivity.
  - destruct wait; reflexivity.
Qed.

Lemma pend_step w e q :
  pend (world_step w e) q = pend w q \/
  (exists sid, e = EEnq sid q /\ pend (world_step w e) q = stable_insert (sig_prio w sid) sid (pend w q)) \/
  (exists sid d, e = EDispatch sid q d /\ pend (world_step w e) q = tl (pend w q)).
Proof.
  destruct e as [| | | |sid q0|?|sid q0 d| | | | | | | | | | | | | | | | | |];
    try (left; unfold pend; rewrite w_pend_step by exact I; reflexivity).
  - destruct (ws_enq w sid q0) as (_&_&_&_&_&S6&_). rewrite S6.
    destruct (Nat.eqb_spec q q0) as [->|N]; [right; left; eauto|left; reflexivity].
  - destruct (ws_dispatch w sid q0 d) as (_&_&_&_&_&S6&_). rewrite S6.
    destruct (Nat.eqb_spec q q0) as [->|N]; [right; right; eauto|left; reflexivity].
Qed.

(* the reference content of every queue is sorted by priority, along any trace whatsoever *)
Lemma pend_sorted_world t : forall w, (forall q, prio_sorted (pend w q)) ->
  forall q, prio_sorted (pend (fold_left world_step t w) q).
Proof.
  induction t as [|e r IH]; intros w H q; cbn [fold_left]; [apply H|].
  apply IH. intros q0. destruct (pend_step w e q0) as [->|[(sid & _ & ->)|(sid & d & _ & ->)]].
  - apply H.
  - apply stable_insert_sorted, H.
  - apply tl_sorted, H.
Qed.

Lemma pend_sorted t q : prio_sorted (pend (world_of t) q).
Proof. apply pend_sorted_world. intros q0. constructor. Qed.

(* ---- FIFO within a priority, on the reference queue ---- *)
Fixpoint before (x y : Z * nat) (l : refq) : Prop :=
  match l with [] => False | h :: r => (h = x /\ In y r) \/ before x y r end.

Lemma before_app_insert x y z l1 l2 : before x y (l1 ++ l2) -> before x y (l1 ++ z :: l2).
Proof.
  induction l1 as [|h r IH]; cbn.
  - intros H. right. exact H.
  - intros [[-> H]|H]; [left; split; [reflexivity|]|right; apply IH, H].
    rewrite in_app_iff in *. cbn. tauto.
Qed.

(* later insertions of any priority never reorder two pending elements *)
Lemma before_stable_insert x y p sid q : before x y q -> before x y (stable_insert p sid q).
Proof.
  destruct (stable_insert_spec p sid q) as (l1 & l2 & -> & -> & _). apply before_app_insert.
Qed.

(* taking the head away does not reorder the rest *)
Lemma before_tl x y q : before x y q -> hd x q <> x -> before x y (tl q).
Proof. destruct q as [|h r]; cbn; [tauto|]. intros [[-> _]|H] N; [congruence|exact H]. Qed.

(* an element of equal priority goes after the ones already pending *)
Lemma stable_insert_after p a b l1 l2 : Forall (fun x => (fst x <= p)%Z) l1 ->
  stable_insert p b (l1 ++ (p, a) :: l2) = l1 ++ (p, a) :: stable_insert p b l2.
Proof.
  induction l1 as [|[p' s'] r IH]; intros F; cbn [app stable_insert].
  - rewrite Z.ltb_irrefl. reflexivity.
  - inversion F as [|? ? Hx Fr]; subst. cbn in Hx.
    destruct (p <? p')%Z eqn:E; [apply Z.ltb_lt in E; lia|]. f_equal. apply IH, Fr.
Qed.

Lemma fifo_two_inserts p a b q :
  exists l1 l2, stable_insert p b (stable_insert p a q) = l1 ++ (p, a) :: (p, b) :: l2 /\ q = l1 ++ l2.
Proof.
  destruct (stable_insert_spec p a q) as (l1 & l2 & -> & -> & F & H).
  exists l1, l2. split; [|reflexivity]. rewrite stable_insert_after by exact F. do 2 f_equal.
  destruct l2 as [|[p' s'] r]; cbn; [reflexivity|]. cbn in H.
  destruct (p <? p')%Z eqn:E; [reflexivity|apply Z.ltb_ge in E; lia].
Qed.

Lemma fifo_insert_sorted p a b q : prio_sorted q -> In (p, a) q -> before (p, a) (p, b) (stable_insert p b q).
Proof.
  unfold prio_sorted. induction q as [|[p' s'] r IH]; intros S I; [destruct I|].
  inversion S as [|? ? Sr Fr]; subst. cbn [stable_insert].
  destruct (p <? p')%Z eqn:E.
  - exfalso. apply Z.ltb_lt in E. destruct I as [I|I]; [inversion I; lia|].
    rewrite Forall_forall in Fr. apply Fr in I. unfold prio_le in I; cbn in I. lia.
  - cbn. destruct I as [I|I]; [left; split; [exact I|apply in_stable_insert; left; reflexivity]|].
    right. apply IH; assumption.
Qed.

(* ================================================================ the concrete queue *)
(* what q_pop returns is below every remaining entry in (priority, arrival) order *)
Lemma pop_is_most_urgent q p c sg q' : qwf q -> q_pop q = Some ((p, c, sg), q') ->
  forall p' c' sg', In (p', c', sg') (eq_entries q') -> (p < p')%Z \/ (p = p' /\ c < c').
Proof.
  intros Wq P p' c' sg' I.
  destruct (q_pop_sorted _ _ _ Wq P) as (E & _).
  pose proof (esort_sorted _ (qwf_nodup _ Wq)) as S. rewrite E in S. cbn in S. destruct S as [F _].
  rewrite Forall_forall in F.
  assert (I' : In (p', c', sg') (esort (eq_entries q'))) by (eapply Permutation_in; [apply esort_perm|exact I]).
  apply F in I'. apply (proj1 (entry_lt_spec (p, c, sg) (p', c', sg'))) in I'. exact I'.
Qed.

(* two puts of equal priority come out in put order *)
Lemma fifo_two_puts q sa sb : qwf q -> sg_prio sa = sg_prio sb ->
  exists l1 l2, abs (q_put (q_put q sa) sb) = l1 ++ (sg_prio sa, sg_id sa) :: (sg_prio sa, sg_id sb) :: l2 /\
                abs q = l1 ++ l2.
Proof.
  intros Wq E. rewrite q_put_abs by (apply q_put_qwf, Wq). rewrite q_put_abs by exact Wq.
  rewrite <- E. apply fifo_two_inserts.
Qed.

(* ================================================================ every session trace is accepted *)
Section Order.
  Context {U : Type}.
  Variable code : nat -> signal -> nat -> prog U.

  Lemma chk_C01_other w e :
    match e with EDispatch _ _ _ | ERequeue _ _ => False | _ => True end -> chk_C01 w e = true.
  Proof. destruct e; intros H; try destruct H; reflexivity. Qed.

  Lemma chk_C01_pop (s : lstate U) p c sg q' : link s ->
    q_pop (get_q s (active s)) = Some ((p, c, sg), q') ->
    match pend (W s) (active s) with (_, s0) :: _ => (s0 =? sg_id sg)%nat | [] => false end = true.
  Proof.
    intros L P. destruct (link_pop_sig_rec _ _ _ _ _ _ L P) as (_ & _ & ->). apply Nat.eqb_refl.
  Qed.

  Lemma astep_acc_C01 (s s' : lstate U) : link s -> acc chk_C01 s -> astep s s' -> acc chk_C01 s'.
  Proof.
    intros L A St.
    destruct St as [s s' C T|s e P|s sp|s sg R F|s p c sg q' P|s p c sg q' P|s|s|s FQ|s top rest_rev R|s o|s cls hid data|s arg|s|s q H1 H2].
    - eapply acc_trace; eauto.
    - apply acc_emit. split; [exact A|]. apply chk_C01_other. destruct e; try exact I; discriminate P.
    - unfold new_signal. cbn [snd]. apply acc_emit. split; [exact A|reflexivity].
    - unfold do_enqueue. destruct (force_quit s); apply acc_emit; (split; [exact A|reflexivity]).
    - apply acc_emit. split; [exact A|]. change (W (set_q s (active s) q')) with (W s).
      cbn [chk_C01]. eapply chk_C01_pop; eauto.
    - apply acc_emit. split; [exact A|]. change (W (set_q s (active s) (q_put_entry q' (p, c, sg)))) with (W s).
      cbn [chk_C01]. eapply chk_C01_pop; eauto.
    - apply acc_emit. split; [exact A|reflexivity].
    - apply acc_emit. split; [exact A|reflexivity].
    - apply acc_emit. split; [exact A|reflexivity].
    - destruct rest_rev as [|q r].
      + apply acc_emit. split; [exact A|reflexivity].
      + eapply acc_trace with (s := emit (EClosePop top) (s <| levels := rev (q :: r) |>)); [reflexivity|].
        apply acc_emit. split; [exact A|reflexivity].
    - apply acc_emit. split; [exact A|reflexivity].
    - apply acc_emit. split; [exact A|reflexivity].
    - apply acc_emit. split; [exact A|reflexivity].
    - eapply acc_trace; [|exact A]. reflexivity.
    - apply acc_emit. split; [exact A|reflexivity].
  Qed.

  Theorem dispatch_order : forall fuel acts (u : U),
    ok_C01 (rev (trace (snd (run_session code fuel acts (init_state u))))) = true.
  Proof. apply session_acc. exact astep_acc_C01. Qed.
End Order.
