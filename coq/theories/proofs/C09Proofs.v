(* C09Proofs.v — "the application stops exactly when told to, completely, and says so once":
   the session theorem (every trace of every session is accepted by the C09 monitor) and the one-step facts. *)
From SL Require Import Tac.
From RecordUpdate Require Import RecordUpdate.
From SL Require Import LoopSem LoopProg Monitors.
From SL Require Import proofs.C09Exec proofs.C09Base proofs.C09Passes proofs.C09Acc.
Import ListNotations.

Section S.
  Context {U : Type}.
  Variable code : nat -> signal -> nat -> prog U.

  (* ------------------------------------------------------------------ sessions *)
  Lemma run_never_exits s o s' : Exec code CRun s o s' -> o <> OThrow XExit.
  Proof.
    intros H. remember CRun as c eqn:E. destruct H; try discriminate E; try discriminate; auto.
  Qed.

  (* between two top-level calls: the link, the flag invariant, all events so far accepted, not inside run() *)
  Definition sess_inv (s : lstate U) : Prop :=
    link s /\ inv s /\ accT (trace s) = true /\ v_in_run (V (trace s)) = false.

  Lemma chk_top v : v_in_run v = false -> chk_view v ETop = true.
  Proof. intros R. unfold chk_view. rewrite R, andb_false_r. destruct (v_fq v); reflexivity. Qed.

  Lemma session_acc fuel : forall acts s,
    sess_inv s -> accT (trace (snd (run_session code fuel acts s))) = true.
  Proof.
    induction acts as [|a r IH]; intros s (L & I & A & R); [exact A|].
    cbn [run_session].
    set (c := match a with TRun => CRun | TProg p => CProg p end).
    destruct (exec code fuel c (emit ETop s)) as [o s1] eqn:E. apply exec_Exec in E.
    assert (L0 : link (emit ETop s)).
    { destruct L as (L1 & L2 & L3). unfold link. autorewrite with st. cbn [view_step v_levels v_fq v_quit]. auto. }
    assert (I0 : inv (emit ETop s)) by exact I.
    assert (A0 : accT (trace (emit ETop s)) = true).
    { rewrite trace_emit, accT_cons_view, A, chk_top by exact R. reflexivity. }
    assert (X0 : v_exiting (V (trace (emit ETop s))) = false).
    { rewrite trace_emit, V_cons. reflexivity. }
    assert (R0 : v_in_run (V (trace (emit ETop s))) = false).
    { rewrite trace_emit, V_cons. exact R. }
    pose proof (acc_Exec code _ _ _ _ E L0 I0 A0 X0 (fun _ => R0)) as A1.
    pose proof (inv_Exec code _ _ _ _ E I0) as I1.
    destruct (ghost_Exec code _ _ _ _ E L0) as (L1 & FR & _ & _ & RR).
    assert (CONT : (o = OThrow XSysExit \/ o = OBlocked \/ o = OFuel) \/ sess_inv s1).
    { destruct a as [|p]; subst c.
      - (* run() *)
        destruct o as [|e| |]; auto.
        + right. split; [exact L1|]. split; [exact I1|]. split; [exact A1|]. apply RR; reflexivity.
        + destruct e; auto.
          * exfalso. exact (run_never_exits _ _ _ E eq_refl).
          * exfalso. exact (no_error_Exec code _ _ _ _ E eq_refl eq_refl).
      - (* a program run from outside any handler *)
        destruct (FR ltac:(discriminate)) as (R1 & _).
        assert (sess_inv s1).
        { split; [exact L1|]. split; [exact I1|]. split; [exact A1|]. congruence. }
        destruct o as [|[]| |]; auto. }
    destruct CONT as [[-> | [-> | ->]] | SI]; try exact A1.
    destruct (run_session code fuel r s1) as [os s2] eqn:RS.
    assert (A2 : accT (trace s2) = true) by (specialize (IH s1 SI); rewrite RS in IH; exact IH).
    destruct o as [|[]| |]; cbn [snd]; auto.
  Qed.

  Lemma sess_inv_init u : sess_inv (init_state u).
  Proof.
    repeat split; try reflexivity. intros H. discriminate H.
  Qed.

  Theorem stops fuel acts u :
    ok_C09 (rev (trace (snd (run_session code fuel acts (init_state u))))) = true.
  Proof. exact (session_acc fuel acts (init_state u) (sess_inv_init u)). Qed.

  (* ------------------------------------------------------------------ the counting argument, on [exec] *)
  Lemma mainloop_return f s s' :
    exec code f CMainloop s = (ONormal, s') ->
    force_quit s' = true \/
    length (levels s') + (if run_loop s' then 0 else 1) + 1 <= length (levels s) + (if run_loop s then 0 else 1).
  Proof.
    intros H. apply exec_Exec in H. destruct (force_quit s') eqn:F; [auto|right].
    destruct (phi_Exec code _ _ _ _ H) as (_ & _ & _ & P); [discriminate|left; reflexivity|exact F|].
    exact (P eq_refl).
  Qed.

  Lemma call_potential f c s o s' :
    c <> CRun -> exec code f c s = (o, s') -> o = ONormal \/ o = OThrow XError -> force_quit s' = false ->
    force_quit s = false /\
    length (levels s') + (if run_loop s' then 0 else 1) <= length (levels s) + (if run_loop s then 0 else 1) /\
    (levels s <> [] -> levels s' <> []).
  Proof.
    intros NR H Q F. apply exec_Exec in H.
    destruct (phi_Exec code _ _ _ _ H NR Q F) as (A & B & C & _). auto.
  Qed.

  (* ------------------------------------------------------------------ a failing handler stops nothing *)
  Lemma failing_handler f s o s' :
    (forall sg idx, exec code f (CProcessSignal sg idx) s = (o, s') -> o <> OThrow XError) /\
    (exec code f CProcLoop s = (o, s') -> o <> OThrow XError) /\
    (exec code f CMainloop s = (o, s') -> o <> OThrow XError) /\
    (exec code f CRun s = (o, s') -> o <> OThrow XError).
  Proof.
    repeat split; intros; eapply no_error_Exec; try (eapply exec_Exec; eassumption); reflexivity.
  Qed.

  Lemma failing_handler_continues f sg idx s hs hid data s2 :
    handlers_of (ps_mark sg idx s) (sg_cls sg) = Some hs -> force_quit s = false ->
    nth_error hs idx = Some (hid, data) ->
    exec code f (CProg (code hid sg data)) (emit (EHandler hid (sg_id sg) data) (ps_mark sg idx s)) = (OThrow XError, s2) ->
    let s3 := emit (EHandlerEnd hid (sg_id sg) (Some XError)) s2 in
    exec code (S f) (CProcessSignal sg idx) s =
    exec code f (CProcessSignal sg (S idx)) (do_enqueue (snd (new_signal s3 exception_spec)) (fst (new_signal s3 exception_spec))).
  Proof.
    intros Hh FQ N E s3. cbn [exec]. fold (ps_mark sg idx s). rewrite Hh.
    rewrite force_quit_ps_mark, FQ, N, E. reflexivity.
  Qed.

  (* ------------------------------------------------------------------ force-quit: one step *)
  Lemma fq_enqueue f sp s :
    force_quit s = true ->
    exists s', exec code (S f) (CApi (AEnqueue sp)) s = (ONormal, s') /\
               qstore s' = qstore s /\ levels s' = levels s /\
               trace s' = EDropped (next_sig s) :: ESigNew (next_sig s) (sp_cls sp) (sp_prio sp) (sp_src sp) :: trace s.
  Proof.
    intros FQ. eexists. split.
    - cbn [exec]. unfold new_signal. reflexivity.
    - unfold do_enqueue. rewrite force_quit_emit. rewrite (force_quit_set_next_sig _ s), FQ. repeat split.
  Qed.

  Lemma fq_new_loop f sp s :
    force_quit s = true ->
    exec code (S f) (CApi (ANewLoop sp)) s =
    (ONormal, emit (ESigNew (next_sig s) (sp_cls sp) (sp_prio sp) (sp_src sp)) (s <| next_sig := S (next_sig s) |>)).
  Proof.
    intros FQ. cbn [exec]. unfold new_signal. rewrite force_quit_emit, (force_quit_set_next_sig _ s), FQ. reflexivity.
  Qed.

  Lemma fq_no_handler f sg idx s o s' :
    force_quit s = true -> exec code (S f) (CProcessSignal sg idx) s = (o, s') ->
    trace s' = EDispatchEnd (sg_id sg) :: trace s \/ trace s' = EKill :: trace s.
  Proof.
    intros FQ H. cbn [exec] in H. fold (ps_mark sg idx s) in H.
    destruct (handlers_of (ps_mark sg idx s) (sg_cls sg)).
    - rewrite force_quit_ps_mark, FQ in H. injection H as <- <-. left. rewrite trace_emit, trace_ps_mark. reflexivity.
    - destruct (sg_cls sg =? CLS_EXCEPTION)%nat; injection H as <- <-; [right|left];
        rewrite trace_emit, trace_ps_mark; reflexivity.
  Qed.

  (* ------------------------------------------------------------------ an empty queue blocks, it does not stop *)
  Lemma q_pop_empty q : q_empty q = true -> q_pop q = None.
  Proof. unfold q_empty, q_pop. destruct (eq_entries q); [reflexivity|discriminate]. Qed.

  Lemma do_get_blocked (s : lstate U) :
    q_empty (get_q s (active s)) = true -> ext s = [] -> do_get s = inl None.
  Proof. intros Q E. unfold do_get. rewrite (q_pop_empty _ Q), E. reflexivity. Qed.

  Lemma empty_queue_blocks f s :
    q_empty (get_q s (active s)) = true -> ext s = [] -> run_loop s = true ->
    exec code (S f) CProcLoop s = (OBlocked, s) /\
    exec code (S (S f)) CMainloop s = (OBlocked, s).
  Proof.
    intros Q E R.
    assert (P : forall g, exec code (S g) CProcLoop s = (OBlocked, s)).
    { intros g. cbn [exec]. rewrite R, (do_get_blocked _ Q E). reflexivity. }
    split; [apply P|]. change (exec code (S (S f)) CMainloop s) with
      (if run_loop s then let '(o, s1) := exec code (S f) CProcLoop s in
                          match o with ONormal => exec code (S f) CMainloop s1 | _ => (o, s1) end
       else (ONormal, if force_quit s then s else s <| run_loop := true |>)).
    rewrite R, P. reflexivity.
  Qed.
End S.
