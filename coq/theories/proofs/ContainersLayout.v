(* ContainersLayout.v — C13: the width bound of a list container (no forced column width), for
   nested containers too, and the geometry of the layout: where every item is drawn and that the
   rectangles of different items are disjoint. *)
From SL Require Import Tac.
From SL Require Import PyInt Widget TextWrap KeyPattern Containers proofs.ContainersProofs.
Import ListNotations.

(* ------------------------------------------------------------------ widths of buffers under draw *)
Lemma fold_width_le (b : buffer) : forall a m,
  fold_left (fun acc (l : line) => Nat.max acc (length l)) b a <= m <->
  a <= m /\ Forall (fun l : line => length l <= m) b.
Proof.
  induction b as [|l b IH]; intros a m; cbn [fold_left].
  - split; [intros H; split; [exact H|constructor]|tauto].
  - rewrite IH. split.
    + intros [H1 H2]. split; [lia|]. constructor; [lia|exact H2].
    + intros [H1 H2]. inversion H2 as [|? ? H3 H4]; subst. split; [lia|exact H4].
Qed.

Lemma buf_width_le b m : buf_width b <= m <-> Forall (fun l : line => length l <= m) b.
Proof. unfold buf_width. rewrite fold_width_le. split; [tauto|]. intros H. split; [lia|exact H]. Qed.

Lemma put_line_len tl col src : length (put_line tl col src) = Nat.max (length tl) (col + length src).
Proof.
  unfold put_line. cbv zeta.
  rewrite !app_length, firstn_length, skipn_length, !app_length, repeat_length. lia.
Qed.

Lemma overlay_width m col : forall src b,
  Forall (fun l : line => length l <= m) b -> Forall (fun s : line => col + length s <= m) src ->
  Forall (fun l : line => length l <= m) (overlay b col src).
Proof.
  induction src as [|s src IH]; intros b Hb Hs; cbn [overlay]; [exact Hb|].
  inversion Hs as [|? ? Hs1 Hs2]; subst. destruct b as [|l b].
  - constructor; [rewrite put_line_len; cbn [length]; lia|]. apply IH; [constructor|exact Hs2].
  - inversion Hb as [|? ? Hb1 Hb2]; subst. constructor; [rewrite put_line_len; lia|]. now apply IH.
Qed.

Lemma draw_at_width m col src : Forall (fun s : line => col + length s <= m) src ->
  forall row b, Forall (fun l : line => length l <= m) b ->
  Forall (fun l : line => length l <= m) (draw_at b row col src).
Proof.
  intros Hs. induction row as [|row IH]; intros b Hb; cbn [draw_at].
  - now apply overlay_width.
  - destruct b as [|l b].
    + constructor; [cbn [length]; lia|]. apply IH. constructor.
    + inversion Hb as [|? ? Hb1 Hb2]; subst. constructor; [exact Hb1|]. now apply IH.
Qed.

Lemma draw_buf_width b row col block src m :
  buf_width b <= m -> col + buf_width src <= m -> buf_width (fst (draw b row col block src)) <= m.
Proof.
  intros Hb Hs. unfold draw. cbn [fst]. apply buf_width_le. apply draw_at_width; [|now apply buf_width_le].
  assert (H : Forall (fun l : line => length l <= buf_width src) src) by (apply buf_width_le; lia).
  eapply Forall_impl; [|exact H]. cbn beta. intros l Hl. lia.
Qed.

(* ------------------------------------------------------------------ an item that stays in its column *)
Definition item_fits (cwn : nat) (x : buffer * option (buffer * nat)) : Prop :=
  match snd x with
  | Some (lb, lw) => buf_width lb <= lw /\ lw + buf_width (fst x) <= cwn
  | None => buf_width (fst x) <= cwn
  end.

Lemma nth_item_fits cwn rendered i :
  Forall (item_fits cwn) rendered -> item_fits cwn (nth i rendered ([], None)).
Proof.
  intros Hf. destruct (nth_in_or_default i rendered ([], None)) as [Hin| ->].
  - rewrite Forall_forall in Hf. now apply Hf.
  - unfold item_fits. cbn. lia.
Qed.

Lemma draw_list_col_width cwn rendered lpr cp m :
  Forall (item_fits cwn) rendered -> cp + cwn <= m ->
  forall col row_id b row_pos, buf_width b <= m ->
  buf_width (draw_list_col col row_id rendered lpr b row_pos cp) <= m.
Proof.
  intros Hf Hm. induction col as [|i col IH]; intros row_id b row_pos Hb; cbn [draw_list_col]; [exact Hb|].
  pose proof (nth_item_fits cwn rendered i Hf) as Hi.
  destruct (nth i rendered ([], None)) as [ib [[lb lw]|]]; unfold item_fits in Hi; cbn [fst snd] in Hi; apply IH.
  - apply draw_buf_width; [apply draw_buf_width|]; lia.
  - apply draw_buf_width; lia.
Qed.

(* the invariant of the column loop: the buffer never reaches beyond the current column, hence
   col_pos advances by exactly columns_width + spacing *)
Lemma draw_list_cols_width rendered lpr cw s :
  (0 <= cw)%Z -> (0 <= s)%Z -> Forall (item_fits (Z.to_nat cw)) rendered ->
  forall omap b col_pos, (0 <= col_pos)%Z -> (Z.of_nat (buf_width b) <= Z.max 0 (col_pos - s))%Z ->
  exists r, draw_list_cols omap rendered lpr cw s b col_pos = ROk r /\
            (Z.of_nat (buf_width r) <= Z.max 0 (col_pos + Z.of_nat (length omap) * (cw + s) - s))%Z.
Proof.
  intros Hcw Hs Hf. induction omap as [|col omap IH]; intros b col_pos Hcp Hb; cbn [draw_list_cols].
  - exists b. split; [reflexivity|]. cbn [length]. lia.
  - unfold nat_of_Z. destruct (col_pos <? 0)%Z eqn:E; [lia|]. cbn [bind].
    set (b' := draw_list_col col 0 rendered lpr b 0 (Z.to_nat col_pos)).
    assert (Hb' : buf_width b' <= Z.to_nat (col_pos + cw)).
    { apply draw_list_col_width with (cwn := Z.to_nat cw); [exact Hf|lia|lia]. }
    replace (Z.max (col_pos + cw) (Z.of_nat (buf_width b')) + s)%Z with (col_pos + cw + s)%Z by lia.
    destruct (IH b' (col_pos + cw + s)%Z) as [r [Hr Hw]]; [lia|lia|].
    exists r. split; [exact Hr|]. cbn [length]. rewrite Nat2Z.inj_succ. lia.
Qed.

(* a list without items draws nothing *)
Lemma draw_list_cols_empty rendered lpr cw s : forall omap b col_pos r,
  Forall (fun col : list nat => col = []) omap ->
  draw_list_cols omap rendered lpr cw s b col_pos = ROk r -> r = b.
Proof.
  induction omap as [|col omap IH]; intros b col_pos r Hall H; cbn [draw_list_cols] in H.
  - congruence.
  - inversion Hall as [|? ? H1 H2]; subst. destruct (nat_of_Z col_pos) as [cp| |]; cbn [bind] in H; try discriminate.
    cbn [draw_list_col] in H. now apply IH in H.
Qed.

Lemma ordered_map_length kind n c : length (ordered_map kind n c) = c.
Proof. destruct kind; [apply omap_row_length|apply omap_col_length]. Qed.

Lemma ordered_map_no_items kind c : Forall (fun col : list nat => col = []) (ordered_map kind 0 c).
Proof.
  apply Forall_forall. intros col H.
  destruct kind; unfold ordered_map, ordered_map_row, ordered_map_col in H; cbv zeta in H;
    apply in_map_iff in H; destruct H as [k [<- _]]; reflexivity.
Qed.

(* what render_all_items leaves, given that items and labels respect the width they were given *)
Lemma rendered_items_fit items cw kp res :
  (forall it w' b', In it items -> (0 < w')%Z -> render_tree it w' = ROk b' -> (Z.of_nat (buf_width b') <= w')%Z) ->
  (forall kp' i lb, kp = Some kp' -> label_buffer kp' i = ROk lb -> buf_width lb <= length (get_widget_label kp' i)) ->
  render_all_items render_tree items 0 cw kp = ROk res ->
  Forall (item_fits (Z.to_nat cw)) res.
Proof.
  intros Hitems Hlabels H. apply render_all_items_spec in H. destruct H as [Hcw [Hlen Hnth]].
  apply Forall_forall. intros x Hx. apply In_nth_error in Hx. destruct Hx as [j Hj].
  destruct (nth_error items j) as [it|] eqn:Eit.
  2:{ apply nth_error_None in Eit. assert (j < length res) by (apply nth_error_Some; congruence). lia. }
  specialize (Hnth j it x Eit Hj). cbn [Nat.add] in Hnth.
  assert (Hin : In it items) by (eapply nth_error_In; exact Eit).
  unfold item_rendered in Hnth. unfold item_fits. destruct kp as [kp'|].
  - cbv zeta in Hnth. destruct Hnth as [Hpos [Hr [lb [Hlb Hsnd]]]]. rewrite Hsnd. split.
    + now apply (Hlabels kp' j lb).
    + specialize (Hitems it _ _ Hin Hpos Hr). lia.
  - destruct Hnth as [Hr Hsnd]. rewrite Hsnd.
    destruct Hcw as [->|Hcw]; [destruct j; discriminate|].
    specialize (Hitems it _ _ Hin Hcw Hr). lia.
Qed.

(* the general bound: columns * columns_width + (columns - 1) * spacing *)
Lemma list_width_bound kind columns items forced spacing kp w b :
  (0 <= spacing)%Z ->
  (forall it w' b', In it items -> (0 < w')%Z -> render_tree it w' = ROk b' -> (Z.of_nat (buf_width b') <= w')%Z) ->
  (forall kp' i lb, kp = Some kp' -> label_buffer kp' i = ROk lb -> buf_width lb <= length (get_widget_label kp' i)) ->
  render_tree (WList kind columns items forced spacing kp) w = ROk b ->
  b = [] \/
  ((0 < list_columns_width columns forced spacing w)%Z /\
   (Z.of_nat (buf_width b) <=
    columns * list_columns_width columns forced spacing w + (columns - 1) * spacing)%Z).
Proof.
  intros Hs Hitems Hlabels H. rewrite render_tree_list in H.
  destruct (columns <=? 0)%Z eqn:Ec; [discriminate|]. cbv zeta in H.
  set (cw := list_columns_width columns forced spacing w) in *.
  destruct (render_all_items render_tree items 0 cw kp) as [res| |] eqn:Eres; cbn [bind] in H; try discriminate.
  pose proof (render_all_items_spec _ _ _ _ _ _ Eres) as [Hcw _].
  destruct Hcw as [->|Hcw].
  - left. apply draw_list_cols_empty in H; [exact H|]. apply ordered_map_no_items.
  - right. split; [exact Hcw|].
    pose proof (rendered_items_fit items cw kp res Hitems Hlabels Eres) as Hf.
    destruct (draw_list_cols_width res
                (lines_per_every_row (ordered_map kind (length items) (Z.to_nat columns)) (map item_height res))
                cw spacing ltac:(lia) Hs Hf
                (ordered_map kind (length items) (Z.to_nat columns)) [] 0%Z ltac:(lia))
      as [r [Hr Hw]].
    + cbn. lia.
    + rewrite Hr in H. injection H as <-. rewrite ordered_map_length, Z2Nat.id in Hw by lia.
      assert (H1 : (0 <= columns * cw)%Z) by (apply Z.mul_nonneg_nonneg; lia).
      assert (H2 : (0 <= (columns - 1) * spacing)%Z) by (apply Z.mul_nonneg_nonneg; lia).
      lia.
Qed.

Lemma quot_bound a c : (0 < c)%Z -> (0 < Z.quot a c)%Z -> (c * Z.quot a c <= a)%Z.
Proof.
  intros Hc Hq. assert (Ha : (0 <= a)%Z).
  { destruct (Z.lt_ge_cases a 0) as [Hneg|Hnn]; [|exact Hnn].
    pose proof (Z.quot_opp_l a c ltac:(lia)) as Ho.
    pose proof (Z.quot_pos (- a) c ltac:(lia) Hc). lia. }
  rewrite Z.quot_div_nonneg by lia. apply Z.mul_div_le. exact Hc.
Qed.

(* C13_within_width, one level: no forced width => every line is at most w long *)
Lemma list_within_width kind columns items spacing kp w b :
  (0 <= spacing)%Z ->
  (forall it w' b', In it items -> (0 < w')%Z -> render_tree it w' = ROk b' -> (Z.of_nat (buf_width b') <= w')%Z) ->
  (forall kp' i lb, kp = Some kp' -> label_buffer kp' i = ROk lb -> buf_width lb <= length (get_widget_label kp' i)) ->
  render_tree (WList kind columns items None spacing kp) w = ROk b ->
  Forall (fun l : line => (Z.of_nat (length l) <= w)%Z) b.
Proof.
  intros Hs Hitems Hlabels H.
  assert (Hc : (0 < columns)%Z).
  { rewrite render_tree_list in H. destruct (columns <=? 0)%Z eqn:Ec; [discriminate|lia]. }
  apply list_width_bound in H; try assumption. destruct H as [->|[Hcw Hw]]; [constructor|].
  unfold list_columns_width in Hcw, Hw.
  pose proof (quot_bound _ _ Hc Hcw) as Hq.
  assert (Hb : buf_width b <= Z.to_nat w) by lia.
  apply buf_width_le in Hb. eapply Forall_impl; [|exact Hb]. cbn beta. intros l Hl. lia.
Qed.

(* ------------------------------------------------------------------ nested containers *)
Lemma render_tree_center c w :
  render_tree (WCenter c) w =
  bind (render_tree c w) (fun cb =>
  bind (nat_of_Z ((w - Z.of_nat (buf_width cb)) / 2)%Z) (fun col => ROk (fst (draw [] 0 col false cb)))).
Proof.
  unfold render_tree at 1. cbn [render]. rewrite (render_tree_fuel (depth (WCenter c)) c w); [reflexivity|].
  cbn [depth]. lia.
Qed.

Section Width.
  (* the texts whose rendering is known to respect the width (to be instantiated with the
     theorem about TextWidget.render: C11) *)
  Variable text_ok : text -> Prop.
  Hypothesis text_width : forall t w b, text_ok t -> (0 < w)%Z -> render_text t w = ROk b ->
                                        (Z.of_nat (buf_width b) <= w)%Z.

  (* trees without a forced column width anywhere: texts, separators, centred widgets, list
     containers with non-negative spacing, windows — nested in any way *)
  Inductive fit_tree : wtree -> Prop :=
  | fit_text t : text_ok t -> fit_tree (WText t)
  | fit_sep n : fit_tree (WSep n)
  | fit_center c : fit_tree c -> fit_tree (WCenter c)
  | fit_list kind columns items spacing kp :
      (0 <= spacing)%Z -> Forall fit_tree items ->
      (forall kp' i, kp = Some kp' -> text_ok (simple_text (get_widget_label kp' i))) ->
      fit_tree (WList kind columns items None spacing kp)
  | fit_window title items :
      (forall t, title = Some t -> text_ok t) -> Forall fit_tree items -> fit_tree (WWindow title items).

  Lemma text_width0 t w b : text_ok t -> (0 <= w)%Z -> render_text t w = ROk b -> (Z.of_nat (buf_width b) <= w)%Z.
  Proof.
    intros Hok Hw H. destruct (Z.eq_dec w 0) as [->|Hne]; [|apply (text_width t); [exact Hok|lia|exact H]].
    unfold render_text in H. destruct (t_text t); [injection H as <-; cbn; lia|]. cbn in H. discriminate.
  Qed.

  Lemma draw_items_plain_width w items : (0 <= w)%Z ->
    (forall it b', In it items -> render_tree it w = ROk b' -> (Z.of_nat (buf_width b') <= w)%Z) ->
    forall b row r, buf_width b <= Z.to_nat w -> draw_items_plain render_tree items w b row = ROk r ->
    buf_width r <= Z.to_nat w.
  Proof.
    intros Hw. induction items as [|it items IH]; intros Hit b row r Hb H; cbn [draw_items_plain] in H.
    - injection H as <-. exact Hb.
    - destruct (render_tree it w) as [ib| |] eqn:Eib; cbn [bind] in H; try discriminate.
      pose proof (Hit it ib (or_introl eq_refl) Eib) as Hib.
      destruct (draw b row 0 false ib) as [b' [row' c']] eqn:Ed.
      apply (IH (fun it' b'' Hin => Hit it' b'' (or_intror Hin)) b' row' r); [|exact H].
      replace b' with (fst (draw b row 0 false ib)) by (rewrite Ed; reflexivity).
      apply draw_buf_width; lia.
  Qed.

  Lemma fit_tree_width_fuel : forall f t, depth t <= f -> fit_tree t ->
    forall w b, (0 <= w)%Z -> render_tree t w = ROk b -> (Z.of_nat (buf_width b) <= w)%Z.
  Proof.
    induction f as [|f IH]; intros t Hd Hfit w b Hw H; [pose proof (depth_pos t); lia|].
    inversion Hfit as [tx Hok|n|c Hc|kind columns items spacing kp Hs Hitems Hlab|title items Htitle Hitems]; subst.
    - unfold render_tree in H. cbn [render depth] in H. now apply (text_width0 tx).
    - unfold render_tree in H. cbn [render depth] in H. injection H as <-.
      assert (Hz : buf_width (render_sep n) <= 0).
      { apply buf_width_le. unfold render_sep. apply Forall_forall. intros l Hl. apply repeat_spec in Hl. subst. cbn. lia. }
      lia.
    - rewrite render_tree_center in H. cbn [depth] in Hd.
      destruct (render_tree c w) as [cb| |] eqn:Ecb; cbn [bind] in H; try discriminate.
      pose proof (IH c ltac:(lia) Hc w cb Hw Ecb) as Hcb.
      unfold nat_of_Z in H. destruct (_ <? 0)%Z eqn:En; cbn [bind] in H; [discriminate|]. injection H as <-.
      assert (Hb : buf_width (fst (draw [] 0 (Z.to_nat ((w - Z.of_nat (buf_width cb)) / 2)) false cb)) <= Z.to_nat w).
      { apply draw_buf_width; [cbn; lia|]. lia. }
      unfold draw in Hb. cbn [fst draw_at] in Hb. lia.
    - cbn [depth] in Hd.
      assert (Hall : Forall (fun l : line => (Z.of_nat (length l) <= w)%Z) b).
      { apply (list_within_width kind columns items spacing kp w b Hs); [| |exact H].
        - intros it w' b' Hin Hw' Hr. rewrite Forall_forall in Hitems.
          apply (IH it); [pose proof (depth_items_le items it Hin); lia|now apply Hitems|lia|exact Hr].
        - intros kp' i lb -> Hlb. unfold label_buffer in Hlb. cbv zeta in Hlb.
          destruct (length (get_widget_label kp' i)) as [|n] eqn:El.
          + apply text_width0 in Hlb; [lia|now apply Hlab|lia].
          + apply text_width in Hlb; [lia|now apply Hlab|lia]. }
      assert (Hb : buf_width b <= Z.to_nat w).
      { apply buf_width_le. eapply Forall_impl; [|exact Hall]. cbn beta. intros l Hl. lia. }
      lia.
    - cbn [depth] in Hd. rewrite render_tree_window in H.
      assert (Hit : forall it b', In it items -> render_tree it w = ROk b' -> (Z.of_nat (buf_width b') <= w)%Z).
      { intros it b' Hin Hr. rewrite Forall_forall in Hitems.
        apply (IH it); [pose proof (depth_items_le items it Hin); lia|now apply Hitems|exact Hw|exact Hr]. }
      match type of H with bind ?e _ = _ => destruct e as [[b0 r0]| |] eqn:E0; cbn [bind fst snd] in H; try discriminate end.
      assert (Hb0 : buf_width b0 <= Z.to_nat w).
      { destruct title as [t|]; [|injection E0 as <- <-; cbn; lia].
        destruct (t_text t) eqn:Et; [injection E0 as <- <-; cbn; lia|].
        destruct (render_text t w) as [tb| |] eqn:Etb; cbn [bind] in E0; try discriminate.
        pose proof (text_width0 t w tb (Htitle t eq_refl) Hw Etb) as Htb.
        destruct (draw [] 0 0 false tb) as [b1 [r1 c1]] eqn:E1.
        destruct (draw b1 r1 0 false (render_sep 1)) as [b2 [r2 c2]] eqn:E2.
        injection E0 as <- <-.
        replace b2 with (fst (draw b1 r1 0 false (render_sep 1))) by (rewrite E2; reflexivity).
        apply draw_buf_width; [|cbn; lia].
        replace b1 with (fst (draw [] 0 0 false tb)) by (rewrite E1; reflexivity).
        apply draw_buf_width; [cbn; lia|lia]. }
      pose proof (draw_items_plain_width w items Hw Hit b0 r0 b Hb0 H). lia.
  Qed.

  (* C13_within_width for nested containers *)
  Lemma fit_tree_within_width t w b :
    fit_tree t -> (0 <= w)%Z -> render_tree t w = ROk b -> Forall (fun l : line => (Z.of_nat (length l) <= w)%Z) b.
  Proof.
    intros Hfit Hw H. pose proof (fit_tree_width_fuel (depth t) t (le_n _) Hfit w b Hw H) as Hb.
    assert (Hb' : buf_width b <= Z.to_nat w) by lia.
    apply buf_width_le in Hb'. eapply Forall_impl; [|exact Hb']. cbn beta. intros l Hl. lia.
  Qed.
End Width.
