(* ContainersBlank.v — C13, cell level, the complement of ContainersCells.v: in the buffer of a list
   container every cell that lies in no label and no item is a blank, and together with the cells
   of the labels and items this determines the rendered buffer completely (cell for cell, and its
   height).  The drawing is a sequence of "stamps" (a source buffer with its top-left corner); the
   generic part characterises any sequence of draws, the specific part plugs in the closed form of
   the list container (ContainersGeom.v) and the visibility of every stamp (ContainersCells.v). *)
From SL Require Import Tac.
From SL Require Import PyInt Widget TextWrap KeyPattern Containers
     proofs.WidgetProofs proofs.ContainersProofs proofs.ContainersLayout proofs.ContainersGeom proofs.ContainersCells.
Import ListNotations.

(* ------------------------------------------------------------------ stamps *)
Definition stamp := ((nat * nat) * buffer)%type.          (* ((row, col), source) *)
Definition st_row (s : stamp) : nat := fst (fst s).
Definition st_col (s : stamp) : nat := snd (fst s).
Definition st_src (s : stamp) : buffer := snd s.

(* the cells the stamp writes: row y of the source covers columns col .. col + len(row y) - 1 *)
Definition in_stamp (s : stamp) (i j : nat) : bool := in_rect (st_row s) (st_col s) (st_src s) i j.
(* the cells left of the stamp on its rows: draw pads them with blanks when they do not exist yet *)
Definition pads (s : stamp) (i j : nat) : bool := in_rows (st_row s) (st_src s) i && (j <? st_col s).
Definition st_bottom (s : stamp) : nat := st_row s + length (st_src s).

Definition draw_stamp (T : buffer) (s : stamp) : buffer := fst (draw T (st_row s) (st_col s) false (st_src s)).

(* what the latest stamp covering (i, j) shows there *)
Fixpoint content (stamps : list stamp) (i j : nat) : option char :=
  match stamps with
  | [] => None
  | s :: rest =>
    match content rest i j with
    | Some ch => Some ch
    | None => if in_stamp s i j then cell (st_src s) (i - st_row s) (j - st_col s) else None
    end
  end.

(* the buffer as a function of the stamps: content where a stamp covers, blank where a stamp on that
   row starts further right, no cell otherwise *)
Definition spec_cell (stamps : list stamp) (i j : nat) : option char :=
  match content stamps i j with
  | Some ch => Some ch
  | None => if existsb (fun s => pads s i j) stamps then Some SP else None
  end.
Definition spec_height (stamps : list stamp) : nat := list_max (map st_bottom stamps).

Lemma draw_stamp_cell T s i j :
  cell (draw_stamp T s) i j =
  if in_stamp s i j then cell (st_src s) (i - st_row s) (j - st_col s)
  else match cell T i j with
       | Some ch => Some ch
       | None => if pads s i j then Some SP else None
       end.
Proof. unfold draw_stamp. rewrite draw_cells. reflexivity. Qed.

Lemma in_stamp_defined s i j : in_stamp s i j = true ->
  exists ch, cell (st_src s) (i - st_row s) (j - st_col s) = Some ch.
Proof.
  intros H. apply cell_defined. unfold in_stamp, in_rect, in_rows in H. lia.
Qed.

Lemma cell_nil i j : cell [] i j = None.
Proof. unfold cell. destruct i; reflexivity. Qed.

(* any sequence of draws, cell for cell *)
Lemma fold_stamps_cells i j : forall stamps T,
  cell (fold_left draw_stamp stamps T) i j =
  match content stamps i j with
  | Some ch => Some ch
  | None => match cell T i j with
            | Some ch => Some ch
            | None => if existsb (fun s => pads s i j) stamps then Some SP else None
            end
  end.
Proof.
  induction stamps as [|s l IH]; intros T; cbn [fold_left content existsb].
  - destruct (cell T i j); reflexivity.
  - rewrite IH. destruct (content l i j) as [ch|]; [reflexivity|].
    rewrite draw_stamp_cell. destruct (in_stamp s i j) eqn:E.
    + destruct (in_stamp_defined s i j E) as [ch Hch]. rewrite Hch. reflexivity.
    + destruct (cell T i j) as [ch|]; [reflexivity|].
      destruct (pads s i j); reflexivity.
Qed.

Lemma fold_stamps_spec stamps i j : cell (fold_left draw_stamp stamps []) i j = spec_cell stamps i j.
Proof. rewrite fold_stamps_cells, cell_nil. reflexivity. Qed.

Lemma fold_stamps_height : forall stamps T,
  length (fold_left draw_stamp stamps T) = Nat.max (length T) (spec_height stamps).
Proof.
  unfold spec_height. induction stamps as [|s l IH]; intros T; cbn [fold_left map].
  - cbn. lia.
  - rewrite IH. unfold draw_stamp. rewrite draw_height.
    change (list_max (st_bottom s :: map st_bottom l)) with (Nat.max (st_bottom s) (list_max (map st_bottom l))).
    unfold st_bottom at 2. lia.
Qed.

Lemma content_none stamps i j : (forall s, In s stamps -> in_stamp s i j = false) -> content stamps i j = None.
Proof.
  induction stamps as [|s l IH]; intros H; cbn [content]; [reflexivity|].
  rewrite IH by (intros s' Hs'; apply H; now right). rewrite (H s (or_introl eq_refl)). reflexivity.
Qed.

Lemma content_some stamps i j s : In s stamps -> in_stamp s i j = true -> content stamps i j <> None.
Proof.
  induction stamps as [|s0 l IH]; intros Hin Hs; [contradiction|]. cbn [content].
  destruct (content l i j) as [ch|] eqn:E; [discriminate|].
  destruct Hin as [->|Hin]; [|exfalso; now apply (IH Hin Hs)].
  rewrite Hs. destruct (in_stamp_defined s i j Hs) as [ch Hch]. rewrite Hch. discriminate.
Qed.

(* a buffer is determined by its height and its cells *)
Lemma list_ext_nth_error {A} : forall l1 l2 : list A, (forall n, nth_error l1 n = nth_error l2 n) -> l1 = l2.
Proof.
  induction l1 as [|a l1 IH]; intros [|b l2] H.
  - reflexivity.
  - specialize (H 0). discriminate.
  - specialize (H 0). discriminate.
  - pose proof (H 0) as H0. cbn in H0. injection H0 as ->. f_equal. apply IH. intros n. exact (H (S n)).
Qed.

Lemma buffer_ext : forall b1 b2 : buffer,
  length b1 = length b2 -> (forall i j, cell b1 i j = cell b2 i j) -> b1 = b2.
Proof.
  induction b1 as [|l1 b1 IH]; intros [|l2 b2] Hlen H; cbn [length] in Hlen; try lia; [reflexivity|].
  f_equal.
  - apply list_ext_nth_error. intros n. exact (H 0 n).
  - apply IH; [lia|]. intros i j. exact (H (S i) j).
Qed.

(* ------------------------------------------------------------------ the stamps of a list container *)
(* label first, then the item right of it; without numbering the item alone *)
Definition stamps_of (rendered : list (buffer * option (buffer * nat))) (p : nat * (nat * nat)) : list stamp :=
  let '(ib, lab) := nth (fst p) rendered ([], None) in
  match lab with
  | Some (lb, lw) => [((fst (snd p), snd (snd p)), lb); ((fst (snd p), snd (snd p) + lw), ib)]
  | None => [((fst (snd p), snd (snd p)), ib)]
  end.
Definition list_stamps (rendered : list (buffer * option (buffer * nat))) (ps : list (nat * (nat * nat))) : list stamp :=
  flat_map (stamps_of rendered) ps.

(* the cells covered by the label or the item of a placement *)
Definition item_covers (rendered : list (buffer * option (buffer * nat))) (p : nat * (nat * nat)) (i j : nat) : bool :=
  existsb (fun s => in_stamp s i j) (stamps_of rendered p).

Lemma draw_item_stamps (rendered : list (buffer * option (buffer * nat))) b p :
  draw_item rendered b p = fold_left draw_stamp (stamps_of rendered p) b.
Proof.
  unfold draw_item, stamps_of. destruct (nth (fst p) rendered ([], None)) as [ib [[lb lw]|]]; reflexivity.
Qed.

Lemma fold_items_stamps (rendered : list (buffer * option (buffer * nat))) : forall ps b,
  fold_left (draw_item rendered) ps b = fold_left draw_stamp (list_stamps rendered ps) b.
Proof.
  induction ps as [|p ps IH]; intros b; [reflexivity|].
  cbn [fold_left list_stamps flat_map]. rewrite fold_left_app, <- draw_item_stamps. apply IH.
Qed.

Lemma in_list_stamps (rendered : list (buffer * option (buffer * nat))) ps s :
  In s (list_stamps rendered ps) <-> exists p, In p ps /\ In s (stamps_of rendered p).
Proof. unfold list_stamps. apply in_flat_map. Qed.

Lemma item_covers_false (rendered : list (buffer * option (buffer * nat))) p i j :
  item_covers rendered p i j = false <-> forall s, In s (stamps_of rendered p) -> in_stamp s i j = false.
Proof.
  unfold item_covers. split.
  - intros H s Hs. destruct (in_stamp s i j) eqn:E; [|reflexivity].
    assert (Ht : existsb (fun s => in_stamp s i j) (stamps_of rendered p) = true) by (apply existsb_exists; eauto).
    congruence.
  - intros H. destruct (existsb _ _) eqn:E; [|reflexivity].
    apply existsb_exists in E. destruct E as [s [Hs Ht]]. rewrite (H s Hs) in Ht. discriminate.
Qed.

(* what is covered lies inside the rectangle of the item:
   rows [row, row + item_height), columns [col, col + columns_width) *)
Lemma covers_inside_rect cwn (rendered : list (buffer * option (buffer * nat))) p i j :
  item_fits cwn (nth (fst p) rendered ([], None)) ->
  item_covers rendered p i j = true ->
  fst (snd p) <= i < fst (snd p) + item_height (nth (fst p) rendered ([], None)) /\
  snd (snd p) <= j < snd (snd p) + cwn.
Proof.
  unfold item_covers, stamps_of, item_fits, item_height.
  destruct (nth (fst p) rendered ([], None)) as [ib [[lb lw]|]]; cbn [fst snd existsb]; intros Hf H.
  - rewrite orb_false_r in H. apply orb_true_iff in H.
    destruct H as [H|H]; unfold in_stamp, in_rect, in_rows, st_row, st_col, st_src in H; cbn [fst snd] in H.
    + pose proof (row_len_le_width lb (i - fst (snd p))). lia.
    + pose proof (row_len_le_width ib (i - fst (snd p))). lia.
  - rewrite orb_false_r in H. unfold in_stamp, in_rect, in_rows, st_row, st_col, st_src in H; cbn [fst snd] in H.
    pose proof (row_len_le_width ib (i - fst (snd p))). lia.
Qed.

Lemma all_placements_empty lpr pitch : forall omap k,
  Forall (fun col : list nat => col = []) omap -> all_placements omap lpr k pitch = [].
Proof.
  induction omap as [|col omap IH]; intros k H; [reflexivity|].
  inversion H as [|? ? H1 H2]; subst. cbn [all_placements col_placements app]. now apply IH.
Qed.

(* shows, read at an absolute position *)
Lemma shows_at b src r0 c0 i j :
  shows b src r0 c0 -> in_rect r0 c0 src i j = true -> cell b i j = cell src (i - r0) (j - c0).
Proof.
  intros Hs H. unfold in_rect, in_rows in H.
  rewrite <- (Hs (i - r0) (j - c0)) by lia. f_equal; lia.
Qed.

(* ------------------------------------------------------------------ the rendered list, cell for cell *)
Lemma render_list_determined kind columns items forced spacing kp w b :
  (0 <= spacing)%Z ->
  (forall it w' b', In it items -> (0 < w')%Z -> render_tree it w' = ROk b' -> (Z.of_nat (buf_width b') <= w')%Z) ->
  (forall kp' i lb, kp = Some kp' -> label_buffer kp' i = ROk lb -> buf_width lb <= length (get_widget_label kp' i)) ->
  render_tree (WList kind columns items forced spacing kp) w = ROk b ->
  let cw := list_columns_width columns forced spacing w in
  let omap := ordered_map kind (length items) (Z.to_nat columns) in
  exists rendered,
    render_all_items render_tree items 0 cw kp = ROk rendered /\
    Forall (item_fits (Z.to_nat cw)) rendered /\
    let ps := all_placements omap (lines_per_every_row omap (map item_height rendered)) 0 (Z.to_nat (cw + spacing)) in
    let stamps := list_stamps rendered ps in
    length b = spec_height stamps /\
    (forall i j, cell b i j = spec_cell stamps i j) /\
    (forall i j s, In s stamps -> in_stamp s i j = true ->
                   cell b i j = cell (st_src s) (i - st_row s) (j - st_col s)) /\
    (forall i j, (forall s, In s stamps -> in_stamp s i j = false) ->
                 cell b i j = if existsb (fun s => pads s i j) stamps then Some SP else None).
Proof.
  intros Hs Hitems Hlabels H. cbv zeta.
  assert (Hd : items = [] \/ items <> []) by (destruct items; [now left|right; discriminate]).
  destruct Hd as [->|Hne].
  - rewrite render_tree_list in H. destruct (columns <=? 0)%Z; [discriminate|]. cbv zeta in H.
    cbn [render_all_items bind map length] in H.
    apply draw_list_cols_empty in H; [|apply ordered_map_no_items]. subst b.
    exists []. split; [reflexivity|]. split; [constructor|]. cbn [length].
    rewrite all_placements_empty by apply ordered_map_no_items. cbn [list_stamps flat_map].
    split; [reflexivity|]. split; [intros i j; apply cell_nil|]. split; [intros i j s []|].
    intros i j _. apply cell_nil.
  - destruct (render_list_closed_form kind columns items forced spacing kp w b Hs Hitems Hlabels H Hne)
      as [rendered [Hr [Hf Hb]]].
    destruct (render_list_cells kind columns items forced spacing kp w b Hs Hitems Hlabels H)
      as [rendered' [Hr' Hshown]].
    assert (rendered' = rendered) by congruence. subst rendered'.
    exists rendered. split; [exact Hr|]. split; [exact Hf|].
    set (cw := list_columns_width columns forced spacing w) in *.
    set (omap := ordered_map kind (length items) (Z.to_nat columns)) in *.
    set (lpr := lines_per_every_row omap (map item_height rendered)) in *.
    set (ps := all_placements omap lpr 0 (Z.to_nat (cw + spacing))) in *.
    rewrite fold_items_stamps in Hb.
    assert (Hcells : forall i j, cell b i j = spec_cell (list_stamps rendered ps) i j).
    { intros i j. rewrite Hb. apply fold_stamps_spec. }
    split; [rewrite Hb, fold_stamps_height; cbn [length]; lia|].
    split; [exact Hcells|]. split.
    + intros i j s Hin Hcov. apply in_list_stamps in Hin. destruct Hin as [[i0 [rp cp]] [Hp Hst]].
      apply in_all_placements in Hp. destruct Hp as [k [r [Hk [Hi [-> ->]]]]]. cbn [Nat.add] in Hst.
      specialize (Hshown k r i0 Hk Hi). unfold item_shown in Hshown. unfold stamps_of in Hst.
      cbn [fst snd] in Hshown, Hst.
      destruct (nth i0 rendered ([], None)) as [ib [[lb lw]|]].
      * destruct Hshown as [Hl Hi']. destruct Hst as [<-|[<-|[]]]; unfold in_stamp, st_row, st_col, st_src in *; cbn [fst snd] in *.
        -- now apply shows_at.
        -- now apply shows_at.
      * destruct Hst as [<-|[]]. unfold in_stamp, st_row, st_col, st_src in *; cbn [fst snd] in *. now apply shows_at.
    + intros i j Hout. rewrite Hcells. unfold spec_cell. now rewrite content_none.
Qed.

(* C13_blank_elsewhere: a cell of the rendered list that lies in no label and no item is a blank *)
Lemma render_list_blank_elsewhere kind columns items forced spacing kp w b :
  (0 <= spacing)%Z ->
  (forall it w' b', In it items -> (0 < w')%Z -> render_tree it w' = ROk b' -> (Z.of_nat (buf_width b') <= w')%Z) ->
  (forall kp' i lb, kp = Some kp' -> label_buffer kp' i = ROk lb -> buf_width lb <= length (get_widget_label kp' i)) ->
  render_tree (WList kind columns items forced spacing kp) w = ROk b ->
  let cw := list_columns_width columns forced spacing w in
  let omap := ordered_map kind (length items) (Z.to_nat columns) in
  exists rendered,
    render_all_items render_tree items 0 cw kp = ROk rendered /\
    let lpr := lines_per_every_row omap (map item_height rendered) in
    forall y x ch, cell b y x = Some ch ->
      (forall k r i, k < length omap -> nth_error (nth k omap []) r = Some i ->
         item_covers rendered (i, (rowstart lpr r, k * Z.to_nat (cw + spacing))) y x = false) ->
      ch = SP.
Proof.
  intros Hs Hitems Hlabels H. cbv zeta.
  destruct (render_list_determined kind columns items forced spacing kp w b Hs Hitems Hlabels H)
    as [rendered [Hr [_ [_ [_ [_ Hout]]]]]].
  exists rendered. split; [exact Hr|]. intros y x ch Hcell Hno.
  rewrite Hout in Hcell.
  - destruct (existsb _ _); congruence.
  - intros s Hin. apply in_list_stamps in Hin. destruct Hin as [[i0 [rp cp]] [Hp Hst]].
    apply in_all_placements in Hp. destruct Hp as [k [r [Hk [Hi [-> ->]]]]]. cbn [Nat.add] in Hst.
    specialize (Hno k r i0 Hk Hi). rewrite item_covers_false in Hno. now apply Hno.
Qed.

(* the same with the rectangles of C13_no_overlap / C13_item_inside_rect: a cell outside every
   rectangle  rows [rowstart r, rowstart r + item_height) x columns [k*(cw+s), k*(cw+s) + cw)  is a
   blank: the spacing between columns, the short last row, the lines below a short item *)
Lemma render_list_blank_outside_rects kind columns items forced spacing kp w b :
  (0 <= spacing)%Z ->
  (forall it w' b', In it items -> (0 < w')%Z -> render_tree it w' = ROk b' -> (Z.of_nat (buf_width b') <= w')%Z) ->
  (forall kp' i lb, kp = Some kp' -> label_buffer kp' i = ROk lb -> buf_width lb <= length (get_widget_label kp' i)) ->
  render_tree (WList kind columns items forced spacing kp) w = ROk b ->
  let cw := list_columns_width columns forced spacing w in
  let omap := ordered_map kind (length items) (Z.to_nat columns) in
  exists rendered,
    render_all_items render_tree items 0 cw kp = ROk rendered /\
    let lpr := lines_per_every_row omap (map item_height rendered) in
    forall y x ch, cell b y x = Some ch ->
      (forall k r i, k < length omap -> nth_error (nth k omap []) r = Some i ->
         ~ (rowstart lpr r <= y < rowstart lpr r + item_height (nth i rendered ([], None)) /\
            k * Z.to_nat (cw + spacing) <= x < k * Z.to_nat (cw + spacing) + Z.to_nat cw)) ->
      ch = SP.
Proof.
  intros Hs Hitems Hlabels H. cbv zeta.
  destruct (render_list_determined kind columns items forced spacing kp w b Hs Hitems Hlabels H)
    as [rendered [Hr [Hf _]]].
  destruct (render_list_blank_elsewhere kind columns items forced spacing kp w b Hs Hitems Hlabels H)
    as [rendered' [Hr' Hblank]].
  assert (rendered' = rendered) by congruence. subst rendered'.
  exists rendered. split; [exact Hr|]. intros y x ch Hcell Hno.
  apply (Hblank y x ch Hcell). intros k r i Hk Hi.
  destruct (item_covers rendered _ y x) eqn:E; [|reflexivity]. exfalso.
  apply (Hno k r i Hk Hi).
  apply (covers_inside_rect (Z.to_nat (list_columns_width columns forced spacing w))) in E; [exact E|].
  cbn [fst]. now apply nth_item_fits.
Qed.

(* the two regions in plain inequalities *)
Lemma in_stamp_iff s i j :
  in_stamp s i j = true <->
  st_row s <= i < st_row s + length (st_src s) /\
  st_col s <= j < st_col s + row_len (st_src s) (i - st_row s).
Proof. unfold in_stamp, in_rect, in_rows. lia. Qed.

Lemma pads_iff s i j :
  pads s i j = true <-> st_row s <= i < st_row s + length (st_src s) /\ j < st_col s.
Proof. unfold pads, in_rows. lia. Qed.

(* the stamps of the list: for every grid position the label at (rowstart r, k*pitch) and the item
   right of it, or the item alone *)
Lemma in_list_stamps_grid (rendered : list (buffer * option (buffer * nat))) omap lpr pitch s :
  In s (list_stamps rendered (all_placements omap lpr 0 pitch)) <->
  exists k r i, k < length omap /\ nth_error (nth k omap []) r = Some i /\
                In s (stamps_of rendered (i, (rowstart lpr r, k * pitch))).
Proof.
  rewrite in_list_stamps. split.
  - intros [[i [rp cp]] [Hp Hs]]. apply in_all_placements in Hp. destruct Hp as [k [r [Hk [Hi [-> ->]]]]].
    exists k, r, i. now repeat split.
  - intros [k [r [i [Hk [Hi Hs]]]]]. exists (i, (rowstart lpr r, k * pitch)). split; [|exact Hs].
    apply in_all_placements. exists k, r. now repeat split.
Qed.
