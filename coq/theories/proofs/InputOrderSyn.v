(* InputOrderSyn.v — (worker s2) the syntactic form of "a single event queue":
   a session in which no command list (setup / refresh / show_all / closed / input / signal callbacks, SIfCount branches
   included, and the application's own actions) contains SPushModal, and which has no quit dialog (quit = None), never
   calls execute_new_loop: its trace has no ENewLoopEnter ([no_modal_no_nested]).  With proofs/InputOrder.v this gives
   the order of the delivered lines under a decidable hypothesis on the session ([lines_in_order_syn]).
   Method: InputLink.v's generic fuel induction [spec_all] once more, with the invariant
   "no ENewLoopEnter so far, and the scheduler has no quit screen"; the screens' code is walked syntactically
   ([Safe3]: no primitive step is execute_new_loop; every state write keeps st_quit = None). *)
From SL Require Import Tac.
From RecordUpdate Require Import RecordUpdate.
From SL Require proofs.C10Proofs.
From SL Require Import PyInt LoopSem ScreenSem ScreenMon proofs.InputLink proofs.C06Proofs proofs.InputOrder.
Import ListNotations.

(* ---------------------------------------------------------------- no modal screen anywhere *)
Fixpoint scmd_nomodal (c : scmd) : bool :=
  match c with
  | SPushModal _ _ => false
  | SIfCount _ t e => forallb scmd_nomodal t && forallb scmd_nomodal e
  | _ => true
  end.
Definition cmds_nomodal (l : list scmd) : bool := forallb scmd_nomodal l.
Definition spec_nomodal (sp : screen_spec) : bool :=
  cmds_nomodal (sc_setup_cmds sp) && cmds_nomodal (sc_refresh sp) && cmds_nomodal (sc_show sp) && cmds_nomodal (sc_closed sp) &&
  forallb (fun x => cmds_nomodal (fst (snd x))) (sc_input sp) && cmds_nomodal (fst (sc_input_default sp)) &&
  forallb cmds_nomodal (sc_custom sp).
Definition no_modal_syntax (specl : list screen_spec) (quit : option nat) (acts : list saction) : bool :=
  forallb spec_nomodal specl && match quit with None => true | Some _ => false end &&
  forallb (fun a => match a with SACmds l => cmds_nomodal l | SARun => true end) acts.

Lemma nested_one e t : isnest e = false -> nested (e :: t) = nested t.
Proof. intros H. unfold nested. cbn [existsb]. rewrite H. reflexivity. Qed.

Section Syn.
  Variable specs : nat -> screen_spec.
  Hypothesis Hnm : forall scr, spec_nomodal (specs scr) = true.
  Notation lst := (lstate sstate).
  Implicit Types s : lst.
  Implicit Types Q : outcome -> lst -> Prop.

  Definition A3 s : Prop := nested (trace s) = false.
  Definition Inv3 s : Prop := nested (trace s) = false /\ st_quit (ust s) = None.
  Definition R3 (s s' : lst) : Prop := True.
  Definition SigPre3 (sg : signal) (idx : nat) s : Prop := True.
  Definition nospec (sp : sigspec) : Prop := False.          (* nothing may be passed to execute_new_loop *)

  Notation W3 := (wpS (screen_code specs) A3 A3).
  Notation SP3 := (Spec (screen_code specs) A3 A3 Inv3 R3 SigPre3 nospec).

  Lemma Inv3_same s s' : trace s' = trace s -> ust s' = ust s -> Inv3 s -> Inv3 s'.
  Proof. intros T U [H1 H2]. split; [rewrite T; exact H1|rewrite U; exact H2]. Qed.
  Lemma Inv3_emit e s : isnest e = false -> Inv3 s -> Inv3 (emit e s).
  Proof. intros N [H1 H2]. split; [cbn [trace emit set]; rewrite (nested_one _ _ N); exact H1|exact H2]. Qed.
  Lemma Inv3_enqueue s sg : Inv3 s -> Inv3 (do_enqueue s sg).
  Proof.
    intros HI. unfold do_enqueue. destruct (force_quit s); apply Inv3_emit; try reflexivity; [exact HI|].
    eapply Inv3_same; [| |exact HI]; reflexivity.
  Qed.
  Lemma Inv3_new_signal s sp : Inv3 s -> Inv3 (snd (new_signal s sp)).
  Proof. intros HI. unfold new_signal. cbn [snd]. apply Inv3_emit; [reflexivity|]. eapply Inv3_same; [| |exact HI]; reflexivity. Qed.

  (* ---------------------------------------------------------------- triples *)
  Definition OT3 (p : sprog) : Prop :=
    forall n Q s, SP3 n -> Inv3 s -> (forall o s', Inv3 s' -> Q o s') -> W3 n p Q s.

  Lemma res3 Q o s : Inv3 s -> (forall o s', Inv3 s' -> Q o s') -> res A3 A3 Q o s.
  Proof. intros HI HQ. destruct o as [|[| |]| |]; cbn; auto; apply HI. Qed.

  Definition api_ok3 (a : api) : Prop := match a with ANewLoop _ => False | _ => True end.

  Lemma OT3_api a : api_ok3 a -> OT3 (PApi a).
  Proof.
    intros OK n Q s HS HI HQ. destruct a; cbn [api_ok3] in OK; try contradiction.
    - eapply wpS_api_exact; [reflexivity|apply HI|]. apply HQ, Inv3_enqueue, Inv3_new_signal, HI.
    - eapply wpS_api_exact; [reflexivity|apply HI|]. apply HQ, Inv3_emit; [reflexivity|]. eapply Inv3_same; [| |exact HI]; reflexivity.
    - eapply wpS_api_rec; [exact HS|exact I|exact HI|apply HI|]. intros o s' [H _]. apply HQ, H.
    - eapply wpS_api_rec; [exact HS|exact I|exact HI|apply HI|]. intros o s' [H _]. apply HQ, H.
    - eapply wpS_api_exact; [reflexivity|apply HI|]. apply HQ, Inv3_emit; [reflexivity|]. eapply Inv3_same; [| |exact HI]; reflexivity.
    - eapply wpS_api_exact; [reflexivity|apply HI|]. apply HQ, Inv3_emit; [reflexivity|]. eapply Inv3_same; [| |exact HI]; reflexivity.
    - eapply wpS_api_exact; [reflexivity|apply HI|]. apply HQ, Inv3_emit; [reflexivity|]. eapply Inv3_same; [| |exact HI]; reflexivity.
    - eapply wpS_api_exact; [reflexivity|apply HI|]. apply HQ. eapply Inv3_same; [| |exact HI]; reflexivity.
  Qed.

  (* programs none of whose primitive steps is execute_new_loop, and whose state writes keep "no quit screen" *)
  Inductive Safe3 : sprog -> Prop :=
  | S3_ret : Safe3 PRet
  | S3_throw e : Safe3 (PThrow e)
  | S3_seq p q : Safe3 p -> Safe3 q -> Safe3 (PSeq p q)
  | S3_try p h : Safe3 p -> Safe3 h -> Safe3 (PTry p h)
  | S3_st g : (forall u, st_quit u = None -> st_quit (fst (g u)) = None) ->
              (forall u, st_quit u = None -> Safe3 (snd (g u))) -> Safe3 (PSt g)
  | S3_while c b : Safe3 b -> Safe3 (PWhile c b)
  | S3_emit e : Safe3 (PEmit e)
  | S3_api a : api_ok3 a -> Safe3 (PApi a).

  Lemma user_event_not_nest e : isnest (user_event e) = false.
  Proof. destruct e; reflexivity. Qed.

  Theorem Safe3_OT3 p : Safe3 p -> OT3 p.
  Proof.
    induction 1 as [|e|p q _ IHp _ IHq|p h _ IHp _ IHh|g H1 _ IH|c b _ IHb|e|a Ha]; intros n Q s HS HI HQ.
    - apply wpS_ret; [apply HI|apply HQ, HI].
    - apply wpS_throw; [apply HI|apply res3; assumption].
    - apply wpS_seq. apply IHp; [exact HS|exact HI|]. intros o s' HI'. destruct o; try (apply HQ; exact HI'). apply IHq; auto.
    - apply wpS_try. apply IHp; [exact HS|exact HI|]. intros o s' HI'. destruct o as [|[| |]| |]; try (apply HQ; exact HI'). apply IHh; auto.
    - apply wpS_st; [apply HI|]. apply (IH (ust s) (proj2 HI)); [exact HS| |exact HQ].
      split; [apply HI|]. cbn [ust set]. apply H1, HI.
    - apply (wpS_while _ _ _ n c b Q Inv3); [exact HI|intros s1 H1; apply H1| |].
      + intros s1 H1 _. apply HQ, H1.
      + intros s1 H1 _. apply IHb; [exact HS|exact H1|]. intros o s2 H2. destruct o; try (apply HQ; exact H2). exact H2.
    - assert (HI' : Inv3 (emit (user_event e) s)) by (apply Inv3_emit; [apply user_event_not_nest|exact HI]).
      apply wpS_emit; [apply HI|apply HI'|apply HQ, HI'].
    - apply OT3_api; assumption.
  Qed.

  Lemma S3_rd (f : sstate -> sprog) : (forall u, st_quit u = None -> Safe3 (f u)) -> Safe3 (rd f).
  Proof. intros H. apply S3_st; intros u Pu; [exact Pu|apply H, Pu]. Qed.
  Lemma S3_wr (g : sstate -> sstate) : (forall u, st_quit u = None -> st_quit (g u) = None) -> Safe3 (wr g).
  Proof. intros H. apply S3_st; intros u Pu; [apply H, Pu|apply S3_ret]. Qed.

  (* ---------------------------------------------------------------- the screens' code *)
  Ltac hd3 t := lazymatch t with ?f _ => hd3 f | _ => t end.
  Ltac safe3_step :=
    lazymatch goal with
    | |- Safe3 PRet => apply S3_ret
    | |- Safe3 (PThrow _) => apply S3_throw
    | |- Safe3 (PSeq _ _) => apply S3_seq
    | |- Safe3 (PTry _ _) => apply S3_try
    | |- Safe3 (PWhile _ _) => apply S3_while
    | |- Safe3 (rd _) => apply S3_rd; intros ? ?; cbv zeta
    | |- Safe3 (wr _) => apply S3_wr; let u := fresh "u" in let Pu := fresh "Pu" in intros u Pu; exact Pu
    | |- Safe3 (ev _ _) => apply S3_emit
    | |- Safe3 (evt _ _ _) => apply S3_emit
    | |- Safe3 (PEmit _) => apply S3_emit
    | |- Safe3 (PApi _) => apply S3_api; exact I
    | Pu : st_quit ?u = None |- Safe3 (match st_quit ?u with _ => _ end) => rewrite Pu
    | |- Safe3 (if ?c then _ else _) => destruct c
    | |- Safe3 (match ?x with _ => _ end) => destruct x
    | |- Safe3 ?p => first [ assumption | solve [auto with safe3 nocore] | let h := hd3 p in unfold h ]
    end.
  Ltac safe3 := repeat safe3_step.

  Lemma Safe3_emit_failed_all l : Safe3 (emit_failed_all l).
  Proof. induction l as [|r l IH]; cbn [emit_failed_all]; safe3. Qed.
  Hint Resolve Safe3_emit_failed_all : safe3.
  Lemma Safe3_start_input_thread req check : Safe3 (start_input_thread req check).
  Proof. safe3. Qed.
  Hint Resolve Safe3_start_input_thread : safe3.
  Lemma Safe3_new_input_handler src owner cb k : (forall m, Safe3 (k m)) -> Safe3 (new_input_handler src owner cb k).
  Proof. intros H. unfold new_input_handler. safe3; try apply H. Qed.
  Lemma Safe3_handler_get_input k skip : Safe3 (handler_get_input k skip).
  Proof. safe3. Qed.
  Hint Resolve Safe3_handler_get_input : safe3.
  Lemma Safe3_get_input_blocking scr : Safe3 (get_input_blocking specs scr).
  Proof. unfold get_input_blocking. safe3. Qed.
  Lemma Safe3_handler_ask self h skip : Safe3 (handler_ask self h skip).
  Proof. unfold handler_ask. safe3. Qed.
  Lemma Safe3_handler_wait h : Safe3 (handler_wait h).
  Proof. safe3. Qed.
  Hint Resolve Safe3_get_input_blocking Safe3_handler_ask Safe3_handler_wait : safe3.

  Lemma Safe3_do_scmd cn : Safe3 cn -> forall c, scmd_nomodal c = true -> forall self cnt, Safe3 (do_scmd specs cn self cnt c).
  Proof.
    intros Hcn c. induction c using scmd_ind'.
    - intros NM self cnt. destruct c; try contradiction; try discriminate NM; cbn [do_scmd]; safe3.
    - intros NM self cnt. cbn [scmd_nomodal] in NM. apply andb_true_iff in NM. destruct NM as [N1 N2].
      cbn [do_scmd].
      assert (SEQ : forall l, Forall (fun c => scmd_nomodal c = true -> forall self cnt, Safe3 (do_scmd specs cn self cnt c)) l ->
                    forallb scmd_nomodal l = true ->
                    Safe3 ((fix seq (l : list scmd) : sprog := match l with [] => PRet | x :: r => do_scmd specs cn self cnt x ;; seq r end) l)).
      { induction l as [|x r IHr]; intros F NL; [apply S3_ret|]. inversion F; subst. cbn [forallb] in NL.
        apply andb_true_iff in NL. destruct NL as [NX NR]. apply S3_seq; [auto|apply IHr; assumption]. }
      destruct (cnt <? k)%nat; apply SEQ; assumption.
  Qed.
  Lemma Safe3_do_scmds cn : Safe3 cn -> forall l, cmds_nomodal l = true -> forall self cnt, Safe3 (do_scmds specs cn self cnt l).
  Proof.
    intros Hcn l. induction l as [|x r IH]; intros NM self cnt; cbn [do_scmds]; [apply S3_ret|].
    cbn [cmds_nomodal forallb] in NM. apply andb_true_iff in NM. destruct NM as [NX NR].
    apply S3_seq; [apply Safe3_do_scmd; assumption|apply IH, NR].
  Qed.

  Lemma nm_parts scr : cmds_nomodal (sc_refresh (specs scr)) = true /\ cmds_nomodal (sc_show (specs scr)) = true /\
    cmds_nomodal (sc_closed (specs scr)) = true /\
    (forall x, In x (sc_input (specs scr)) -> cmds_nomodal (fst (snd x)) = true) /\
    cmds_nomodal (fst (sc_input_default (specs scr))) = true /\
    (forall l, In l (sc_custom (specs scr)) -> cmds_nomodal l = true) /\
    cmds_nomodal (sc_setup_cmds (specs scr)) = true.
  Proof.
    pose proof (Hnm scr) as H. unfold spec_nomodal in H.
    apply andb_true_iff in H. destruct H as [H H6]. apply andb_true_iff in H. destruct H as [H H5].
    apply andb_true_iff in H. destruct H as [H H4]. apply andb_true_iff in H. destruct H as [H H3].
    apply andb_true_iff in H. destruct H as [H1 H2]. apply andb_true_iff in H1. destruct H1 as [H0 H1].
    rewrite forallb_forall in H4, H6. repeat split; auto.
  Qed.

  Lemma Safe3_call_closed d : Safe3 (call_closed specs d).
  Proof. unfold call_closed. safe3. apply Safe3_do_scmds; [safe3|apply nm_parts]. Qed.
  Hint Resolve Safe3_call_closed : safe3.
  Lemma Safe3_close_screen cf : Safe3 (close_screen specs cf).
  Proof. unfold close_screen, ev_stack, sched_redraw. safe3. Qed.
  Hint Resolve Safe3_close_screen : safe3.
  Lemma Safe3_run_cmds self cnt l : cmds_nomodal l = true -> Safe3 (run_cmds specs self cnt l).
  Proof. intros NM. unfold run_cmds. apply Safe3_do_scmds; [apply Safe3_close_screen|exact NM]. Qed.
  Lemma Safe3_call_setup d : Safe3 (call_setup specs d).
  Proof.
    unfold call_setup. pose proof (proj2 (proj2 (proj2 (proj2 (proj2 (proj2 (nm_parts (sd_scr d)))))))) as NM.
    destruct (sc_setup_cmds (specs (sd_scr d))) as [|c l]; [unfold call_setup_plain; safe3|].
    unfold call_setup_cmds. apply S3_rd. intros u Pu. cbv zeta.
    apply S3_seq; [safe3|]. apply S3_seq; [safe3|]. apply S3_seq; [apply Safe3_run_cmds; exact NM|]. safe3.
  Qed.
  Lemma Safe3_call_refresh d : Safe3 (call_refresh specs d).
  Proof. unfold call_refresh. safe3. apply Safe3_run_cmds, nm_parts. Qed.
  Lemma Safe3_ask_pages scr k : Safe3 (ask_pages specs scr k).
  Proof. induction k as [|k IH]; cbn [ask_pages]; safe3. Qed.
  Hint Resolve Safe3_call_setup Safe3_call_refresh Safe3_ask_pages : safe3.
  Lemma Safe3_call_show_all d : Safe3 (call_show_all specs d).
  Proof. unfold call_show_all. safe3. apply Safe3_run_cmds, nm_parts. Qed.
  Lemma Safe3_call_input scr key : Safe3 (call_input specs scr key).
  Proof.
    unfold call_input. apply S3_rd. intros u Pu. cbv zeta.
    assert (NM : cmds_nomodal (fst (match assoc_str key (sc_input (specs scr)) with
                        | Some (c, r) => (c, r)
                        | None => (fst (sc_input_default (specs scr)),
                                   match snd (sc_input_default (specs scr)) with Some r => r | None => RKey key end)
                        end)) = true).
    { destruct (assoc_str key (sc_input (specs scr))) as [[c r]|] eqn:AS.
      - destruct (assoc_str_in _ _ _ AS) as [k' I]. apply (proj1 (proj2 (proj2 (proj2 (nm_parts scr)))) _ I).
      - apply nm_parts. }
    destruct (match assoc_str key (sc_input (specs scr)) with
              | Some (c, r) => (c, r)
              | None => (fst (sc_input_default (specs scr)),
                         match snd (sc_input_default (specs scr)) with Some r => r | None => RKey key end)
              end) as [cmds rv]. cbn [fst] in NM.
    safe3. apply Safe3_run_cmds, NM.
  Qed.
  Lemma Safe3_get_input scr args : Safe3 (get_input specs scr args).
  Proof. unfold get_input. safe3. Qed.
  Hint Resolve Safe3_call_show_all Safe3_call_input Safe3_get_input : safe3.
  Lemma Safe3_process_input_result act b : Safe3 (process_input_result specs act b).
  Proof. unfold process_input_result, with_top, sched_redraw. safe3. Qed.
  Hint Resolve Safe3_process_input_result : safe3.
  Lemma Safe3_process_input scr line : Safe3 (process_input specs scr line).
  Proof. unfold process_input, raise_exception_signal. safe3. Qed.
  Lemma Safe3_draw_screen d : Safe3 (draw_screen specs d).
  Proof. unfold draw_screen, raise_exception_signal. safe3. Qed.
  Hint Resolve Safe3_process_input Safe3_draw_screen : safe3.
  Lemma Safe3_process_screen : Safe3 (process_screen specs).
  Proof. unfold process_screen, with_top, sched_redraw, raise_exception_signal. safe3. Qed.
  Lemma Safe3_custom_handler k sg scr : Safe3 (custom_handler specs k sg scr).
  Proof.
    unfold custom_handler. safe3. apply Safe3_run_cmds.
    destruct (nth_in_or_default k (sc_custom (specs scr)) []) as [I|E]; [apply (proj1 (proj2 (proj2 (proj2 (proj2 (proj2 (nm_parts scr)))))) _ I)|rewrite E; reflexivity].
  Qed.
  Lemma Safe3_input_received_handler sg : Safe3 (input_received_handler sg).
  Proof. unfold input_received_handler, emit_ready. safe3. Qed.
  Lemma Safe3_input_ready_handler k sg : Safe3 (input_ready_handler specs k sg).
  Proof. unfold input_ready_handler. safe3. Qed.
  Lemma Safe3_screen_code hid sg data : Safe3 (screen_code specs hid sg data).
  Proof.
    unfold screen_code. destruct (hid =? H_RENDER)%nat; [apply Safe3_process_screen|].
    destruct (hid =? H_CLOSE)%nat; [apply Safe3_close_screen|].
    destruct (hid =? H_RECEIVED)%nat; [apply Safe3_input_received_handler|].
    destruct (10 <=? hid)%nat; [apply Safe3_input_ready_handler|].
    destruct (3 <=? hid)%nat; [apply Safe3_custom_handler|apply S3_ret].
  Qed.

  (* ---------------------------------------------------------------- the loop's own steps *)
  Theorem spec3_all : forall n, SP3 n.
  Proof.
    apply spec_all.
    - intros s HI. apply HI.
    - intros s H. exact H.
    - intros s. exact I.
    - intros a b c _ _. exact I.
    - intros s s' (T & U & _) HI. split; [eapply Inv3_same; eauto|exact I].
    - intros s s' sg i _ _. exact I.
    - intros s e NE HI. split; [|exact I]. apply Inv3_emit; [destruct e; try discriminate NE; reflexivity|exact HI].
    - intros s HI. unfold A3. cbn [trace emit set]. rewrite nested_one by reflexivity. apply HI.
    - intros s h sid H. unfold A3 in *. cbn [trace emit set]. rewrite nested_one by reflexivity. exact H.
    - intros s p c sg q' HI _. cbv zeta. split; [|split; exact I]. apply Inv3_emit; [reflexivity|]. eapply Inv3_same; [| |exact HI]; reflexivity.
    - intros s p c sg q' HI _. cbv zeta. split; [|exact I]. apply Inv3_emit; [reflexivity|]. eapply Inv3_same; [| |exact HI]; reflexivity.
    - intros s sp r HI _ _. unfold new_signal. cbv zeta. split; [|exact I]. apply Inv3_enqueue.
      apply Inv3_emit; [reflexivity|]. apply Inv3_emit; [reflexivity|]. eapply Inv3_same; [| |exact HI]; reflexivity.
    - intros s sg i HI _. cbv zeta. split; [|split; exact I]. apply Inv3_enqueue, Inv3_new_signal, HI.
    - intros s sp [].
    - intros s sp [].
    - intros n HS s sg idx hs hid data HI _ _ _ _.
      apply (Safe3_OT3 _ (Safe3_screen_code hid sg data)); [exact HS|apply Inv3_emit; [reflexivity|exact HI]|].
      intros o s2 HI2. cbv zeta. split; [apply Inv3_emit; [reflexivity|exact HI2]|split; exact I].
  Qed.

  Theorem session_no_nested fuel : forall acts s, Inv3 s ->
    forallb (fun a => match a with SACmds l => cmds_nomodal l | SARun => true end) acts = true ->
    A3 (snd (app_session specs fuel acts s)).
  Proof.
    induction acts as [|a r IH]; intros s HI NM; cbn [app_session snd]; [apply HI|].
    cbn [forallb] in NM. apply andb_true_iff in NM. destruct NM as [N1 N2].
    pose proof (Inv3_emit ETop s eq_refl HI) as HT.
    assert (STEP : forall o s1, res A3 A3 (fun _ s' => Inv3 s') o s1 ->
              A3 (snd (match o with
                       | OBlocked | OFuel | OThrow XSysExit => ([o], s1)
                       | _ => let '(os, s2) := app_session specs fuel r s1 in (o :: os, s2)
                       end))).
    { intros o s1 R. destruct o as [|[| |]| |]; cbn in R; cbn [snd]; try exact R.
      all: specialize (IH s1 R N2); destruct (app_session specs fuel r s1) as [os s2]; exact IH. }
    destruct a as [l|].
    - destruct (exec (screen_code specs) fuel (CProg (run_cmds specs 0 0 l)) (emit ETop s)) as [o s1] eqn:E.
      apply STEP.
      destruct (Safe3_OT3 _ (Safe3_run_cmds 0 0 l N1) fuel (fun _ s' => Inv3 s') (emit ETop s) (spec3_all fuel) HT (fun _ _ H => H)) as [_ HW].
      apply (HW fuel (le_n _) _ _ E).
    - destruct (st_stack (ust s)) as [|d st] eqn:ES; [destruct (st_run_empty (ust s))|].
      + destruct (exec (screen_code specs) fuel CRun (emit ETop s)) as [o s1] eqn:E. apply STEP.
        eapply res_mono; [|apply (spec3_all fuel fuel (le_n _) CRun (emit ETop s) o s1 I HT I E)].
        intros o0 s0 [H _]. exact H.
      + apply (STEP (OThrow XError) (emit ETop s)). cbn. exact HT.
      + destruct (exec (screen_code specs) fuel CRun (emit ETop s)) as [o s1] eqn:E. apply STEP.
        eapply res_mono; [|apply (spec3_all fuel fuel (le_n _) CRun (emit ETop s) o s1 I HT I E)].
        intros o0 s0 [H _]. exact H.
  Qed.
End Syn.

(* ====================================================================== every session *)
Lemma nomodal_specs_all specs specl : (forall n, specs n = nth n specl default_spec) ->
  forallb spec_nomodal specl = true -> forall scr, spec_nomodal (specs scr) = true.
Proof.
  intros HS NM scr. rewrite HS. destruct (Nat.lt_ge_cases scr (length specl)) as [L|L].
  - rewrite forallb_forall in NM. apply NM. apply nth_In, L.
  - rewrite nth_overflow by exact L. reflexivity.
Qed.

(* no modal screen and no quit dialog in the session: execute_new_loop never runs *)
Theorem no_modal_no_nested specs specl typed quit run_empty fuel acts :
  (forall n, specs n = nth n specl default_spec) -> no_modal_syntax specl quit acts = true ->
  no_nested_loop (rev (trace (snd (app_run_all specs specl typed quit run_empty fuel acts)))) = true.
Proof.
  intros HS NM. unfold no_modal_syntax in NM.
  apply andb_true_iff in NM. destruct NM as [NM N3]. apply andb_true_iff in NM. destruct NM as [N1 N2].
  destruct quit as [q|]; [discriminate N2|]. clear N2.
  unfold app_run_all.
  destruct (exec (screen_code specs) 20 (CProg app_initialize) (init_state (sstate0 specl typed None run_empty))) as [o s1] eqn:E.
  assert (HI : Inv3 s1) by (cbn in E; inversion E; subst o s1; split; reflexivity).
  pose proof (session_no_nested specs (nomodal_specs_all specs specl HS N1) fuel acts s1 HI N3) as H.
  unfold no_nested_loop. apply negb_true_iff. change (existsb isnest ?t) with (nested t). rewrite nested_rev. exact H.
Qed.

(* the order of the delivered lines, under a decidable hypothesis on the session *)
Theorem lines_in_order_syn specs specl typed quit run_empty fuel acts :
  (forall n, specs n = nth n specl default_spec) -> no_modal_syntax specl quit acts = true ->
  Subseq (ready_texts (rev (trace (snd (app_run_all specs specl typed quit run_empty fuel acts))))) (map line_of typed).
Proof.
  intros HS NM. apply (lines_in_order specs specl typed quit run_empty fuel acts).
  apply no_modal_no_nested; assumption.
Qed.
