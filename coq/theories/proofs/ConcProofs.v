(* ConcProofs.v — proofs about the interleaving semantics Conc.v (property C19). *)
From SL Require Import Tac.
From Coq Require Import Permutation.
From RecordUpdate Require Import RecordUpdate.
From SL Require Import Conc.
Import ListNotations.

Lemma steps_app : forall a b st, steps (a ++ b) st = steps b (steps a st).
Proof. intros; unfold steps; apply fold_left_app. Qed.

Lemma step_disabled : forall t st, enabled t st = false -> step t st = st.
Proof.
  intros t st; unfold enabled, step.
  destruct (nth_error (c_thr st) t) as [th|]; [|reflexivity].
  destruct (tstep t th (c_sh st)) as [[th' h']|]; [discriminate|reflexivity].
Qed.

(* the stutter-free sub-schedule of a schedule *)
Fixpoint effective (sch : list nat) (st : cstate) : list nat :=
  match sch with
  | [] => []
  | t :: r => if enabled t st then t :: effective r (step t st) else effective r st
  end.

Lemma steps_stutter_free : forall sch st, steps (effective sch st) st = steps sch st.
Proof.
  induction sch as [|t r IH]; intros st; [reflexivity|].
  cbn [effective]. destruct (enabled t st) eqn:E.
  - cbn [steps fold_left]. apply IH.
  - cbn [steps fold_left]. rewrite (step_disabled _ _ E). apply IH.
Qed.

(* ------------------------------------------------------------------ generic list facts *)
Lemma upd_split : forall {A} (l1 : list A) x y l2, upd (length l1) y (l1 ++ x :: l2) = l1 ++ y :: l2.
Proof. induction l1 as [|a l1 IH]; intros; cbn; [reflexivity|]. now rewrite IH. Qed.

Lemma nth_error_split' : forall {A} (l : list A) n a, nth_error l n = Some a ->
  exists l1 l2, l = l1 ++ a :: l2 /\ length l1 = n.
Proof. intros. apply nth_error_split. assumption. Qed.

Lemma nth_error_mid : forall {A} (l1 : list A) x l2, nth_error (l1 ++ x :: l2) (length l1) = Some x.
Proof. induction l1; cbn; auto. Qed.

Lemma nth_error_mid_ne : forall {A} (l1 : list A) x y l2 n, n <> length l1 ->
  nth_error (l1 ++ x :: l2) n = nth_error (l1 ++ y :: l2) n.
Proof.
  induction l1 as [|a l1 IH]; intros x y l2 n Hn; destruct n; cbn in *; try congruence; auto.
Qed.

(* ------------------------------------------------------------------ a step, opened up *)
Lemma step_cases : forall t st,
  step t st = st \/
  exists l1 th l2 th' h', c_thr st = l1 ++ th :: l2 /\ length l1 = t /\
    tstep t th (c_sh st) = Some (th', h') /\ step t st = {| c_thr := l1 ++ th' :: l2; c_sh := h' |}.
Proof.
  intros t st. unfold step.
  destruct (nth_error (c_thr st) t) as [th|] eqn:E; [|now left].
  destruct (tstep t th (c_sh st)) as [[th' h']|] eqn:T; [|now left].
  right. destruct (nth_error_split' _ _ _ E) as (l1 & l2 & Hl & Hn).
  exists l1, th, l2, th', h'. repeat split; auto.
  rewrite Hl, <- Hn, upd_split. reflexivity.
Qed.

Lemma steps_inv : forall (P : cstate -> Prop),
  (forall t st, P st -> P (step t st)) -> forall sch st, P st -> P (steps sch st).
Proof.
  intros P HP. induction sch as [|t r IH]; intros st H; [exact H|].
  cbn [steps fold_left]. apply IH, HP, H.
Qed.

(* open a [tstep ... = Some ...] hypothesis into one goal per program point *)
Ltac open_match H :=
  repeat match type of H with
         | context [match ?x with _ => _ end] =>
           match x with
           | context [match _ with _ => _ end] => fail 1
           | _ => destruct x eqn:?
           end
         end.

Ltac inv_tstep H :=
  unfold tstep in H; cbn [t_pc t_prog] in H;
  unfold start, cont, enq, estep, close_empty in H;
  open_match H; try discriminate H;
  inversion H; subst; clear H.

(* ------------------------------------------------------------------ counting occurrences *)
Definition cnt (l : list nat) (x : nat) : nat := count_occ Nat.eq_dec l x.
Definition one (a x : nat) : nat := if Nat.eq_dec a x then 1 else 0.
Definition sidof (x : nat * entry) : nat := e_sid (snd x).

Lemma cnt_nil : forall x, cnt [] x = 0. Proof. reflexivity. Qed.
Lemma cnt_cons : forall a l x, cnt (a :: l) x = one a x + cnt l x.
Proof. intros; unfold cnt, one; cbn. destruct (Nat.eq_dec a x); lia. Qed.
Lemma cnt_app : forall l1 l2 x, cnt (l1 ++ l2) x = cnt l1 x + cnt l2 x.
Proof. intros; unfold cnt; apply count_occ_app. Qed.
Lemma cnt_perm : forall l1 l2, (forall x, cnt l1 x = cnt l2 x) <-> Permutation l1 l2.
Proof. intros; unfold cnt; symmetry; apply (Permutation_count_occ Nat.eq_dec). Qed.
Lemma cnt_in : forall l x, In x l <-> cnt l x > 0.
Proof. intros; unfold cnt; apply count_occ_In. Qed.
Lemma cnt_flat_map_app : forall {A} (f : A -> list nat) l1 l2 x,
  cnt (flat_map f (l1 ++ l2)) x = cnt (flat_map f l1) x + cnt (flat_map f l2) x.
Proof. intros; rewrite flat_map_app; apply cnt_app. Qed.

#[global] Hint Rewrite cnt_nil cnt_cons cnt_app map_app : cntdb.

Lemma pop_min_cnt : forall q l e l', pop_min q l = Some (e, l') ->
  forall x, cnt (map sidof l) x = one (e_sid e) x + cnt (map sidof l') x.
Proof.
  induction l as [|[q' e'] r IH]; intros e l' H x; cbn [pop_min] in H; [discriminate|].
  destruct (q' =? q) eqn:Eq.
  - destruct (pop_min q r) as [[m r']|] eqn:Er.
    + destruct (entry_le e' m); inversion H; subst; clear H; cbn [map]; autorewrite with cntdb.
      * reflexivity.
      * rewrite (IH _ _ eq_refl x). unfold sidof at 1 3; cbn [snd]. lia.
    + inversion H; subst. cbn [map]; autorewrite with cntdb. reflexivity.
  - destruct (pop_min q r) as [[m r']|] eqn:Er; [|discriminate].
    inversion H; subst; clear H. cbn [map]; autorewrite with cntdb.
    rewrite (IH _ _ eq_refl x). unfold sidof at 1 3; cbn [snd]. lia.
Qed.

(* ------------------------------------------------------------------ C19_conservation *)
Definition sh_places (h : shared) : list nat := map sidof (h_pend h) ++ h_disp h ++ h_drop h.

Lemma tstep_places : forall t th h th' h', tstep t th h = Some (th', h') ->
  forall x, cnt (thr_unput th ++ thr_held th ++ sh_places h) x
          = cnt (thr_unput th' ++ thr_held th' ++ sh_places h') x.
Proof.
  intros t [prog p] h th' h' H x.
  inv_tstep H.
  all: unfold thr_unput, thr_held, sh_places, dispatched, lbl, mk;
       cbn [t_pc t_prog pc_unput pc_held prog_sids flat_map act_sids app
            h_pend h_disp h_drop set];
       autorewrite with cntdb; cbn [map sidof snd e_sid]; autorewrite with cntdb.
  all: try lia.
  all: try (match goal with Hp : pop_min _ _ = Some _ |- _ => rewrite (pop_min_cnt _ _ _ _ Hp x) end; lia).
  all: unfold sidof; cbn [snd]; lia.
Qed.

Definition all_sids (progs : list (list action)) : list nat := flat_map prog_sids progs.

Lemma places_split : forall l1 th l2 h x,
  cnt (places {| c_thr := l1 ++ th :: l2; c_sh := h |}) x =
  cnt (flat_map thr_unput l1) x + cnt (flat_map thr_unput l2) x +
  cnt (flat_map thr_held l1) x + cnt (flat_map thr_held l2) x +
  cnt (thr_unput th ++ thr_held th ++ sh_places h) x.
Proof.
  intros. unfold places, unput, held, pending, sh_places. cbn [c_thr c_sh].
  rewrite !flat_map_app. cbn [flat_map].
  change (map (fun x0 : nat * entry => e_sid (snd x0)) (h_pend h)) with (map sidof (h_pend h)).
  autorewrite with cntdb. lia.
Qed.

Lemma step_places : forall t st x, cnt (places (step t st)) x = cnt (places st) x.
Proof.
  intros t st x. destruct (step_cases t st) as [E|(l1 & th & l2 & th' & h' & Hl & Hn & Ht & E)].
  - now rewrite E.
  - rewrite E. destruct st as [thr h]. cbn [c_thr c_sh] in *. subst thr.
    rewrite !places_split. rewrite (tstep_places _ _ _ _ _ Ht x). reflexivity.
Qed.

Lemma init_places : forall progs, places (init progs) = all_sids progs ++ [].
Proof.
  intros. unfold places, unput, held, pending, init, all_sids. cbn [c_thr c_sh h0 h_pend h_disp h_drop map app].
  assert (H1 : forall l, flat_map thr_unput (map (fun p => mk p P0) l) = flat_map prog_sids l).
  { induction l as [|p l IH]; cbn; [reflexivity|]. now rewrite IH. }
  assert (H2 : forall l : list (list action), flat_map thr_held (map (fun p => mk p P0) l) = []).
  { induction l as [|p l IH]; cbn; auto. }
  rewrite H1, H2. reflexivity.
Qed.

(* every signal of the programs is, in every reachable state, in exactly as many places as it was submitted *)
Theorem conservation : forall progs sch, Permutation (places (steps sch (init progs))) (all_sids progs).
Proof.
  intros. apply cnt_perm. intros x.
  transitivity (cnt (places (init progs)) x).
  - revert x. apply (steps_inv (fun st => forall x, cnt (places st) x = cnt (places (init progs)) x)).
    + intros t st H x. rewrite step_places. apply H.
    + reflexivity.
  - rewrite init_places, app_nil_r. reflexivity.
Qed.

Corollary no_duplication : forall progs sch, NoDup (all_sids progs) -> NoDup (places (steps sch (init progs))).
Proof.
  intros progs sch H. eapply Permutation_NoDup; [|exact H]. symmetry. apply conservation.
Qed.
