(* ConcProofs.v — proofs about the interleaving semantics Conc.v (property C19). *)
From SL Require Import Tac.
From SL Require Import Conc.
Import ListNotations.

Lemma steps_app : forall a b st, steps (a ++ b) st = steps b (steps a st).
Proof. intros; unfold steps; apply fold_left_app. Qed.

Lemma step_disabled : forall t st, enabled t st = false -> step t st = st.
Proof.
  intros t st; unfold enabled, step.
  destruct (nth_error (c_thr st) t) as [th|]; [|reflexivity].
  destruct (tstep t th (c_sh st)) as [[th' h']|]; [discriminate|reflexivity].
Qed.

(* the stutter-free sub-schedule of a schedule *)
Fixpoint effective (sch : list nat) (st : cstate) : list nat :=
  match sch with
  | [] => []
  | t :: r => if enabled t st then t :: effective r (step t st) else effective r st
  end.

Lemma steps_stutter_free : forall sch st, steps (effective sch st) st = steps sch st.
Proof.
  induction sch as [|t r IH]; intros st; [reflexivity|].
  cbn [effective]. destruct (enabled t st) eqn:E.
  - cbn [steps fold_left]. apply IH.
  - cbn [steps fold_left]. rewrite (step_disabled _ _ E). apply IH.
Qed.
