(* C10Proofs.v — "waiting for a signal wakes up for that signal, and only for it" (worker c10).
   The monitor chk_C10 accepts every trace of every session of the model (LoopSem.exec), for every
   handler code; plus direct (Hoare-style) statements about the non-waiting form. *)
From SL Require Import Tac.
From SL Require Import LoopSem Monitors proofs.TicketProofs.
From RecordUpdate Require Import RecordUpdate.
Import ListNotations.

(* ------------------------------------------------------------------ traces, worlds, monitors *)
Definition world_of (t : list event) : world := fold_left world_step t world0.

(* every event of the trace (newest first) was accepted in the world of the events before it *)
Fixpoint good (chk : world -> event -> bool) (tr : list event) : Prop :=
  match tr with [] => True | e :: r => good chk r /\ chk (world_of (rev r)) e = true end.

Lemma run_mon_snoc chk t : forall w idx e,
  run_mon chk w (t ++ [e]) idx = None <->
  (run_mon chk w t idx = None /\ chk (fold_left world_step t w) e = true).
Proof.
  induction t as [|a r IH]; intros w idx e; cbn [app run_mon fold_left].
  - destruct (chk w e); split; auto; try discriminate. intros [_ H]; discriminate H.
  - destruct (chk w a); [apply IH|]. split; [discriminate|]. intros [H _]; discriminate H.
Qed.

Lemma good_ok chk tr : good chk tr -> ok chk (rev tr) = true.
Proof.
  intros H. unfold ok.
  assert (R : run_mon chk world0 (rev tr) 0 = None).
  { induction tr as [|e r IH]; cbn [rev]; [reflexivity|]. destruct H as [H1 H2].
    apply run_mon_snoc. split; [apply IH; exact H1|exact H2]. }
  rewrite R. reflexivity.
Qed.

Section C10.
Context {U : Type}.
Variable code : nat -> signal -> nat -> prog U.
Implicit Types s : lstate U.

Definition W s : world := world_of (rev (trace s)).

Arguments W : simpl never.

Lemma W_emit e s : W (emit e s) = world_step (W s) e.
Proof.
  unfold W, world_of. change (trace (emit e s)) with (e :: trace s). cbn [rev].
  rewrite fold_left_app. reflexivity.
Qed.

(* what the proof looks at in the world *)
Definition wl s := w_waiters (W s).
Definition il s := w_iters (W s).
Definition fl s := map f_sid (w_frames (W s)).
Definition nf s := length (fl s).
Definition wkey (x : waiter) : nat * nat * nat := (wt_cls x, wt_ticket x, wt_depth x).
Definition keys s := map wkey (wl s).

Definition sig_ok (w : world) (sg : signal) : Prop :=
  lookup (sg_id sg) (w_sig w) = Some (sg_cls sg, sg_prio sg, sg_src sg).
Definition entries_ok (w : world) (qs : list equeue) : Prop :=
  forall q, In q qs -> forall p c sg, In (p, c, sg) (eq_entries q) -> p = sg_prio sg /\ sig_ok w sg.

(* holds at every point of every execution *)
Record Persist s : Prop := {
  p_good : good chk_C10 (trace s);
  p_fresh : forall sid, next_sig s <= sid -> lookup sid (w_sig (W s)) = None;
  p_sig : entries_ok (W s) (qstore s);
  p_fq : force_quit s = w_fq (W s);
  p_rl : run_loop s = false -> w_runloop (W s) = false;
  p_wf : tm_wf (tickets s) }.

(* holds wherever control is not unwinding: every outstanding waiter holds a ticket in the line of its class
   whose flag says whether it was released *)
Record Core s : Prop := {
  c_p : Persist s;
  c_tk : forall x, In x (wl s) -> tflag (tickets s) (wt_cls x) (wt_ticket x) = Some (wt_released x);
  c_nd : NoDup (map wt_ticket (wl s)) }.

Definition StrictK (n : nat) (ks : list (nat * nat * nat)) : Prop := Forall (fun k => snd k < n) ks.
Definition StrictI (n : nat) (is : list (nat * option Z)) : Prop := Forall (fun i => fst i < n) is.

Lemma entries_ok_sig w w' qs : w_sig w' = w_sig w -> entries_ok w qs -> entries_ok w' qs.
Proof.
  intros E H q Hq p c sg Hin. destruct (H q Hq p c sg Hin) as [H1 H2]. split; [exact H1|].
  unfold sig_ok in *. rewrite E. exact H2.
Qed.

(* an event that does not create a signal *)
Lemma Persist_emit e s s0 :
  Persist s ->
  trace s0 = trace s -> next_sig s0 = next_sig s ->
  entries_ok (W s) (qstore s0) -> tm_wf (tickets s0) ->
  chk_C10 (W s) e = true ->
  w_sig (world_step (W s) e) = w_sig (W s) ->
  force_quit s0 = w_fq (world_step (W s) e) ->
  (run_loop s0 = false -> w_runloop (world_step (W s) e) = false) ->
  Persist (emit e s0).
Proof.
  intros P Ht Hn Hq Hwf Hc Hs Hfq Hrl.
  assert (HW : W (emit e s0) = world_step (W s) e).
  { rewrite W_emit. unfold W. rewrite Ht. reflexivity. }
  constructor.
  - change (trace (emit e s0)) with (e :: trace s0). rewrite Ht. cbn [good]. split; [apply P|exact Hc].
  - rewrite HW, Hs. change (next_sig (emit e s0)) with (next_sig s0). rewrite Hn. apply P.
  - rewrite HW. change (qstore (emit e s0)) with (qstore s0).
    eapply entries_ok_sig; [exact Hs|exact Hq].
  - rewrite HW. exact Hfq.
  - rewrite HW. exact Hrl.
  - exact Hwf.
Qed.

Lemma Core_emit e s s0 :
  Core s ->
  trace s0 = trace s -> next_sig s0 = next_sig s ->
  entries_ok (W s) (qstore s0) -> tickets s0 = tickets s ->
  chk_C10 (W s) e = true ->
  w_sig (world_step (W s) e) = w_sig (W s) ->
  w_waiters (world_step (W s) e) = w_waiters (W s) ->
  force_quit s0 = w_fq (world_step (W s) e) ->
  (run_loop s0 = false -> w_runloop (world_step (W s) e) = false) ->
  Core (emit e s0).
Proof.
  intros C Ht Hn Hq Htk Hc Hs Hw Hfq Hrl.
  assert (HW : W (emit e s0) = world_step (W s) e).
  { rewrite W_emit. unfold W. rewrite Ht. reflexivity. }
  constructor.
  - apply (Persist_emit e s s0); auto; [apply C|rewrite Htk; apply C].
  - unfold wl. rewrite HW, Hw. change (tickets (emit e s0)) with (tickets s0). rewrite Htk. apply C.
  - unfold wl. rewrite HW, Hw. apply C.
Qed.

(* changes of fields the invariant does not read *)
Lemma Persist_ext s s' :
  trace s' = trace s -> next_sig s' = next_sig s -> qstore s' = qstore s -> tickets s' = tickets s ->
  force_quit s' = force_quit s -> run_loop s' = run_loop s -> Persist s -> Persist s'.
Proof.
  intros Ht Hn Hq Htk Hf Hr P.
  assert (HW : W s' = W s) by (unfold W; rewrite Ht; reflexivity).
  constructor; rewrite ?HW, ?Ht, ?Hn, ?Hq, ?Htk, ?Hf, ?Hr; apply P.
Qed.

Lemma Core_ext s s' :
  trace s' = trace s -> next_sig s' = next_sig s -> qstore s' = qstore s -> tickets s' = tickets s ->
  force_quit s' = force_quit s -> run_loop s' = run_loop s -> Core s -> Core s'.
Proof.
  intros Ht Hn Hq Htk Hf Hr C.
  assert (HW : W s' = W s) by (unfold W; rewrite Ht; reflexivity).
  constructor; [apply (Persist_ext s); auto; apply C|..]; unfold wl; rewrite HW, ?Htk; apply C.
Qed.

Lemma Core_qstore s qs : Core s -> entries_ok (W s) qs -> Core (s <| qstore := qs |>).
Proof.
  intros C H. constructor; [|apply C|apply C].
  constructor; try apply C. exact H.
Qed.

Lemma Persist_tickets s tm : Persist s -> tm_wf tm -> Persist (s <| tickets := tm |>).
Proof. intros P H. constructor; try apply P. exact H. Qed.

(* ------------------------------------------------------------------ relating two states *)
Definition Rel s' (ks : list (nat * nat * nat)) (is : list (nat * option Z)) (fs : list nat) : Prop :=
  Core s' /\ keys s' = ks /\ il s' = is /\ fl s' = fs.

Lemma Rel_refl s : Core s -> Rel s (keys s) (il s) (fl s).
Proof. intros C. split; [exact C|]. auto. Qed.

Lemma Rel_ext s s' ks is fs :
  trace s' = trace s -> next_sig s' = next_sig s -> qstore s' = qstore s -> tickets s' = tickets s ->
  force_quit s' = force_quit s -> run_loop s' = run_loop s -> Rel s ks is fs -> Rel s' ks is fs.
Proof.
  intros Ht Hn Hq Htk Hf Hr (C & Hk & Hi & Hfl).
  assert (HW : W s' = W s) by (unfold W; rewrite Ht; reflexivity).
  split; [apply (Core_ext s); auto|]. unfold keys, wl, il, fl in *. rewrite HW. auto.
Qed.

Lemma nf_frames s : length (w_frames (W s)) = nf s.
Proof. unfold nf, fl. rewrite map_length. reflexivity. Qed.

(* ------------------------------------------------------------------ events the property does not look at *)
Definition same_view (w w' : world) : Prop :=
  w_sig w' = w_sig w /\ w_fq w' = w_fq w /\ w_runloop w' = w_runloop w /\
  w_frames w' = w_frames w /\ w_waiters w' = w_waiters w /\ w_iters w' = w_iters w.
Definition neutral (e : event) : Prop := forall w, same_view w (world_step w e) /\ chk_C10 w e = true.

Ltac neut := intros w; split; [repeat split|reflexivity].
Lemma neutral_RegHandler c h d : neutral (ERegHandler c h d). Proof. neut. Qed.
Lemma neutral_RegSource o q : neutral (ERegSource o q). Proof. neut. Qed.
Lemma neutral_SetQuitCb a : neutral (ESetQuitCb a). Proof. neut. Qed.
Lemma neutral_Enq sid q : neutral (EEnq sid q).
Proof. intros w; split; [|reflexivity]. cbn [world_step]. destruct (w_expect_exc w =? 2)%nat; repeat split. Qed.
Lemma neutral_Dropped sid : neutral (EDropped sid).
Proof. intros w; split; [|reflexivity]. cbn [world_step]. destruct (w_expect_exc w =? 2)%nat; repeat split. Qed.
Lemma neutral_Requeue sid q : neutral (ERequeue sid q). Proof. neut. Qed.
Lemma neutral_QuitCb a : neutral (EQuitCb a). Proof. neut. Qed.
Lemma neutral_RunReturn : neutral ERunReturn. Proof. neut. Qed.
Lemma neutral_Kill : neutral EKill. Proof. neut. Qed.
Lemma neutral_Ext sid : neutral (EExt sid). Proof. neut. Qed.
Lemma neutral_NewLoopEnter q : neutral (ENewLoopEnter q). Proof. neut. Qed.
Lemma neutral_user e : neutral (user_event e).
Proof. destruct e; neut. Qed.

Lemma Rel_emit_neutral e s s0 :
  neutral e -> Core s ->
  trace s0 = trace s -> next_sig s0 = next_sig s -> entries_ok (W s) (qstore s0) -> tickets s0 = tickets s ->
  force_quit s0 = force_quit s -> run_loop s0 = run_loop s ->
  Rel (emit e s0) (keys s) (il s) (fl s).
Proof.
  intros N C Ht Hn Hq Htk Hf Hr. destruct (N (W s)) as ((V1 & V2 & V3 & V4 & V5 & V6) & Hc).
  assert (HW : W (emit e s0) = world_step (W s) e).
  { rewrite W_emit. unfold W. rewrite Ht. reflexivity. }
  split.
  - apply (Core_emit e s s0); auto.
    + rewrite V2, Hf. apply C.
    + rewrite V3, Hr. apply C.
  - unfold keys, wl, il, fl. rewrite HW, V4, V5, V6. auto.
Qed.

Lemma Persist_emit_neutral e s : neutral e -> Persist s -> Persist (emit e s).
Proof.
  intros N P. destruct (N (W s)) as ((V1 & V2 & V3 & V4 & V5 & V6) & Hc).
  apply (Persist_emit e s s); auto; try apply P.
  - rewrite V2. apply P.
  - rewrite V3. apply P.
Qed.

(* ------------------------------------------------------------------ queues *)
Definition q_ok (w : world) (q : equeue) : Prop :=
  forall p c sg, In (p, c, sg) (eq_entries q) -> p = sg_prio sg /\ sig_ok w sg.

Lemma min_entry_in l : forall m, In (min_entry m l) (m :: l).
Proof.
  induction l as [|e r IH]; intros m; cbn [min_entry]; [left; reflexivity|].
  destruct (IH (if entry_lt e m then e else m)) as [H|H].
  - destruct (entry_lt e m); [right; left; exact H|left; exact H].
  - right; right; exact H.
Qed.

Lemma remove_entry_in c l e : In e (remove_entry c l) -> In e l.
Proof.
  induction l as [|a r IH]; cbn [remove_entry]; [auto|].
  destruct (snd (fst a) =? c)%nat; [intros H; right; exact H|].
  intros [H|H]; [left; exact H|right; apply IH; exact H].
Qed.

Lemma q_pop_spec q e q' :
  q_pop q = Some (e, q') ->
  In e (eq_entries q) /\ (forall x, In x (eq_entries q') -> In x (eq_entries q)).
Proof.
  unfold q_pop. destruct (eq_entries q) as [|a r] eqn:E; [discriminate|].
  intros H. inversion H; subst. split; [apply min_entry_in|].
  intros x Hx. change (In x (remove_entry (snd (fst (min_entry a r))) (a :: r))) in Hx.
  apply remove_entry_in in Hx. exact Hx.
Qed.

Lemma q_pop_nonempty q : q_empty q = false -> q_pop q <> None.
Proof. unfold q_empty, q_pop. destruct (eq_entries q); [discriminate|discriminate]. Qed.

Lemma set_nth_in {A} (l : list A) : forall n v x, In x (set_nth l n v) -> x = v \/ In x l.
Proof.
  induction l as [|a r IH]; intros n v x; cbn [set_nth]; [destruct n; auto|].
  destruct n; cbn [In].
  - intros [H|H]; auto.
  - intros [H|H]; auto. destruct (IH n v x H); auto.
Qed.

Lemma get_q_ok s w q : entries_ok w (qstore s) -> q_ok w (get_q s q).
Proof.
  intros H. unfold get_q. destruct (nth_in_or_default q (qstore s) empty_queue) as [Hin|Hd].
  - exact (H _ Hin).
  - rewrite Hd. intros p c sg [].
Qed.

Lemma entries_ok_set_q s w q v : entries_ok w (qstore s) -> q_ok w v -> entries_ok w (qstore (set_q s q v)).
Proof.
  intros H Hv x Hx. change (qstore (set_q s q v)) with (set_nth (qstore s) q v) in Hx.
  apply set_nth_in in Hx. destruct Hx as [Hx|Hx]; [subst; exact Hv|exact (H _ Hx)].
Qed.

(* ------------------------------------------------------------------ a new signal object *)
Lemma new_signal_step s sp :
  Core s ->
  let s1 := snd (new_signal s sp) in
  Rel s1 (keys s) (il s) (fl s) /\ sig_ok (W s1) (fst (new_signal s sp)).
Proof.
  intros C. unfold new_signal. cbn [fst snd].
  set (n := next_sig s).
  set (e := ESigNew n (sp_cls sp) (sp_prio sp) (sp_src sp)).
  set (s0 := s <| next_sig := S n |>).
  assert (HW : W (emit e s0) = world_step (W s) e) by (rewrite W_emit; reflexivity).
  assert (V : w_sig (world_step (W s) e) = (n, (sp_cls sp, sp_prio sp, sp_src sp)) :: w_sig (W s) /\
              w_fq (world_step (W s) e) = w_fq (W s) /\ w_runloop (world_step (W s) e) = w_runloop (W s) /\
              w_frames (world_step (W s) e) = w_frames (W s) /\
              w_waiters (world_step (W s) e) = w_waiters (W s) /\ w_iters (world_step (W s) e) = w_iters (W s)).
  { unfold e. cbn [world_step]. destruct (w_expect_exc (W s) =? 1)%nat; repeat split. }
  destruct V as (V1 & V2 & V3 & V4 & V5 & V6).
  assert (Hold : forall sg, sig_ok (W s) sg -> sig_ok (W (emit e s0)) sg).
  { intros sg H. unfold sig_ok in *. rewrite HW, V1. cbn [lookup].
    destruct (sg_id sg =? n)%nat eqn:E; [|exact H].
    apply Nat.eqb_eq in E. rewrite (p_fresh s (c_p s C) (sg_id sg)) in H by (fold n; lia). discriminate H. }
  split; [split; [|unfold keys, wl, il, fl; rewrite HW, V4, V5, V6; auto]|].
  - constructor.
    + constructor.
      * change (trace (emit e s0)) with (e :: trace s). cbn [good]. split; [apply C|reflexivity].
      * intros sid Hs. change (next_sig (emit e s0)) with (S n) in Hs. rewrite HW, V1. cbn [lookup].
        destruct (sid =? n)%nat eqn:E; [apply Nat.eqb_eq in E; lia|]. apply C. fold n. lia.
      * intros q Hq p c sg Hin. change (qstore (emit e s0)) with (qstore s) in Hq.
        destruct (p_sig s (c_p s C) q Hq p c sg Hin) as [H1 H2]. split; [exact H1|apply Hold; exact H2].
      * rewrite HW, V2. apply C.
      * rewrite HW, V3. apply C.
      * apply C.
    + unfold wl. rewrite HW, V5. apply C.
    + unfold wl. rewrite HW, V5. apply C.
  - unfold sig_ok. rewrite HW, V1. cbn [lookup mk_signal sg_id sg_cls sg_prio sg_src].
    rewrite Nat.eqb_refl. reflexivity.
Qed.

Lemma do_enqueue_step s sg :
  Core s -> sig_ok (W s) sg -> Rel (do_enqueue s sg) (keys s) (il s) (fl s).
Proof.
  intros C Hs. unfold do_enqueue. destruct (force_quit s) eqn:Fq.
  - apply Rel_emit_neutral; auto; [apply neutral_Dropped|apply C].
  - set (q := match route s (rev (levels s)) (sg_src sg) with Some q => q | None => active s end).
    apply Rel_emit_neutral; auto; [apply neutral_Enq|].
    apply entries_ok_set_q; [apply C|].
    intros p c sg' Hin. change (eq_entries (q_put (get_q s q) sg)) with
      (eq_entries (get_q s q) ++ [(sg_prio sg, eq_counter (get_q s q), sg)]) in Hin.
    apply in_app_or in Hin. destruct Hin as [Hin|[Hin|[]]].
    + exact (get_q_ok s (W s) q (p_sig s (c_p s C)) p c sg' Hin).
    + inversion Hin; subst. auto.
Qed.

Lemma do_enqueue_fields s sg :
  tickets (do_enqueue s sg) = tickets s /\ force_quit (do_enqueue s sg) = force_quit s /\
  run_loop (do_enqueue s sg) = run_loop s.
Proof. unfold do_enqueue. destruct (force_quit s) eqn:E; repeat split; auto. Qed.

(* ------------------------------------------------------------------ taking a signal from the active queue *)
Definition release_cls (c : nat) (t : waiter) : waiter :=
  if (wt_cls t =? c)%nat then t <| wt_released := true |> else t.

Lemma dispatch_step s p cnt sg q' d :
  Core s ->
  q_pop (get_q s (active s)) = Some ((p, cnt, sg), q') ->
  (forall x, In x (wl s) -> wt_depth x < nf s \/ (wt_depth x = nf s /\ wt_released x = false)) ->
  match il s with (dp, Some p0) :: _ => dp = nf s -> p = p0 | _ => True end ->
  let s2 := emit (EDispatch (sg_id sg) (active s) d) (set_q s (active s) q') in
  Core (s2 <| tickets := mark_line_to_go (tickets s2) (sg_cls sg) |>) /\
  keys s2 = keys s /\ fl s2 = sg_id sg :: fl s /\
  il s2 = match il s with
          | (dp, None) :: r => if (dp =? nf s)%nat then (dp, Some p) :: r else il s
          | _ => il s end.
Proof.
  intros C Hpop Hb Hc s2.
  destruct (q_pop_spec _ _ _ Hpop) as [Hin Hsub].
  destruct (get_q_ok s (W s) (active s) (p_sig s (c_p s C)) p cnt sg Hin) as [Hp Hok].
  assert (Hcls : sig_cls (W s) (sg_id sg) = sg_cls sg) by (unfold sig_cls; rewrite Hok; reflexivity).
  assert (Hprio : sig_prio (W s) (sg_id sg) = p) by (unfold sig_prio; rewrite Hok; auto).
  set (e := EDispatch (sg_id sg) (active s) d).
  set (s1 := set_q s (active s) q').
  assert (HW : W s2 = world_step (W s) e) by (unfold s2; rewrite W_emit; reflexivity).
  assert (P2 : Persist s2).
  { apply (Persist_emit e s s1); try reflexivity; try apply C.
    - apply entries_ok_set_q; [apply C|]. intros p1 c1 sg1 H1.
      apply (get_q_ok s (W s) (active s) (p_sig s (c_p s C)) p1 c1 sg1). apply Hsub; exact H1.
    - unfold e. cbn [chk_C10]. apply andb_true_iff. split.
      + apply forallb_forall. intros x Hx. rewrite nf_frames. destruct (Hb x Hx) as [H|[H1 H2]].
        * destruct (wt_depth x =? nf s)%nat eqn:E; [apply Nat.eqb_eq in E; lia|].
          rewrite andb_false_r. reflexivity.
        * rewrite H2. reflexivity.
      + fold (il s). rewrite nf_frames, Hprio. destruct (il s) as [|[dp [p0|]] r]; auto.
        destruct (dp =? nf s)%nat eqn:E; [|reflexivity]. apply Nat.eqb_eq in E. rewrite (Hc E).
        cbn [negb orb]. apply Z.eqb_refl. }
  assert (Hwl : wl s2 = map (release_cls (sg_cls sg)) (wl s)).
  { unfold wl. rewrite HW. unfold e. cbn [world_step]. rewrite Hcls. reflexivity. }
  split; [|split; [|split]].
  - constructor.
    + apply Persist_tickets; [exact P2|apply wf_mark; apply C].
    + intros x Hx. change (In x (wl s2)) in Hx. rewrite Hwl in Hx. apply in_map_iff in Hx.
      destruct Hx as (y & Hy & Hyin).
      change (tflag (mark_line_to_go (tickets s) (sg_cls sg)) (wt_cls x) (wt_ticket x) = Some (wt_released x)).
      rewrite tflag_mark. pose proof (c_tk s C y Hyin) as Hty. subst x. unfold release_cls.
      destruct (wt_cls y =? sg_cls sg)%nat eqn:E.
      * cbn [wt_cls wt_ticket wt_released set eta_waiter]. cbn. rewrite E, Hty. reflexivity.
      * rewrite E. exact Hty.
    + change (NoDup (map wt_ticket (wl s2))). rewrite Hwl, map_map.
      rewrite (map_ext _ wt_ticket); [apply C|]. intros y. unfold release_cls.
      destruct (wt_cls y =? sg_cls sg)%nat; reflexivity.
  - unfold keys. rewrite Hwl, map_map. apply map_ext. intros y. unfold release_cls.
    destruct (wt_cls y =? sg_cls sg)%nat; reflexivity.
  - unfold fl. rewrite HW. reflexivity.
  - unfold il. rewrite HW. unfold e. cbn [world_step]. cbn [w_iters set eta_world]. cbn.
    rewrite nf_frames, Hprio. reflexivity.
Qed.

(* ------------------------------------------------------------------ around a handler *)
Lemma handler_start s hid sid data : Core s -> Rel (emit (EHandler hid sid data) s) (keys s) (il s) (fl s).
Proof.
  intros C. set (e := EHandler hid sid data).
  assert (HW : W (emit e s) = world_step (W s) e) by apply W_emit.
  split.
  - apply (Core_emit e s s); auto; apply C.
  - unfold keys, wl, il, fl. rewrite HW. unfold e. cbn. destruct (w_frames (W s)); auto.
Qed.

Lemma handler_end s hid sid how r :
  how = None \/ how = Some XError -> Core s -> fl s = sid :: r ->
  Rel (emit (EHandlerEnd hid sid how) s) (keys s) (il s) (fl s).
Proof.
  intros Hh C Hfl. set (e := EHandlerEnd hid sid how).
  assert (HW : W (emit e s) = world_step (W s) e) by apply W_emit.
  split.
  - apply (Core_emit e s s); auto; try apply C; unfold e; destruct Hh; subst how; cbn; auto; apply C.
  - unfold keys, wl, il, fl in *. rewrite HW. unfold e.
    destruct (w_frames (W s)) as [|f fr] eqn:F; [discriminate Hfl|].
    cbn [map] in Hfl. inversion Hfl as [[H1 H2]].
    destruct Hh; subst how; cbn [world_step]; rewrite F; cbn [unwind_to]; rewrite Nat.eqb_refl; cbn; auto.
Qed.

Lemma handler_end_exn s hid sid x : Persist s -> Persist (emit (EHandlerEnd hid sid (Some x)) s).
Proof.
  intros P. apply (Persist_emit _ s s); auto; try apply P; destruct x; cbn; auto; apply P.
Qed.

Lemma map_tl {A B} (f : A -> B) l : map f (tl l) = tl (map f l).
Proof. destruct l; reflexivity. Qed.

Lemma dispatch_end s sid : Core s -> Rel (emit (EDispatchEnd sid) s) (keys s) (il s) (tl (fl s)).
Proof.
  intros C. set (e := EDispatchEnd sid).
  assert (HW : W (emit e s) = world_step (W s) e) by apply W_emit.
  split.
  - apply (Core_emit e s s); auto; apply C.
  - unfold keys, wl, il, fl. rewrite HW. unfold e. cbn. rewrite map_tl. auto.
Qed.

(* ------------------------------------------------------------------ process_signals() enters / returns *)
Lemma iter_enter s : Core s -> Rel (emit (EProcEnter None 0) s) (keys s) ((nf s, None) :: il s) (fl s).
Proof.
  intros C. set (e := EProcEnter None 0).
  assert (HW : W (emit e s) = world_step (W s) e) by apply W_emit.
  split.
  - apply (Core_emit e s s); auto; apply C.
  - unfold keys, wl, il, fl. rewrite HW. unfold e. cbn. rewrite nf_frames. auto.
Qed.

Lemma iter_return s : Core s -> Rel (emit (EProcReturn None 0) s) (keys s) (tl (il s)) (fl s).
Proof.
  intros C. set (e := EProcReturn None 0).
  assert (HW : W (emit e s) = world_step (W s) e) by apply W_emit.
  split.
  - apply (Core_emit e s s); auto; apply C.
  - unfold keys, wl, il, fl. rewrite HW. unfold e. cbn. auto.
Qed.

Lemma keys_ticket_lt s : Core s -> forall x, In x (wl s) -> wt_ticket x < tm_counter (tickets s).
Proof. intros C x Hx. exact (p_wf s (c_p s C) _ _ _ (c_tk s C x Hx)). Qed.

Lemma wait_enter s cls :
  Core s ->
  let t := tm_counter (tickets s) in
  let s1 := emit (EProcEnter (Some cls) t) (s <| tickets := snd (take_ticket (tickets s) cls) |>) in
  Rel s1 ((cls, t, nf s) :: keys s) (il s) (fl s) /\ tflag (tickets s1) cls t = Some false.
Proof.
  intros C t s1. set (e := EProcEnter (Some cls) t).
  set (s0 := s <| tickets := snd (take_ticket (tickets s) cls) |>).
  assert (HW : W s1 = world_step (W s) e) by (unfold s1; rewrite W_emit; reflexivity).
  assert (Hnew : tflag (tickets s1) cls t = Some false).
  { change (tickets s1) with (snd (take_ticket (tickets s) cls)).
    rewrite tflag_take by apply C. unfold t. rewrite !Nat.eqb_refl. reflexivity. }
  split; [|exact Hnew]. split; [|unfold keys, wl, il, fl; rewrite HW; unfold e; cbn; rewrite nf_frames; auto].
  constructor.
  - apply (Persist_emit e s s0); try reflexivity; try apply C. apply wf_take. apply C.
  - intros x Hx. unfold wl in Hx. rewrite HW in Hx. unfold e in Hx. cbn in Hx. destruct Hx as [Hx|Hx].
    + subst x. cbn [wt_cls wt_ticket wt_released]. exact Hnew.
    + change (tickets s1) with (snd (take_ticket (tickets s) cls)).
      rewrite tflag_take by apply C. pose proof (keys_ticket_lt s C x Hx) as Hlt.
      destruct (wt_ticket x =? tm_counter (tickets s))%nat eqn:E; [apply Nat.eqb_eq in E; lia|].
      rewrite andb_false_r. apply C. exact Hx.
  - unfold wl. rewrite HW. unfold e. cbn. constructor; [|apply C].
    intros Hin. apply in_map_iff in Hin. destruct Hin as (y & Hy & Hyin).
    pose proof (keys_ticket_lt s C y Hyin). unfold t in Hy. lia.
Qed.

Lemma filter_all {A} (f : A -> bool) l : (forall y, In y l -> f y = true) -> filter f l = l.
Proof.
  induction l as [|a r IH]; intros H; cbn [filter]; [reflexivity|].
  rewrite (H a (or_introl eq_refl)), IH; [reflexivity|]. intros y Hy. apply H. right. exact Hy.
Qed.

Lemma wait_return s cls t x rest :
  Persist s -> NoDup (map wt_ticket (wl s)) -> wl s = x :: rest -> wt_cls x = cls -> wt_ticket x = t ->
  (wt_released x = true \/ w_runloop (W s) = false) ->
  (forall y, In y rest -> tflag (tickets s) (wt_cls y) (wt_ticket y) = Some (wt_released y)) ->
  Rel (emit (EProcReturn (Some cls) t) s) (map wkey rest) (il s) (fl s).
Proof.
  intros P Hnd Hwl Hc Ht Hrel Hrest. set (e := EProcReturn (Some cls) t).
  assert (HW : W (emit e s) = world_step (W s) e) by apply W_emit.
  assert (Hf : w_waiters (world_step (W s) e) = rest).
  { unfold e. cbn. fold (wl s). rewrite Hwl. cbn [filter]. rewrite Ht, Nat.eqb_refl. cbn [negb].
    apply filter_all. intros y Hy. rewrite Hwl in Hnd. cbn [map] in Hnd. inversion Hnd as [|? ? Hni Hnd']; subst.
    destruct (wt_ticket y =? wt_ticket x)%nat eqn:E; [|reflexivity]. apply Nat.eqb_eq in E.
    exfalso. apply Hni. rewrite <- E. apply in_map. exact Hy. }
  split; [|unfold keys, wl, il, fl; rewrite HW, Hf; unfold e; cbn; auto].
  constructor.
  - apply (Persist_emit e s s); auto; try apply P.
    unfold e. cbn [chk_C10]. fold (wl s). rewrite Hwl. cbn [find]. rewrite Ht, Nat.eqb_refl, Hc, Nat.eqb_refl.
    destruct Hrel as [H|H]; rewrite H; [reflexivity|apply orb_true_r].
  - unfold wl. rewrite HW, Hf. exact Hrest.
  - unfold wl. rewrite HW, Hf. rewrite Hwl in Hnd. cbn [map] in Hnd. inversion Hnd; assumption.
Qed.

(* ------------------------------------------------------------------ stopping and re-arming *)
Lemma force_quit_step s :
  Core s ->
  Rel (emit EForceQuit (s <| force_quit := true |> <| levels := [] |> <| run_loop := false |>)) (keys s) (il s) (fl s).
Proof.
  intros C. set (s0 := s <| force_quit := true |> <| levels := [] |> <| run_loop := false |>).
  assert (HW : W (emit EForceQuit s0) = world_step (W s) EForceQuit) by (rewrite W_emit; reflexivity).
  split.
  - apply (Core_emit EForceQuit s s0); auto; apply C.
  - unfold keys, wl, il, fl. rewrite HW. cbn. auto.
Qed.

Lemma close_pop_step s top ls :
  Core s ->
  let s2 := emit (EClosePop top) (s <| levels := ls |>) in
  Rel s2 (keys s) (il s) (fl s) /\ w_runloop (W s2) = false.
Proof.
  intros C s2. set (e := EClosePop top).
  assert (HW : W s2 = world_step (W s) e) by (unfold s2; rewrite W_emit; reflexivity).
  assert (V : w_sig (world_step (W s) e) = w_sig (W s) /\ w_fq (world_step (W s) e) = w_fq (W s) /\
              w_runloop (world_step (W s) e) = false /\ w_frames (world_step (W s) e) = w_frames (W s) /\
              w_waiters (world_step (W s) e) = w_waiters (W s) /\ w_iters (world_step (W s) e) = w_iters (W s)).
  { unfold e. cbn [world_step]. destruct (last_opt (removelast (w_levels (W s)))); repeat split. }
  destruct V as (V1 & V2 & V3 & V4 & V5 & V6).
  split; [split|rewrite HW; exact V3].
  - apply (Core_emit e s (s <| levels := ls |>)); auto; try apply C.
    rewrite V2. apply C.
  - unfold keys, wl, il, fl. rewrite HW, V4, V5, V6. auto.
Qed.

Lemma Core_set_rl s b : Core s -> (b = false -> w_runloop (W s) = false) -> Core (s <| run_loop := b |>).
Proof.
  intros C H. constructor; [|apply C|apply C]. constructor; try apply C. exact H.
Qed.

Lemma newloop_return s q :
  Core s -> (force_quit s = false -> run_loop s = true) ->
  Rel (emit (ENewLoopReturn q) s) (keys s) (il s) (fl s).
Proof.
  intros C H. set (e := ENewLoopReturn q).
  assert (HW : W (emit e s) = world_step (W s) e) by apply W_emit.
  pose proof (p_fq s (c_p s C)) as Hfq.
  assert (V : w_sig (world_step (W s) e) = w_sig (W s) /\ w_fq (world_step (W s) e) = w_fq (W s) /\
              w_runloop (world_step (W s) e) = (if w_fq (W s) then w_runloop (W s) else true) /\
              w_frames (world_step (W s) e) = w_frames (W s) /\
              w_waiters (world_step (W s) e) = w_waiters (W s) /\ w_iters (world_step (W s) e) = w_iters (W s)).
  { unfold e. cbn [world_step]. destruct (w_fq (W s)) eqn:F; cbn; rewrite ?F; repeat split. }
  destruct V as (V1 & V2 & V3 & V4 & V5 & V6).
  destruct (w_fq (W s)) eqn:F.
  - split; [|unfold keys, wl, il, fl; rewrite HW, V4, V5, V6; auto].
    apply (Core_emit e s s); auto; try apply C.
    + rewrite V2. congruence.
    + rewrite V3. apply C.
  - split; [|unfold keys, wl, il, fl; rewrite HW, V4, V5, V6; auto].
    apply (Core_emit e s s); auto; try apply C.
    + rewrite V2. congruence.
    + intros Hr. rewrite H in Hr by congruence. discriminate Hr.
Qed.

Lemma run_enter s :
  Persist s ->
  let s0 := emit ERunEnter (s <| force_quit := false |> <| run_loop := true |>) in
  Core s0 /\ keys s0 = [] /\ il s0 = [] /\ fl s0 = [].
Proof.
  intros P s0.
  assert (HW : W s0 = world_step (W s) ERunEnter) by (unfold s0; rewrite W_emit; reflexivity).
  split; [|unfold keys, wl, il, fl; rewrite HW; cbn; auto].
  constructor.
  - apply (Persist_emit ERunEnter s (s <| force_quit := false |> <| run_loop := true |>)); auto; try apply P.
  - unfold wl. rewrite HW. cbn. intros x [].
  - unfold wl. rewrite HW. cbn. constructor.
Qed.

Lemma top_step s :
  Persist s ->
  let s0 := emit ETop s in Core s0 /\ keys s0 = [] /\ il s0 = [] /\ fl s0 = [].
Proof.
  intros P s0.
  assert (HW : W s0 = world_step (W s) ETop) by (unfold s0; rewrite W_emit; reflexivity).
  split; [|unfold keys, wl, il, fl; rewrite HW; cbn; auto].
  constructor.
  - apply (Persist_emit ETop s s); auto; apply P.
  - unfold wl. rewrite HW. cbn. intros x [].
  - unfold wl. rewrite HW. cbn. constructor.
Qed.

(* ------------------------------------------------------------------ the contract of every method *)
Definition Pre (c : call U) s : Prop :=
  match c with
  | CRun => Persist s
  | CProcWait cls t =>
    Core s /\ tflag (tickets s) cls t = Some false /\
    (exists kr, keys s = (cls, t, nf s) :: kr /\ StrictK (nf s) kr) /\ StrictI (nf s) (il s)
  | CProcIter po =>
    Core s /\ StrictK (nf s) (keys s) /\ exists ir, il s = (nf s, po) :: ir /\ StrictI (nf s) ir
  | CProcessSignal sg idx =>
    Core (if (idx =? 0)%nat then s <| tickets := mark_line_to_go (tickets s) (sg_cls sg) |> else s) /\
    StrictK (nf s) (keys s) /\ StrictI (nf s) (il s) /\ exists r, fl s = sg_id sg :: r
  | _ => Core s /\ StrictK (nf s) (keys s) /\ StrictI (nf s) (il s)
  end.

Definition Post (c : call U) s (o : outcome) s' : Prop :=
  Persist s' /\
  match o with
  | ONormal =>
    match c with
    | CRun => True
    | CProcWait cls t => Rel (emit (EProcReturn (Some cls) t) s') (tl (keys s)) (il s) (fl s)
    | CProcIter _ => exists po, Rel s' (keys s) ((nf s, po) :: tl (il s)) (fl s)
    | CProcessSignal _ _ => Rel s' (keys s) (il s) (tl (fl s))
    | CMainloop => Rel s' (keys s) (il s) (fl s) /\ (force_quit s' = false -> run_loop s' = true)
    | _ => Rel s' (keys s) (il s) (fl s)
    end
  | OThrow XError =>
    match c with
    | CRun => True
    | CApi _ | CProg _ => Rel s' (keys s) (il s) (fl s)
    | _ => False
    end
  | _ => True
  end.

Lemma Post_transfer c s s1 o s' :
  keys s1 = keys s -> il s1 = il s -> fl s1 = fl s -> Post c s1 o s' -> Post c s o s'.
Proof. intros Hk Hi Hf. unfold Post, nf. rewrite Hk, Hi, Hf. auto. Qed.

Lemma Post_iter_transfer po po1 s s1 o s' :
  keys s1 = keys s -> tl (il s1) = tl (il s) -> fl s1 = fl s ->
  Post (CProcIter po1) s1 o s' -> Post (CProcIter po) s o s'.
Proof. intros Hk Hi Hf. unfold Post, nf. rewrite Hk, Hi, Hf. auto. Qed.

Lemma Post_weak c s o s' : Persist s' -> o <> ONormal -> o <> OThrow XError -> Post c s o s'.
Proof.
  intros P H1 H2. split; [exact P|]. destruct o as [|[| |]| |]; try exact I; congruence.
Qed.

Lemma StrictK_wl n s : StrictK n (keys s) -> forall x, In x (wl s) -> wt_depth x < n.
Proof.
  intros H x Hx. unfold StrictK, keys in H. rewrite Forall_forall in H.
  exact (H (wkey x) (in_map wkey _ _ Hx)).
Qed.

Lemma StrictK_mono n m ks : StrictK n ks -> n <= m -> StrictK m ks.
Proof. intros H L. unfold StrictK in *. eapply Forall_impl; [|exact H]. cbn. intros a Ha. lia. Qed.

Lemma StrictI_mono n m is : StrictI n is -> n <= m -> StrictI m is.
Proof. intros H L. unfold StrictI in *. eapply Forall_impl; [|exact H]. cbn. intros a Ha. lia. Qed.

Lemma Strict_transfer s s1 :
  keys s1 = keys s -> il s1 = il s -> fl s1 = fl s ->
  StrictK (nf s) (keys s) -> StrictI (nf s) (il s) -> StrictK (nf s1) (keys s1) /\ StrictI (nf s1) (il s1).
Proof. intros Hk Hi Hf. unfold nf. rewrite Hk, Hi, Hf. auto. Qed.

Lemma il_strict_same s (p : Z) :
  StrictI (nf s) (il s) ->
  match il s with
  | (dp, None) :: r => if (dp =? nf s)%nat then (dp, Some p) :: r else il s
  | _ => il s end = il s.
Proof.
  intros H. destruct (il s) as [|[dp [p0|]] r]; auto.
  inversion H; subst. cbn [fst] in *. destruct (dp =? nf s)%nat eqn:E; [apply Nat.eqb_eq in E; lia|reflexivity].
Qed.

Lemma il_strict_noclash s (p : Z) :
  StrictI (nf s) (il s) -> match il s with (dp, Some p0) :: _ => dp = nf s -> p = p0 | _ => True end.
Proof.
  intros H. destruct (il s) as [|[dp [p0|]] r]; auto.
  inversion H; subst. cbn [fst] in *. intros E. lia.
Qed.

Lemma keys_cons s k kr :
  keys s = k :: kr -> exists x rest, wl s = x :: rest /\ wkey x = k /\ map wkey rest = kr.
Proof.
  unfold keys. destruct (wl s) as [|x rest]; cbn [map]; [discriminate|].
  intros H. inversion H. exists x, rest. auto.
Qed.

Lemma wf_mark_inv tm l : tm_wf (mark_line_to_go tm l) -> tm_wf tm.
Proof.
  intros H line id b F. change (tm_counter tm) with (tm_counter (mark_line_to_go tm l)).
  apply (H line id (if (line =? l)%nat then true else b)). rewrite tflag_mark, F.
  destruct (line =? l)%nat; reflexivity.
Qed.

Lemma Pre_Persist c s : Pre c s -> Persist s.
Proof.
  destruct c; cbn [Pre]; intros H; try (apply H); try (destruct H as [C _]; apply C).
  destruct H as [C _]. destruct (idx =? 0)%nat; [|apply C].
  pose proof (c_p _ C) as P. constructor; try apply P. apply (wf_mark_inv _ (sg_cls sg)). apply P.
Qed.

(* ---- queue.get() ---- *)
Lemma do_get_some s sg s1 :
  do_get s = inl (Some (sg, s1)) ->
  exists p cnt q', q_pop (get_q s (active s)) = Some ((p, cnt, sg), q') /\ s1 = set_q s (active s) q'.
Proof.
  unfold do_get. destruct (q_pop (get_q s (active s))) as [[[[p cnt] sg0] q']|].
  - intros H. inversion H; subst. exists p, cnt, q'. auto.
  - destruct (ext s) as [|sp r]; [discriminate|]. destruct (new_signal _ sp). discriminate.
Qed.

Lemma sig_ok_neutral e s sg : neutral e -> sig_ok (W s) sg -> sig_ok (W (emit e s)) sg.
Proof.
  intros N H. destruct (N (W s)) as ((V1 & _) & _). unfold sig_ok. rewrite W_emit, V1. exact H.
Qed.

Lemma do_get_ext s s1 :
  do_get s = inr s1 -> Core s -> Rel s1 (keys s) (il s) (fl s) /\ tickets s1 = tickets s.
Proof.
  unfold do_get. destruct (q_pop (get_q s (active s))) as [[[[p cnt] sg0] q']|]; [discriminate|].
  destruct (ext s) as [|sp r]; [discriminate|].
  intros H C.
  assert (C0 : Core (s <| ext := r |>)) by (apply (Core_ext s); auto).
  pose proof (new_signal_step (s <| ext := r |>) sp C0) as (R1 & Hok).
  destruct (new_signal (s <| ext := r |>) sp) as [sg sN] eqn:N. cbn [fst snd] in *.
  inversion H; subst s1. clear H.
  assert (R1' : Rel sN (keys s) (il s) (fl s)) by exact R1.
  destruct R1' as (C1 & K1 & I1 & F1).
  assert (R2 : Rel (emit (EExt (sg_id sg)) sN) (keys sN) (il sN) (fl sN)).
  { apply Rel_emit_neutral; auto; [apply neutral_Ext|apply C1]. }
  destruct R2 as (C2 & K2 & I2 & F2).
  pose proof (do_enqueue_step _ sg C2 (sig_ok_neutral _ _ _ (neutral_Ext _) Hok)) as (C3 & K3 & I3 & F3).
  split.
  - split; [exact C3|]. repeat split; congruence.
  - destruct (do_enqueue_fields (emit (EExt (sg_id sg)) sN) sg) as (T & _). rewrite T.
    unfold new_signal in N. inversion N. reflexivity.
Qed.

Lemma dispatch_pre s p cnt sg q' d :
  Core s -> q_pop (get_q s (active s)) = Some ((p, cnt, sg), q') ->
  StrictK (S (nf s)) (keys s) -> StrictI (S (nf s)) (il s) ->
  (forall x, In x (wl s) -> wt_depth x = nf s -> wt_released x = false) ->
  match il s with (dp, Some p0) :: _ => dp = nf s -> p = p0 | _ => True end ->
  let s2 := emit (EDispatch (sg_id sg) (active s) d) (set_q s (active s) q') in
  Pre (CProcessSignal sg 0) s2 /\ keys s2 = keys s /\ fl s2 = sg_id sg :: fl s /\
  il s2 = match il s with
          | (dp, None) :: r => if (dp =? nf s)%nat then (dp, Some p) :: r else il s
          | _ => il s end.
Proof.
  intros C Hpop SK SI Hb Hc s2.
  assert (Hb' : forall x, In x (wl s) -> wt_depth x < nf s \/ (wt_depth x = nf s /\ wt_released x = false)).
  { intros x Hx. pose proof (StrictK_wl _ _ SK x Hx) as Hlt.
    destruct (Nat.eq_dec (wt_depth x) (nf s)) as [E|E]; [right; split; [exact E|apply Hb; assumption]|left; lia]. }
  destruct (dispatch_step s p cnt sg q' d C Hpop Hb' Hc) as (C2 & K2 & F2 & I2). fold s2 in C2, K2, F2, I2.
  split; [|auto].
  cbn [Pre Nat.eqb]. split; [exact C2|].
  unfold nf at 1 2. rewrite F2, K2. cbn [length]. fold (nf s). split; [exact SK|]. split; [|eauto].
  rewrite I2. destruct (il s) as [|[dp [p0|]] r]; auto.
  destruct (dp =? nf s)%nat; auto. inversion SI; subst. constructor; auto.
Qed.

Ltac inv H := inversion H; subst; clear H.
Ltac invp H := injection H as <- <-.

Lemma iter_some_eq f s p cnt sg q' :
  q_pop (get_q s (active s)) = Some ((p, cnt, sg), q') ->
  exec code (S f) (CProcIter (Some p)) s = exec code (S f) (CProcIter None) s.
Proof. intros H. cbn [exec]. rewrite H, Z.eqb_refl. reflexivity. Qed.

(* ------------------------------------------------------------------ the induction over the interpreter *)
Lemma exec_inv : forall f c s o s', Pre c s -> exec code f c s = (o, s') -> Post c s o s'.
Proof.
  induction f as [|f IH]; intros c s o s' HP HE.
  { cbn in HE. invp HE. apply Post_weak; [eapply Pre_Persist; eauto|discriminate|discriminate]. }
  destruct c as [| | |cls t|po|sg idx|a|pr].
  - (* ---------------- CRun *)
    cbn [exec] in HE. cbn [Pre] in HP.
    destruct (run_enter s HP) as (C0 & K0 & I0 & F0).
    match type of HE with context [exec code f CMainloop ?st] => set (s0 := st) in * end.
    destruct (exec code f CMainloop s0) as [o1 s1] eqn:E1.
    assert (P1 : Persist s1).
    { apply IH in E1; [apply E1|]. cbn [Pre]. split; [exact C0|]. unfold nf, StrictK, StrictI.
      rewrite K0, I0. split; constructor. }
    assert (Hfin : Persist (emit ERunReturn (match quit_cb s1 with Some a => emit (EQuitCb a) s1 | None => s1 end))).
    { apply Persist_emit_neutral; [apply neutral_RunReturn|].
      destruct (quit_cb s1); [apply Persist_emit_neutral; [apply neutral_QuitCb|]|]; exact P1. }
    destruct o1 as [|[| |]| |]; invp HE; (split; [assumption|exact I]).
  - (* ---------------- CMainloop *)
    cbn [exec] in HE. cbn [Pre] in HP. destruct HP as (C & SK & SI).
    destruct (run_loop s) eqn:RL.
    + destruct (exec code f CProcLoop s) as [o1 s1] eqn:E1.
      apply IH in E1; [|exact (conj C (conj SK SI))]. destruct E1 as [P1 Q1].
      destruct o1 as [|[| |]| |]; try (invp HE; apply Post_weak; [exact P1|discriminate|discriminate]).
      * cbn in Q1. destruct Q1 as (C1 & K1 & I1 & F1).
        apply IH in HE; [|exact (conj C1 (Strict_transfer s s1 K1 I1 F1 SK SI))].
        exact (Post_transfer _ _ _ _ _ K1 I1 F1 HE).
      * cbn in Q1. contradiction.
    + destruct (force_quit s) eqn:FQ; invp HE.
      * split; [apply C|]. split; [apply Rel_refl; exact C|]. intros H. congruence.
      * assert (C' : Core (s <| run_loop := true |>)) by (apply Core_set_rl; [exact C|discriminate]).
        split; [apply C'|]. split; [split; [exact C'|auto]|]. reflexivity.
  - (* ---------------- CProcLoop *)
    cbn [exec] in HE. cbn [Pre] in HP. destruct HP as (C & SK & SI).
    destruct (run_loop s) eqn:RL.
    2:{ invp HE. split; [apply C|]. apply Rel_refl; exact C. }
    destruct (do_get s) as [[[sg s1]|]|s1] eqn:G.
    + apply do_get_some in G. destruct G as (p & cnt & q' & Hpop & ->).
      destruct (dispatch_pre s p cnt sg q' (length (levels s)) C Hpop
                  (StrictK_mono _ _ _ SK (Nat.le_succ_diag_r _)) (StrictI_mono _ _ _ SI (Nat.le_succ_diag_r _)))
        as (Pre2 & K2 & F2 & I2).
      { intros x Hx E. pose proof (StrictK_wl _ _ SK x Hx). lia. }
      { apply il_strict_noclash; exact SI. }
      rewrite il_strict_same in I2 by exact SI.
      match type of HE with context [exec code f (CProcessSignal sg 0) ?st] => set (s2 := st) in * end.
      destruct (exec code f (CProcessSignal sg 0) s2) as [o3 s3] eqn:E3.
      apply IH in E3; [|exact Pre2]. destruct E3 as [P3 Q3].
      destruct o3 as [|[| |]| |]; try (invp HE; apply Post_weak; [exact P3|discriminate|discriminate]).
      * cbn in Q3. destruct Q3 as (C3 & K3 & I3 & F3).
        rewrite K2 in K3. rewrite I2 in I3. rewrite F2 in F3. cbn [tl] in F3.
        apply IH in HE; [|exact (conj C3 (Strict_transfer s s3 K3 I3 F3 SK SI))].
        exact (Post_transfer _ _ _ _ _ K3 I3 F3 HE).
      * cbn in Q3. contradiction.
    + invp HE. apply Post_weak; [apply C|discriminate|discriminate].
    + destruct (do_get_ext s s1 G C) as ((C1 & K1 & I1 & F1) & T1).
      apply IH in HE; [|exact (conj C1 (Strict_transfer s s1 K1 I1 F1 SK SI))].
      exact (Post_transfer _ _ _ _ _ K1 I1 F1 HE).
  - (* ---------------- CProcWait *)
    cbn [exec] in HE. cbn [Pre] in HP. destruct HP as (C & Hfl0 & (kr & Hk & SKr) & SI).
    destruct (keys_cons s _ _ Hk) as (x & rest & Hwl & Hx & Hrest).
    assert (Hxc : wt_cls x = cls /\ wt_ticket x = t /\ wt_depth x = nf s) by (unfold wkey in Hx; inv Hx; auto).
    destruct Hxc as (Hxc & Hxt & Hxd). subst cls t kr. clear Hx.
    assert (Hrestd : forall y, In y rest -> wt_depth y < nf s).
    { intros y Hy. unfold StrictK in SKr. rewrite Forall_forall in SKr.
      exact (SKr (wkey y) (in_map wkey _ _ Hy)). }
    destruct (run_loop s) eqn:RL.
    2:{ invp HE. split; [apply C|]. rewrite Hk. cbn [tl].
        apply (wait_return s (wt_cls x) (wt_ticket x) x rest); auto; try apply C.
        - right. apply C. exact RL.
        - intros y Hy. apply C. rewrite Hwl. right. exact Hy. }
    destruct (do_get s) as [[[sg s1]|]|s1] eqn:G.
    + apply do_get_some in G. destruct G as (p & cnt & q' & Hpop & ->).
      assert (SK1 : StrictK (S (nf s)) (keys s)).
      { rewrite Hk. constructor; [cbn; lia|]. apply (StrictK_mono _ _ _ SKr). lia. }
      destruct (dispatch_pre s p cnt sg q' (length (levels s)) C Hpop SK1
                  (StrictI_mono _ _ _ SI (Nat.le_succ_diag_r _)))
        as (Pre2 & K2 & F2 & I2).
      { intros y Hy E. rewrite Hwl in Hy. destruct Hy as [Hy|Hy].
        - subst y. pose proof (c_tk s C x) as Hc. rewrite Hwl in Hc. specialize (Hc (or_introl eq_refl)).
          rewrite Hfl0 in Hc. congruence.
        - pose proof (Hrestd y Hy). lia. }
      { apply il_strict_noclash; exact SI. }
      rewrite il_strict_same in I2 by exact SI.
      match type of HE with context [exec code f (CProcessSignal sg 0) ?st] => set (s2 := st) in * end.
      destruct (exec code f (CProcessSignal sg 0) s2) as [o3 s3] eqn:E3.
      apply IH in E3; [|exact Pre2]. destruct E3 as [P3 Q3].
      destruct o3 as [|[| |]| |]; try (invp HE; apply Post_weak; [exact P3|discriminate|discriminate]).
      * cbn in Q3. destruct Q3 as (C3 & K3 & I3 & F3).
        rewrite K2 in K3. rewrite I2 in I3. rewrite F2 in F3. cbn [tl] in F3.
        assert (N3 : nf s3 = nf s) by (unfold nf; rewrite F3; reflexivity).
        rewrite Hk in K3.
        destruct (keys_cons s3 _ _ K3) as (x3 & rest3 & Hwl3 & Hx3 & Hrest3).
        assert (Hx3c : wt_cls x3 = wt_cls x /\ wt_ticket x3 = wt_ticket x) by (unfold wkey in Hx3; inversion Hx3; auto).
        destruct Hx3c as (Hx3c & Hx3t).
        pose proof (c_tk s3 C3 x3) as Hc3. rewrite Hwl3 in Hc3. specialize (Hc3 (or_introl eq_refl)).
        rewrite Hx3c, Hx3t in Hc3.
        rewrite check_ticket_flag, Hc3 in HE. destruct (wt_released x3) eqn:R3.
        -- invp HE.
           set (s' := s3 <| tickets := tpop (tickets s3) (wt_cls x) (wt_ticket x) |>).
           assert (P' : Persist s') by (apply Persist_tickets; [apply C3|apply wf_pop; apply C3]).
           split; [exact P'|]. rewrite Hk. cbn [tl]. rewrite <- Hrest3, <- I3, <- F3.
           apply (wait_return s' (wt_cls x) (wt_ticket x) x3 rest3); auto.
           ++ apply C3.
           ++ intros y Hy. change (tickets s') with (tpop (tickets s3) (wt_cls x) (wt_ticket x)).
              rewrite tflag_pop.
              assert (Hne : wt_ticket y <> wt_ticket x).
              { pose proof (c_nd s3 C3) as Hnd. rewrite Hwl3 in Hnd. cbn [map] in Hnd. inv Hnd.
                intros E. apply H1. rewrite Hx3t, <- E. apply in_map. exact Hy. }
              destruct (wt_ticket y =? wt_ticket x)%nat eqn:E; [apply Nat.eqb_eq in E; congruence|].
              rewrite andb_false_r. apply C3. rewrite Hwl3. right. exact Hy.
        -- apply IH in HE.
           ++ apply (Post_transfer _ s s3); auto. rewrite K3, Hk. reflexivity.
           ++ cbn [Pre]. split; [exact C3|]. split; [exact Hc3|]. rewrite N3, I3. split; [|exact SI].
              exists (map wkey rest). split; [exact K3|exact SKr].
      * cbn in Q3. contradiction.
    + invp HE. apply Post_weak; [apply C|discriminate|discriminate].
    + destruct (do_get_ext s s1 G C) as ((C1 & K1 & I1 & F1) & T1).
      assert (N1 : nf s1 = nf s) by (unfold nf; rewrite F1; reflexivity).
      apply IH in HE.
      * exact (Post_transfer _ _ _ _ _ K1 I1 F1 HE).
      * cbn [Pre]. split; [exact C1|]. rewrite T1, N1, I1, K1. split; [exact Hfl0|]. split; [|exact SI].
        exists (map wkey rest). auto.
  - (* ---------------- CProcIter *)
    cbn [Pre] in HP. destruct HP as (C & SK & (ir & Hi & SIr)).
    assert (Hstop : Post (CProcIter po) s ONormal s).
    { split; [apply C|]. exists po. rewrite Hi. cbn [tl]. rewrite <- Hi. apply Rel_refl. exact C. }
    destruct (negb (q_empty (get_q s (active s))) && run_loop s) eqn:Cond.
    2:{ cbn [exec] in HE. rewrite Cond in HE. invp HE. exact Hstop. }
    destruct (q_pop (get_q s (active s))) as [[[[p cnt] sg] q']|] eqn:Hpop.
    2:{ cbn [exec] in HE. rewrite Cond, Hpop in HE. invp HE. exact Hstop. }
    assert (Hcase : ((po = None \/ po = Some p) /\ exec code (S f) (CProcIter None) s = (o, s')) \/
                    (o = ONormal /\
                     s' = emit (ERequeue (sg_id sg) (active s)) (set_q s (active s) (q_put_entry q' (p, cnt, sg))))).
    { destruct po as [p0|]; [|left; auto].
      destruct (p =? p0)%Z eqn:Ep.
      - apply Z.eqb_eq in Ep. subst p0. left. split; [auto|]. rewrite <- HE. symmetry.
        eapply iter_some_eq; eauto.
      - right. cbn [exec] in HE. rewrite Cond, Hpop, Ep in HE. invp HE. auto. }
    clear HE. destruct Hcase as [[Hpo HE]|[-> ->]].
    2:{ (* the entry goes back *)
        destruct (q_pop_spec _ _ _ Hpop) as [Hin Hsub].
        assert (R : Rel (emit (ERequeue (sg_id sg) (active s)) (set_q s (active s) (q_put_entry q' (p, cnt, sg))))
                        (keys s) (il s) (fl s)).
        { apply Rel_emit_neutral; auto; [apply neutral_Requeue|].
          apply entries_ok_set_q; [apply C|]. intros p1 c1 sg1 H1.
          change (eq_entries (q_put_entry q' (p, cnt, sg))) with (eq_entries q' ++ [(p, cnt, sg)]) in H1.
          apply (get_q_ok s (W s) (active s) (p_sig s (c_p s C)) p1 c1 sg1).
          apply in_app_or in H1. destruct H1 as [H1|[H1|[]]]; [apply Hsub; exact H1|rewrite <- H1; exact Hin]. }
        split; [apply R|]. exists po. rewrite Hi. cbn [tl]. rewrite <- Hi. exact R. }
    cbn [exec] in HE. rewrite Cond, Hpop in HE.
    assert (SI1 : StrictI (S (nf s)) (il s)).
    { rewrite Hi. constructor; [cbn; lia|]. apply (StrictI_mono _ _ _ SIr). lia. }
    destruct (dispatch_pre s p cnt sg q' (length (levels s)) C Hpop
                (StrictK_mono _ _ _ SK (Nat.le_succ_diag_r _)) SI1)
      as (Pre2 & K2 & F2 & I2).
    { intros x Hx E. pose proof (StrictK_wl _ _ SK x Hx). lia. }
    { rewrite Hi. destruct Hpo as [->| ->]; [exact I|auto]. }
    assert (I2' : il (emit (EDispatch (sg_id sg) (active s) (length (levels s))) (set_q s (active s) q'))
                  = (nf s, Some p) :: ir).
    { rewrite I2, Hi. destruct Hpo as [->| ->]; [rewrite Nat.eqb_refl|]; reflexivity. }
    clear I2.
    match type of HE with context [exec code f (CProcessSignal sg 0) ?st] => set (s2 := st) in * end.
    destruct (exec code f (CProcessSignal sg 0) s2) as [o3 s3] eqn:E3.
    apply IH in E3; [|exact Pre2]. destruct E3 as [P3 Q3].
    destruct o3 as [|[| |]| |]; try (invp HE; apply Post_weak; [exact P3|discriminate|discriminate]).
    + cbn in Q3. destruct Q3 as (C3 & K3 & I3 & F3).
      rewrite K2 in K3. rewrite I2' in I3. rewrite F2 in F3. cbn [tl] in F3.
      assert (N3 : nf s3 = nf s) by (unfold nf; rewrite F3; reflexivity).
      apply IH in HE.
      * apply (Post_iter_transfer po (Some p) s s3); auto. rewrite I3, Hi. reflexivity.
      * cbn [Pre]. split; [exact C3|]. rewrite N3, K3. split; [exact SK|]. exists ir. auto.
    + cbn in Q3. contradiction.
  - (* ---------------- CProcessSignal *)
    cbn [exec] in HE. cbn [Pre] in HP. destruct HP as (C0 & SK & SI & (r & Hfl)).
    set (s0 := if (idx =? 0)%nat then s <| tickets := mark_line_to_go (tickets s) (sg_cls sg) |> else s) in *.
    assert (HK0 : keys s0 = keys s /\ il s0 = il s /\ fl s0 = fl s) by (unfold s0; destruct (idx =? 0)%nat; auto).
    destruct HK0 as (K0 & I0 & F0).
    assert (Hend : Post (CProcessSignal sg idx) s ONormal (emit (EDispatchEnd (sg_id sg)) s0)).
    { destruct (dispatch_end s0 (sg_id sg) C0) as (Ce & Ke & Ie & Fe).
      split; [apply Ce|]. split; [exact Ce|]. repeat split; congruence. }
    destruct (handlers_of s0 (sg_cls sg)) as [hs|] eqn:Hh.
    2:{ destruct (sg_cls sg =? CLS_EXCEPTION)%nat; invp HE; [|exact Hend].
        apply Post_weak; [|discriminate|discriminate].
        apply Persist_emit_neutral; [apply neutral_Kill|apply C0]. }
    destruct (force_quit s0) eqn:FQ; [invp HE; exact Hend|].
    destruct (nth_error hs idx) as [[hid data]|] eqn:Hn; [|invp HE; exact Hend].
    destruct (handler_start s0 hid (sg_id sg) data C0) as (C1 & K1 & I1 & F1).
    set (s1 := emit (EHandler hid (sg_id sg) data) s0) in *.
    assert (Ks1 : keys s1 = keys s) by congruence.
    assert (Is1 : il s1 = il s) by congruence.
    assert (Fs1 : fl s1 = fl s) by congruence.
    destruct (exec code f (CProg (code hid sg data)) s1) as [o2 s2] eqn:E2.
    apply IH in E2; [|exact (conj C1 (Strict_transfer s s1 Ks1 Is1 Fs1 SK SI))].
    destruct E2 as [P2 Q2].
    destruct o2 as [|[| |]| |].
    + (* the handler returned *)
      cbn in Q2. destruct Q2 as (C2 & K2 & I2 & F2).
      assert (Fs2 : fl s2 = sg_id sg :: r) by congruence.
      destruct (handler_end s2 hid (sg_id sg) None r (or_introl eq_refl) C2 Fs2) as (C3 & K3 & I3 & F3).
      set (s3 := emit (EHandlerEnd hid (sg_id sg) None) s2) in *.
      assert (Ks3 : keys s3 = keys s) by congruence.
      assert (Is3 : il s3 = il s) by congruence.
      assert (Fs3 : fl s3 = fl s) by congruence.
      apply IH in HE.
      * exact (Post_transfer _ _ _ _ _ Ks3 Is3 Fs3 HE).
      * cbn [Pre Nat.eqb]. split; [exact C3|].
        destruct (Strict_transfer s s3 Ks3 Is3 Fs3 SK SI) as [A B]. split; [exact A|]. split; [exact B|].
        exists r. congruence.
    + invp HE. apply Post_weak; [apply handler_end_exn; exact P2|discriminate|discriminate].
    + (* the handler failed: an ExceptionSignal is enqueued, the next handler runs *)
      cbn in Q2. destruct Q2 as (C2 & K2 & I2 & F2).
      assert (Fs2 : fl s2 = sg_id sg :: r) by congruence.
      destruct (handler_end s2 hid (sg_id sg) (Some XError) r (or_intror eq_refl) C2 Fs2) as (C3 & K3 & I3 & F3).
      set (s3 := emit (EHandlerEnd hid (sg_id sg) (Some XError)) s2) in *.
      pose proof (new_signal_step s3 exception_spec C3) as (R4 & Hok).
      destruct (new_signal s3 exception_spec) as [xs s4] eqn:N. cbn [fst snd] in R4, Hok.
      destruct R4 as (C4 & K4 & I4 & F4).
      destruct (do_enqueue_step s4 xs C4 Hok) as (C5 & K5 & I5 & F5).
      set (s5 := do_enqueue s4 xs) in *.
      assert (Ks5 : keys s5 = keys s) by congruence.
      assert (Is5 : il s5 = il s) by congruence.
      assert (Fs5 : fl s5 = fl s) by congruence.
      apply IH in HE.
      * exact (Post_transfer _ _ _ _ _ Ks5 Is5 Fs5 HE).
      * cbn [Pre Nat.eqb]. split; [exact C5|].
        destruct (Strict_transfer s s5 Ks5 Is5 Fs5 SK SI) as [A B]. split; [exact A|]. split; [exact B|].
        exists r. congruence.
    + invp HE. apply Post_weak; [apply handler_end_exn; exact P2|discriminate|discriminate].
    + invp HE. apply Post_weak; [exact P2|discriminate|discriminate].
    + invp HE. apply Post_weak; [exact P2|discriminate|discriminate].
  - (* ---------------- CApi *)
    cbn [Pre] in HP. destruct HP as (C & SK & SI).
    assert (HR : forall o0 s0, (o0 = ONormal \/ o0 = OThrow XError) ->
                 Rel s0 (keys s) (il s) (fl s) -> Post (CApi a) s o0 s0).
    { intros o0 s0 [-> | ->] R; (split; [apply R|exact R]). }
    destruct a as [sp| |sp| |[cls|]|ob|cls hid data|arg|sp]; cbn [exec] in HE.
    + (* enqueue_signal *)
      pose proof (new_signal_step s sp C) as (R1 & Hok).
      destruct (new_signal s sp) as [sg s1] eqn:N. cbn [fst snd] in R1, Hok. invp HE.
      destruct R1 as (C1 & K1 & I1 & F1).
      destruct (do_enqueue_step s1 sg C1 Hok) as (C2 & K2 & I2 & F2).
      apply HR; [auto|]. split; [exact C2|]. repeat split; congruence.
    + (* force_quit *)
      invp HE. apply HR; [auto|]. apply force_quit_step. exact C.
    + (* execute_new_loop *)
      pose proof (new_signal_step s sp C) as (R1 & Hok).
      destruct (new_signal s sp) as [sg s1] eqn:N. cbn [fst snd] in R1, Hok.
      destruct R1 as (C1 & K1 & I1 & F1).
      destruct (force_quit s1) eqn:FQ.
      { invp HE. apply HR; [auto|]. split; [exact C1|auto]. }
      set (q := length (qstore s1)) in *.
      set (s2 := s1 <| qstore := qstore s1 ++ [empty_queue] |> <| active := q |> <| levels := levels s1 ++ [q] |>) in *.
      assert (C2 : Core s2).
      { apply (Core_ext (s1 <| qstore := qstore s1 ++ [empty_queue] |>)); auto.
        apply Core_qstore; [exact C1|]. intros q0 Hq0. apply in_app_or in Hq0.
        destruct Hq0 as [Hq0|[<-|[]]]; [exact (p_sig s1 (c_p s1 C1) q0 Hq0)|]. intros p0 c0 sg0 []. }
      assert (R3 : Rel (emit (ENewLoopEnter q) s2) (keys s2) (il s2) (fl s2)).
      { apply Rel_emit_neutral; auto; [apply neutral_NewLoopEnter|apply C2]. }
      destruct R3 as (C3 & K3 & I3 & F3).
      assert (Hok3 : sig_ok (W (emit (ENewLoopEnter q) s2)) sg).
      { apply sig_ok_neutral; [apply neutral_NewLoopEnter|exact Hok]. }
      destruct (do_enqueue_step _ sg C3 Hok3) as (C4 & K4 & I4 & F4).
      set (s4 := do_enqueue (emit (ENewLoopEnter q) s2) sg) in *.
      change (keys s2) with (keys s1) in K3. change (il s2) with (il s1) in I3. change (fl s2) with (fl s1) in F3.
      assert (Ks4 : keys s4 = keys s) by congruence.
      assert (Is4 : il s4 = il s) by congruence.
      assert (Fs4 : fl s4 = fl s) by congruence.
      destruct (exec code f CMainloop s4) as [o5 s5] eqn:E5.
      apply IH in E5; [|exact (conj C4 (Strict_transfer s s4 Ks4 Is4 Fs4 SK SI))].
      destruct E5 as [P5 Q5].
      destruct o5 as [|[| |]| |]; try (invp HE; apply Post_weak; [exact P5|discriminate|discriminate]).
      * cbn in Q5. destruct Q5 as ((C5 & K5 & I5 & F5) & Hrl). invp HE.
        destruct (newloop_return s5 q C5 Hrl) as (C6 & K6 & I6 & F6).
        apply HR; [auto|]. split; [exact C6|]. repeat split; congruence.
      * cbn in Q5. contradiction.
    + (* close_loop *)
      destruct (iter_enter s C) as (Ce & Ke & Ie & Fe).
      set (se := emit (EProcEnter None 0) s) in *.
      assert (Ne : nf se = nf s) by (unfold nf; rewrite Fe; reflexivity).
      destruct (exec code f (CProcIter None) se) as [o1 s1] eqn:E1.
      apply IH in E1.
      2:{ cbn [Pre]. split; [exact Ce|]. rewrite Ne, Ke. split; [exact SK|]. exists (il s). auto. }
      destruct E1 as [P1 Q1].
      destruct o1 as [|[| |]| |]; try (invp HE; apply Post_weak; [exact P1|discriminate|discriminate]).
      2:{ cbn in Q1. contradiction. }
      cbn in Q1. destruct Q1 as (po & C1 & K1 & I1 & F1).
      rewrite Ke in K1. rewrite Ie in I1. cbn [tl] in I1. rewrite Fe in F1.
      destruct (iter_return s1 C1) as (C2 & K2 & I2 & F2).
      set (s2 := emit (EProcReturn None 0) s1) in *.
      rewrite I1 in I2. cbn [tl] in I2.
      assert (R2 : Rel s2 (keys s) (il s) (fl s)) by (split; [exact C2|]; repeat split; congruence).
      destruct (rev (levels s2)) as [|top rest_rev] eqn:RV.
      { invp HE. apply HR; auto. }
      destruct (close_pop_step s2 top (rev rest_rev) C2) as ((C3 & K3 & I3 & F3) & Hrl3).
      set (s3 := emit (EClosePop top) (s2 <| levels := rev rest_rev |>)) in *.
      destruct rest_rev as [|q0 rr].
      { invp HE. apply Post_weak; [apply C3|discriminate|discriminate]. }
      invp HE. apply HR; [auto|].
      assert (C4 : Core (s3 <| active := q0 |> <| run_loop := false |>)).
      { apply Core_set_rl; [|intros _; exact Hrl3]. apply (Core_ext s3); auto. }
      split; [exact C4|].
      change (keys (s3 <| active := q0 |> <| run_loop := false |>)) with (keys s3).
      change (il (s3 <| active := q0 |> <| run_loop := false |>)) with (il s3).
      change (fl (s3 <| active := q0 |> <| run_loop := false |>)) with (fl s3).
      destruct R2 as (_ & K2' & I2' & F2'). repeat split; congruence.
    + (* process_signals(return_after=cls) *)
      destruct (take_ticket (tickets s) cls) as [t tm] eqn:T.
      assert (Ht : t = tm_counter (tickets s)) by (unfold take_ticket in T; inversion T; reflexivity).
      assert (Htm : tm = snd (take_ticket (tickets s) cls)) by (rewrite T; reflexivity).
      subst t tm.
      destruct (wait_enter s cls C) as ((C1 & K1 & I1 & F1) & Hfl1).
      set (t := tm_counter (tickets s)) in *.
      set (s1 := emit (EProcEnter (Some cls) t) (s <| tickets := snd (take_ticket (tickets s) cls) |>)) in *.
      assert (N1 : nf s1 = nf s) by (unfold nf; rewrite F1; reflexivity).
      destruct (exec code f (CProcWait cls t) s1) as [o2 s2] eqn:E2.
      apply IH in E2.
      2:{ cbn [Pre]. split; [exact C1|]. split; [exact Hfl1|]. rewrite N1, I1. split; [|exact SI].
          exists (keys s). auto. }
      destruct E2 as [P2 Q2].
      destruct o2 as [|[| |]| |]; try (invp HE; apply Post_weak; [exact P2|discriminate|discriminate]).
      2:{ cbn in Q2. contradiction. }
      cbn in Q2. rewrite K1, I1, F1 in Q2. cbn [tl] in Q2. invp HE. apply HR; auto.
    + (* process_signals() *)
      destruct (iter_enter s C) as (Ce & Ke & Ie & Fe).
      set (se := emit (EProcEnter None 0) s) in *.
      assert (Ne : nf se = nf s) by (unfold nf; rewrite Fe; reflexivity).
      destruct (exec code f (CProcIter None) se) as [o1 s1] eqn:E1.
      apply IH in E1.
      2:{ cbn [Pre]. split; [exact Ce|]. rewrite Ne, Ke. split; [exact SK|]. exists (il s). auto. }
      destruct E1 as [P1 Q1].
      destruct o1 as [|[| |]| |]; try (invp HE; apply Post_weak; [exact P1|discriminate|discriminate]).
      2:{ cbn in Q1. contradiction. }
      cbn in Q1. destruct Q1 as (po & C1 & K1 & I1 & F1).
      rewrite Ke in K1. rewrite Ie in I1. cbn [tl] in I1. rewrite Fe in F1.
      destruct (iter_return s1 C1) as (C2 & K2 & I2 & F2).
      rewrite I1 in I2. cbn [tl] in I2.
      invp HE. apply HR; [auto|]. split; [exact C2|]. repeat split; congruence.
    + (* register_signal_source *)
      invp HE. apply HR; [auto|]. apply Rel_emit_neutral; auto; [apply neutral_RegSource|].
      apply entries_ok_set_q; [apply C|]. intros p0 c0 sg0 H0.
      apply (get_q_ok s (W s) (active s) (p_sig s (c_p s C)) p0 c0 sg0).
      unfold q_add_source in H0. destruct (existsb (Nat.eqb ob) (eq_sources (get_q s (active s)))); exact H0.
    + (* register_signal_handler *)
      invp HE. apply HR; [auto|]. apply Rel_emit_neutral; auto; [apply neutral_RegHandler|apply C].
    + (* set_quit_callback *)
      invp HE. apply HR; [auto|]. apply Rel_emit_neutral; auto; [apply neutral_SetQuitCb|apply C].
    + (* ghost: another thread's future submission *)
      invp HE. apply HR; [auto|]. apply (Rel_ext s); auto. apply Rel_refl. exact C.
  - (* ---------------- CProg *)
    cbn [Pre] in HP. destruct HP as (C & SK & SI).
    assert (HR : forall p0 o0 s0, (o0 = ONormal \/ o0 = OThrow XError) ->
                 Rel s0 (keys s) (il s) (fl s) -> Post (CProg p0) s o0 s0).
    { intros p0 o0 s0 [-> | ->] R; (split; [apply R|exact R]). }
    destruct pr as [|e|p1 p2|p1 h|a|g|cnd b|e]; cbn [exec] in HE.
    + invp HE. apply HR; [auto|]. apply Rel_refl. exact C.
    + invp HE. destruct e; [apply Post_weak; [apply C|discriminate|discriminate]| |apply Post_weak; [apply C|discriminate|discriminate]].
      apply HR; [auto|]. apply Rel_refl. exact C.
    + destruct (exec code f (CProg p1) s) as [o1 s1] eqn:E1.
      apply IH in E1; [|exact (conj C (conj SK SI))]. destruct E1 as [P1 Q1].
      destruct o1 as [|[| |]| |]; try (invp HE; apply Post_weak; [exact P1|discriminate|discriminate]).
      * cbn in Q1. destruct Q1 as (C1 & K1 & I1 & F1).
        apply IH in HE; [|exact (conj C1 (Strict_transfer s s1 K1 I1 F1 SK SI))].
        exact (Post_transfer _ _ _ _ _ K1 I1 F1 HE).
      * cbn in Q1. invp HE. apply HR; auto.
    + destruct (exec code f (CProg p1) s) as [o1 s1] eqn:E1.
      apply IH in E1; [|exact (conj C (conj SK SI))]. destruct E1 as [P1 Q1].
      destruct o1 as [|[| |]| |]; try (invp HE; apply Post_weak; [exact P1|discriminate|discriminate]).
      * cbn in Q1. invp HE. apply HR; auto.
      * cbn in Q1. destruct Q1 as (C1 & K1 & I1 & F1).
        apply IH in HE; [|exact (conj C1 (Strict_transfer s s1 K1 I1 F1 SK SI))].
        exact (Post_transfer _ _ _ _ _ K1 I1 F1 HE).
    + exact (IH (CApi a) s o s' (conj C (conj SK SI)) HE).
    + destruct (g (ust s)) as [u' p'] eqn:G.
      apply IH in HE.
      * exact HE.
      * cbn [Pre]. split; [apply (Core_ext s); auto|]. split; [exact SK|exact SI].
    + destruct (cnd (ust s)) eqn:Cn.
      2:{ invp HE. apply HR; [auto|]. apply Rel_refl. exact C. }
      destruct (exec code f (CProg b) s) as [o1 s1] eqn:E1.
      apply IH in E1; [|exact (conj C (conj SK SI))]. destruct E1 as [P1 Q1].
      destruct o1 as [|[| |]| |]; try (invp HE; apply Post_weak; [exact P1|discriminate|discriminate]).
      * cbn in Q1. destruct Q1 as (C1 & K1 & I1 & F1).
        apply IH in HE; [|exact (conj C1 (Strict_transfer s s1 K1 I1 F1 SK SI))].
        exact (Post_transfer _ _ _ _ _ K1 I1 F1 HE).
      * cbn in Q1. invp HE. apply HR; auto.
    + invp HE. apply HR; [auto|]. apply Rel_emit_neutral; auto; [apply neutral_user|apply C].
Qed.

(* ------------------------------------------------------------------ sessions *)
Lemma Persist_init u : Persist (init_state u).
Proof.
  constructor.
  - exact I.
  - intros sid _. reflexivity.
  - intros q [<-|[]] p c sg [].
  - reflexivity.
  - discriminate.
  - exact wf_empty.
Qed.

Lemma session_inv fuel : forall acts s os s',
  Persist s -> run_session code fuel acts s = (os, s') -> Persist s'.
Proof.
  induction acts as [|a r IHr]; intros s os s' P H; cbn [run_session] in H.
  - injection H as <- <-. exact P.
  - destruct (top_step s P) as (C0 & K0 & I0 & F0).
    set (s0 := emit ETop s) in *.
    destruct (exec code fuel (match a with TRun => CRun | TProg p => CProg p end) s0) as [o s1] eqn:E.
    assert (P1 : Persist s1).
    { apply exec_inv in E; [apply E|]. destruct a as [|p]; cbn [Pre]; [apply C0|].
      split; [exact C0|]. unfold StrictK, StrictI. rewrite K0, I0. split; constructor. }
    destruct o as [|[| |]| |]; try (injection H as <- <-; exact P1);
      destruct (run_session code fuel r s1) as [os2 s2] eqn:R; injection H as <- <-; exact (IHr _ _ _ P1 R).
Qed.

Theorem C10_waiting_proof fuel acts (u : U) :
  ok_C10 (rev (trace (snd (run_session code fuel acts (init_state u))))) = true.
Proof.
  apply good_ok. destruct (run_session code fuel acts (init_state u)) as [os s'] eqn:R. cbn [snd].
  exact (p_good _ (session_inv fuel acts _ _ _ (Persist_init u) R)).
Qed.

(* ------------------------------------------------------------------ the trace only grows *)
Definition tgrow s s' : Prop := exists tr, trace s' = tr ++ trace s.

Lemma tg_refl s : tgrow s s.
Proof. exists []. reflexivity. Qed.
Lemma tg_trans a b c : tgrow a b -> tgrow b c -> tgrow a c.
Proof. intros [t1 H1] [t2 H2]. exists (t2 ++ t1). rewrite H2, H1, app_assoc. reflexivity. Qed.
Lemma tg_emit s s1 e : tgrow s s1 -> tgrow s (emit e s1).
Proof. intros [t H]. exists (e :: t). change (trace (emit e s1)) with (e :: trace s1). rewrite H. reflexivity. Qed.
Lemma tg_same s s1 s2 : trace s2 = trace s1 -> tgrow s s1 -> tgrow s s2.
Proof. intros E [t H]. exists t. rewrite E. exact H. Qed.
Lemma tg_do_enqueue s s1 sg : tgrow s s1 -> tgrow s (do_enqueue s1 sg).
Proof.
  intros H. unfold do_enqueue. destruct (force_quit s1); apply tg_emit; [exact H|].
  eapply tg_same; [|exact H]. reflexivity.
Qed.
Lemma tg_new_signal s sp sg s1 : new_signal s sp = (sg, s1) -> tgrow s s1.
Proof.
  unfold new_signal. intros H. injection H as <- <-. apply tg_emit.
  apply (tg_same _ s); [reflexivity|apply tg_refl].
Qed.
Lemma tg_do_get_some s sg s1 : do_get s = inl (Some (sg, s1)) -> tgrow s s1.
Proof.
  intros H. apply do_get_some in H. destruct H as (p & cnt & q' & _ & ->).
  apply (tg_same _ s); [reflexivity|apply tg_refl].
Qed.
Lemma tg_do_get_ext s s1 : do_get s = inr s1 -> tgrow s s1.
Proof.
  unfold do_get. destruct (q_pop (get_q s (active s))) as [[[[p cnt] sg0] q']|]; [discriminate|].
  destruct (ext s) as [|sp r]; [discriminate|].
  destruct (new_signal (s <| ext := r |>) sp) as [sg sN] eqn:N. intros H. injection H as <-.
  apply tg_new_signal in N. apply tg_do_enqueue, tg_emit.
  eapply tg_trans; [|exact N]. apply (tg_same _ s); [reflexivity|apply tg_refl].
Qed.

Ltac tg_solve :=
  repeat match goal with
  | |- tgrow ?s ?s => apply tg_refl
  | H : tgrow ?a ?b |- tgrow ?a ?b => exact H
  | |- tgrow _ (emit _ _) => apply tg_emit
  | |- tgrow _ (do_enqueue _ _) => apply tg_do_enqueue
  | |- tgrow _ (match ?x with Some _ => _ | None => _ end) => destruct x
  | |- tgrow _ (if ?x then _ else _) => destruct x
  | |- tgrow ?a (set_q ?s1 _ _) => apply (tg_same a s1); [reflexivity|]
  | |- tgrow ?a (set _ _ ?s1) => apply (tg_same a s1); [reflexivity|]
  | H : tgrow ?b ?c |- tgrow ?a ?c => apply (tg_trans a b c); [|exact H]
  end.

Lemma exec_ext : forall f c s o s', exec code f c s = (o, s') -> tgrow s s'.
Proof.
  induction f as [|f IH]; intros c s o s' HE.
  { cbn in HE. injection HE as <- <-. apply tg_refl. }
  destruct c as [| | |cls t|po|sg idx|a|pr]; cbn [exec] in HE.
  - match type of HE with context [exec code f CMainloop ?st] => destruct (exec code f CMainloop st) as [o1 s1] eqn:E1 end.
    apply IH in E1. destruct o1 as [|[| |]| |]; injection HE as <- <-; tg_solve.
  - destruct (run_loop s).
    + destruct (exec code f CProcLoop s) as [o1 s1] eqn:E1. apply IH in E1.
      destruct o1 as [|[| |]| |]; try (injection HE as <- <-; tg_solve).
      apply IH in HE. tg_solve.
    + injection HE as <- <-. tg_solve.
  - destruct (run_loop s); [|injection HE as <- <-; tg_solve].
    destruct (do_get s) as [[[sg s1]|]|s1] eqn:G.
    + apply tg_do_get_some in G.
      match type of HE with context [exec code f (CProcessSignal sg 0) ?st] =>
        destruct (exec code f (CProcessSignal sg 0) st) as [o3 s3] eqn:E3 end.
      apply IH in E3. destruct o3 as [|[| |]| |]; try (injection HE as <- <-; tg_solve).
      apply IH in HE. tg_solve.
    + injection HE as <- <-. tg_solve.
    + apply tg_do_get_ext in G. apply IH in HE. tg_solve.
  - destruct (run_loop s); [|injection HE as <- <-; tg_solve].
    destruct (do_get s) as [[[sg s1]|]|s1] eqn:G.
    + apply tg_do_get_some in G.
      match type of HE with context [exec code f (CProcessSignal sg 0) ?st] =>
        destruct (exec code f (CProcessSignal sg 0) st) as [o3 s3] eqn:E3 end.
      apply IH in E3. destruct o3 as [|[| |]| |]; try (injection HE as <- <-; tg_solve).
      destruct (check_ticket (tickets s3) cls t) as [[[|] tm']|]; try (injection HE as <- <-; tg_solve).
      apply IH in HE. tg_solve.
    + injection HE as <- <-. tg_solve.
    + apply tg_do_get_ext in G. apply IH in HE. tg_solve.
  - destruct (negb (q_empty (get_q s (active s))) && run_loop s); [|injection HE as <- <-; tg_solve].
    destruct (q_pop (get_q s (active s))) as [[[[p cnt] sg] q']|]; [|injection HE as <- <-; tg_solve].
    assert (Hgo : forall o s', (let '(o, s3) := exec code f (CProcessSignal sg 0)
                    (emit (EDispatch (sg_id sg) (active s) (length (levels s))) (set_q s (active s) q')) in
                  match o with ONormal => exec code f (CProcIter (Some p)) s3 | _ => (o, s3) end) = (o, s') -> tgrow s s').
    { clear HE. intros o0 s0 HE.
      match type of HE with context [exec code f (CProcessSignal sg 0) ?st] =>
        destruct (exec code f (CProcessSignal sg 0) st) as [o3 s3] eqn:E3 end.
      apply IH in E3. destruct o3 as [|[| |]| |]; try (injection HE as <- <-; tg_solve).
      apply IH in HE. tg_solve. }
    destruct po as [p0|]; [|exact (Hgo _ _ HE)].
    destruct (p =? p0)%Z; [exact (Hgo _ _ HE)|]. injection HE as <- <-. tg_solve.
  - match type of HE with context [handlers_of ?st (sg_cls sg)] => set (s0 := st) in * end.
    assert (E0 : tgrow s s0) by (unfold s0; tg_solve).
    destruct (handlers_of s0 (sg_cls sg)) as [hs|].
    2:{ destruct (sg_cls sg =? CLS_EXCEPTION)%nat; injection HE as <- <-; tg_solve. }
    destruct (force_quit s0); [injection HE as <- <-; tg_solve|].
    destruct (nth_error hs idx) as [[hid data]|]; [|injection HE as <- <-; tg_solve].
    match type of HE with context [exec code f (CProg (code hid sg data)) ?st] =>
      destruct (exec code f (CProg (code hid sg data)) st) as [o2 s2] eqn:E2 end.
    apply IH in E2. destruct o2 as [|[| |]| |]; try (injection HE as <- <-; tg_solve).
    + apply IH in HE. tg_solve.
    + match type of HE with context [new_signal ?st exception_spec] =>
        destruct (new_signal st exception_spec) as [xs s4] eqn:N end.
      apply tg_new_signal in N. apply IH in HE. tg_solve.
  - destruct a as [sp| |sp| |[cls|]|ob|cls hid data|arg|sp].
    + destruct (new_signal s sp) as [sg s1] eqn:N. apply tg_new_signal in N. injection HE as <- <-. tg_solve.
    + injection HE as <- <-. tg_solve.
    + destruct (new_signal s sp) as [sg s1] eqn:N. apply tg_new_signal in N.
      destruct (force_quit s1); [injection HE as <- <-; tg_solve|].
      match type of HE with context [exec code f CMainloop ?st] =>
        destruct (exec code f CMainloop st) as [o5 s5] eqn:E5 end.
      apply IH in E5. destruct o5 as [|[| |]| |]; injection HE as <- <-; tg_solve.
    + match type of HE with context [exec code f (CProcIter None) ?st] =>
        destruct (exec code f (CProcIter None) st) as [o1 s1] eqn:E1 end.
      apply IH in E1. destruct o1 as [|[| |]| |]; try (injection HE as <- <-; tg_solve).
      destruct (rev (levels (emit (EProcReturn None 0) s1))) as [|top [|q0 rr]]; injection HE as <- <-; tg_solve.
    + destruct (take_ticket (tickets s) cls) as [t tm].
      match type of HE with context [exec code f (CProcWait cls t) ?st] =>
        destruct (exec code f (CProcWait cls t) st) as [o2 s2] eqn:E2 end.
      apply IH in E2. destruct o2 as [|[| |]| |]; injection HE as <- <-; tg_solve.
    + match type of HE with context [exec code f (CProcIter None) ?st] =>
        destruct (exec code f (CProcIter None) st) as [o1 s1] eqn:E1 end.
      apply IH in E1. destruct o1 as [|[| |]| |]; injection HE as <- <-; tg_solve.
    + injection HE as <- <-. tg_solve.
    + injection HE as <- <-. tg_solve.
    + injection HE as <- <-. tg_solve.
    + injection HE as <- <-. tg_solve.
  - destruct pr as [|e|p1 p2|p1 h|a|g|cnd b|e].
    + injection HE as <- <-. tg_solve.
    + injection HE as <- <-. tg_solve.
    + destruct (exec code f (CProg p1) s) as [o1 s1] eqn:E1. apply IH in E1.
      destruct o1 as [|[| |]| |]; try (injection HE as <- <-; tg_solve). apply IH in HE. tg_solve.
    + destruct (exec code f (CProg p1) s) as [o1 s1] eqn:E1. apply IH in E1.
      destruct o1 as [|[| |]| |]; try (injection HE as <- <-; tg_solve). apply IH in HE. tg_solve.
    + exact (IH _ _ _ _ HE).
    + destruct (g (ust s)) as [u' p']. apply IH in HE. tg_solve.
    + destruct (cnd (ust s)); [|injection HE as <- <-; tg_solve].
      destruct (exec code f (CProg b) s) as [o1 s1] eqn:E1. apply IH in E1.
      destruct o1 as [|[| |]| |]; try (injection HE as <- <-; tg_solve). apply IH in HE. tg_solve.
    + injection HE as <- <-. tg_solve.
Qed.

(* ------------------------------------------------------------------ the non-waiting form, directly *)
(* process_signals() on an empty queue returns at once, having done nothing *)
Lemma iteration_nonblocking f s :
  q_empty (get_q s (active s)) = true ->
  exec code (S (S f)) (CApi (AProcess None)) s =
  (ONormal, emit (EProcReturn None 0) (emit (EProcEnter None 0) s)).
Proof.
  intros H. cbn [exec].
  change (get_q (emit (EProcEnter None 0) s) (active (emit (EProcEnter None 0) s))) with (get_q s (active s)).
  rewrite H. reflexivity.
Qed.

(* the same for the process_signals() that close_loop() starts with *)
Lemma iter_empty f po s :
  q_empty (get_q s (active s)) = true -> exec code (S f) (CProcIter po) s = (ONormal, s).
Proof. intros H. cbn [exec]. rewrite H. reflexivity. Qed.

(* a handler was started between s and s' *)
Definition hgrow s s' : Prop :=
  exists tr h sid d, trace s' = tr ++ trace s /\ In (EHandler h sid d) tr.

Lemma hgrow_l a b c : tgrow a b -> hgrow b c -> hgrow a c.
Proof.
  intros [t1 H1] (t2 & h & sid & d & H2 & Hin). exists (t2 ++ t1), h, sid, d.
  rewrite H2, H1, app_assoc. split; [reflexivity|apply in_or_app; left; exact Hin].
Qed.
Lemma hgrow_r a b c : hgrow a b -> tgrow b c -> hgrow a c.
Proof.
  intros (t1 & h & sid & d & H1 & Hin) [t2 H2]. exists (t2 ++ t1), h, sid, d.
  rewrite H2, H1, app_assoc. split; [reflexivity|apply in_or_app; right; exact Hin].
Qed.
Lemma hgrow_handler s s0 h sid d : trace s0 = trace s -> hgrow s (emit (EHandler h sid d) s0).
Proof.
  intros E. exists [EHandler h sid d], h, sid, d. split; [|left; reflexivity].
  change (trace (emit (EHandler h sid d) s0)) with (EHandler h sid d :: trace s0). rewrite E. reflexivity.
Qed.

(* _process_signal blocks only inside a handler *)
Lemma signal_blocked : forall f sg idx s s',
  exec code f (CProcessSignal sg idx) s = (OBlocked, s') -> hgrow s s'.
Proof.
  induction f as [|f IH]; intros sg idx s s' HE; [discriminate HE|].
  cbn [exec] in HE.
  match type of HE with context [handlers_of ?st (sg_cls sg)] => set (s0 := st) in * end.
  assert (E0 : trace s0 = trace s) by (unfold s0; destruct (idx =? 0)%nat; reflexivity).
  destruct (handlers_of s0 (sg_cls sg)) as [hs|].
  2:{ destruct (sg_cls sg =? CLS_EXCEPTION)%nat; discriminate HE. }
  destruct (force_quit s0); [discriminate HE|].
  destruct (nth_error hs idx) as [[hid data]|]; [|discriminate HE].
  pose proof (hgrow_handler s s0 hid (sg_id sg) data E0) as H1.
  set (s1 := emit (EHandler hid (sg_id sg) data) s0) in *.
  destruct (exec code f (CProg (code hid sg data)) s1) as [o2 s2] eqn:E2.
  apply exec_ext in E2. pose proof (hgrow_r _ _ _ H1 E2) as H2.
  destruct o2 as [|[| |]| |]; try discriminate HE.
  - apply IH in HE. eapply hgrow_l; [|exact HE]. apply tg_emit. destruct H2 as (t & _ & _ & _ & Ht & _).
    exists t. exact Ht.
  - match type of HE with context [new_signal ?st exception_spec] =>
      destruct (new_signal st exception_spec) as [xs s4] eqn:N end.
    apply tg_new_signal in N. apply IH in HE. eapply hgrow_l; [|exact HE].
    apply tg_do_enqueue. eapply tg_trans; [|exact N]. apply tg_emit.
    destruct H2 as (t & _ & _ & _ & Ht & _). exists t. exact Ht.
  - injection HE as <-. exact H2.
Qed.

(* process_signals() itself never waits: it is blocked only if a handler it ran was *)
Lemma iter_blocked : forall f po s s',
  exec code f (CProcIter po) s = (OBlocked, s') -> hgrow s s'.
Proof.
  induction f as [|f IH]; intros po s s' HE; [discriminate HE|].
  cbn [exec] in HE.
  destruct (negb (q_empty (get_q s (active s))) && run_loop s); [|discriminate HE].
  destruct (q_pop (get_q s (active s))) as [[[[p cnt] sg] q']|]; [|discriminate HE].
  assert (Hgo : (let '(o, s3) := exec code f (CProcessSignal sg 0)
                    (emit (EDispatch (sg_id sg) (active s) (length (levels s))) (set_q s (active s) q')) in
                 match o with ONormal => exec code f (CProcIter (Some p)) s3 | _ => (o, s3) end) = (OBlocked, s') ->
                hgrow s s').
  { clear HE. intros HE.
    set (s2 := emit (EDispatch (sg_id sg) (active s) (length (levels s))) (set_q s (active s) q')) in *.
    assert (T2 : tgrow s s2) by (unfold s2; apply tg_emit; apply (tg_same _ s); [reflexivity|apply tg_refl]).
    destruct (exec code f (CProcessSignal sg 0) s2) as [o3 s3] eqn:E3.
    destruct o3 as [|[| |]| |]; try discriminate HE.
    - apply exec_ext in E3. apply IH in HE. eapply hgrow_l; [|exact HE]. eapply tg_trans; eauto.
    - injection HE as <-. apply signal_blocked in E3. eapply hgrow_l; eauto. }
  destruct po as [p0|]; [|exact (Hgo HE)].
  destruct (p =? p0)%Z; [exact (Hgo HE)|discriminate HE].
Qed.

Lemma q_pop_not_empty q e q' : q_pop q = Some (e, q') -> q_empty q = false.
Proof. unfold q_pop, q_empty. destruct (eq_entries q); [discriminate|reflexivity]. Qed.

(* one batch: at the first head of another priority the entry goes back and the call returns *)
Lemma iteration_stops_at_other_priority f s p0 p cnt sg q' :
  q_pop (get_q s (active s)) = Some ((p, cnt, sg), q') -> run_loop s = true -> p <> p0 ->
  exec code (S f) (CProcIter (Some p0)) s =
  (ONormal, emit (ERequeue (sg_id sg) (active s)) (set_q s (active s) (q_put_entry q' (p, cnt, sg)))).
Proof.
  intros Hpop RL Hne. cbn [exec]. rewrite (q_pop_not_empty _ _ _ Hpop), RL, Hpop. cbn [negb andb].
  destruct (p =? p0)%Z eqn:E; [apply Z.eqb_eq in E; congruence|reflexivity].
Qed.

(* ... and a head of the batch priority is dispatched, the batch priority being that of the first signal taken *)
Lemma iteration_dispatches_batch_priority f s po p cnt sg q' :
  q_pop (get_q s (active s)) = Some ((p, cnt, sg), q') -> run_loop s = true ->
  po = None \/ po = Some p ->
  exec code (S f) (CProcIter po) s =
  (let '(o, s3) := exec code f (CProcessSignal sg 0)
                     (emit (EDispatch (sg_id sg) (active s) (length (levels s))) (set_q s (active s) q')) in
   match o with ONormal => exec code f (CProcIter (Some p)) s3 | _ => (o, s3) end).
Proof.
  intros Hpop RL Hpo. cbn [exec]. rewrite (q_pop_not_empty _ _ _ Hpop), RL, Hpop. cbn [negb andb].
  destruct Hpo as [-> | ->]; [reflexivity|]. rewrite Z.eqb_refl. reflexivity.
Qed.

Lemma stop_flag_link fuel acts (u : U) :
  let s := snd (run_session code fuel acts (init_state u)) in
  let w := world_of (rev (trace s)) in
  force_quit s = w_fq w /\ (run_loop s = false -> w_runloop w = false).
Proof.
  destruct (run_session code fuel acts (init_state u)) as [os s'] eqn:R. cbn [snd].
  pose proof (session_inv fuel acts _ _ _ (Persist_init u) R) as P.
  split; [exact (p_fq _ P)|exact (p_rl _ P)].
Qed.

End C10.
