(* ConcOrder.v — C19_thread_order: the counters one thread obtains from one queue increase, and
   PriorityQueue.get returns the least (priority, counter): equal-priority signals of one thread put into
   the same queue are dispatched in submission order.  Thread 0 is the loop thread; the others only submit. *)
From SL Require Import Tac.
From Coq Require Import Permutation.
From RecordUpdate Require Import RecordUpdate.
From SL Require Import Conc proofs.ConcProofs proofs.ConcLocks.
Import ListNotations.

(* ------------------------------------------------------------------ submitters *)
Definition is_submit (a : action) : bool := match a with ASubmit _ => true | _ => false end.
Definition submit_pc (p : pc) : bool := match p with P0 | PE _ _ => true | _ => false end.
Definition submit_thread (th : thread) : bool := forallb is_submit (t_prog th) && submit_pc (t_pc th).
Definition submitters_only (progs : list (list action)) : Prop :=
  forall t p, nth_error progs t = Some p -> t <> 0 -> forallb is_submit p = true.
Definition subinv (st : cstate) : Prop :=
  forall t th, nth_error (c_thr st) t = Some th -> t <> 0 -> submit_thread th = true.

Definition not_put_pc (p : pc) : Prop := forall s q c lk, p <> PE s (EPut q c lk).
Definition not_hold (p : pc) : Prop := forall e, p <> PCPutBack e.

(* what a step does to the queues, the counters and the ghost logs *)
Definition k_other (th : thread) (h : shared) (th' : thread) (h' : shared) : Prop :=
  h_pend h' = h_pend h /\ h_disp h' = h_disp h /\ h_putlog h' = h_putlog h /\ h_cnt h' = h_cnt h /\
  not_put_pc (t_pc th') /\ not_hold (t_pc th) /\ not_hold (t_pc th') /\ not_put_pc (t_pc th).
Definition k_cnt (th : thread) (h : shared) (th' : thread) (h' : shared) : Prop :=
  exists s q lk, t_pc th = PE s (ECnt q lk) /\ t_pc th' = PE s (EPut q (aget (h_cnt h) q) lk) /\
    h_cnt h' = aset (h_cnt h) q (S (aget (h_cnt h) q)) /\
    h_pend h' = h_pend h /\ h_disp h' = h_disp h /\ h_putlog h' = h_putlog h /\ h_active h' = h_active h.
Definition k_put (u : nat) (th : thread) (h : shared) (th' : thread) (h' : shared) : Prop :=
  exists s q c lk, t_pc th = PE s (EPut q c lk) /\
    h_pend h' = h_pend h ++ [(q, (s_prio s, c, s_id s))] /\
    h_putlog h' = (u, (q, (s_prio s, c, s_id s))) :: h_putlog h /\
    h_cnt h' = h_cnt h /\ h_disp h' = h_disp h /\ h_active h' = h_active h /\
    not_put_pc (t_pc th') /\ not_hold (t_pc th').
Definition k_disp (th : thread) (h : shared) (th' : thread) (h' : shared) : Prop :=
  exists e pend', pop_min (h_active h) (h_pend h) = Some (e, pend') /\ h_pend h' = pend' /\
    h_disp h' = h_disp h ++ [e_sid e] /\ h_putlog h' = h_putlog h /\ h_cnt h' = h_cnt h /\
    h_active h' = h_active h /\
    not_put_pc (t_pc th') /\ not_hold (t_pc th) /\ not_hold (t_pc th') /\ submit_thread th = false.
Definition k_hold (th : thread) (h : shared) (th' : thread) (h' : shared) : Prop :=
  exists e pend', pop_min (h_active h) (h_pend h) = Some (e, pend') /\ h_pend h' = pend' /\
    t_pc th' = PCPutBack e /\
    h_disp h' = h_disp h /\ h_putlog h' = h_putlog h /\ h_cnt h' = h_cnt h /\ h_active h' = h_active h /\
    not_hold (t_pc th) /\ submit_thread th = false.
Definition k_back (th : thread) (h : shared) (th' : thread) (h' : shared) : Prop :=
  exists e, t_pc th = PCPutBack e /\ h_pend h' = h_pend h ++ [(h_active h, e)] /\
    h_disp h' = h_disp h /\ h_putlog h' = h_putlog h /\ h_cnt h' = h_cnt h /\ h_active h' = h_active h /\
    not_put_pc (t_pc th') /\ not_hold (t_pc th').

Lemma tstep_kind : forall u th h th' h', tstep u th h = Some (th', h') ->
  k_other th h th' h' \/ k_cnt th h th' h' \/ k_put u th h th' h' \/
  k_disp th h th' h' \/ k_hold th h th' h' \/ k_back th h th' h'.
Proof.
  intros u [prog p] h th' h' H. inv_tstep H.
  all: unfold k_other, k_cnt, k_put, k_disp, k_hold, k_back, not_put_pc, not_hold, submit_thread, dispatched, lbl, mk;
       cbn [t_pc t_prog h_pend h_disp h_putlog h_cnt h_active set forallb is_submit submit_pc andb].
  all: try (left; repeat split; try discriminate; try (destruct b; discriminate);
            try (match goal with |- context [match ?l with [] => _ | _ :: _ => _ end] => destruct l end; discriminate);
            fail).
  all: try (right; left; do 3 eexists; repeat split; fail).
  all: try (right; right; left; do 4 eexists; repeat split; discriminate).
  all: try (right; right; right; left; do 2 eexists; split; [eassumption|]; repeat split; try discriminate;
            try apply andb_false_r; fail).
  all: try (right; right; right; right; left; do 2 eexists; split; [eassumption|]; repeat split; try discriminate;
            try apply andb_false_r; fail).
  all: try (right; right; right; right; right; eexists; repeat split; discriminate).
Qed.

Lemma tstep_submit : forall u th h th' h', tstep u th h = Some (th', h') -> submit_thread th = true ->
  submit_thread th' = true /\ h_active h' = h_active h /\ h_evq h' = h_evq h /\ h_fq h' = h_fq h /\ h_nq h' = h_nq h.
Proof.
  intros u [prog p] h th' h' H S. unfold submit_thread in S. cbn [t_pc t_prog] in S.
  apply andb_true_iff in S. destruct S as [S1 S2].
  destruct p; try discriminate S2.
  - destruct prog as [|a r]; [discriminate H|]. cbn [forallb] in S1. apply andb_true_iff in S1. destruct S1 as [Sa Sr].
    destruct a; try discriminate Sa.
    inv_tstep H; unfold submit_thread, lbl, mk; cbn [t_pc t_prog submit_pc h_active h_evq h_fq h_nq set]; rewrite Sr; auto.
  - inv_tstep H; unfold submit_thread, lbl, mk; cbn [t_pc t_prog submit_pc h_active h_evq h_fq h_nq set]; rewrite S1; auto.
Qed.

Lemma subinv_step : forall t st, subinv st -> subinv (step t st).
Proof.
  intros t st F. destruct (step_cases t st) as [E|(l1 & th & l2 & th' & h' & Hl & Hn & Ht & E)].
  { now rewrite E. }
  rewrite E. destruct st as [thr h]. cbn [c_thr c_sh] in *. subst thr.
  intros n thn Hnth Hne. cbn [c_thr] in Hnth. rewrite (nth_error_upd_mid l1 th) in Hnth.
  destruct (n =? length l1) eqn:En.
  - apply Nat.eqb_eq in En. inversion Hnth; subst thn.
    eapply tstep_submit; [exact Ht|]. apply (F (length l1)); [apply nth_error_mid|lia].
  - eapply F; eauto.
Qed.

Lemma subinv_init : forall progs, submitters_only progs -> subinv (init progs).
Proof.
  intros progs H t th Hn Hne. unfold init in Hn. cbn [c_thr] in Hn. rewrite nth_error_map in Hn.
  destruct (nth_error progs t) as [p|] eqn:E; inversion Hn; subst.
  unfold submit_thread. cbn. rewrite (H _ _ E Hne). reflexivity.
Qed.

(* ------------------------------------------------------------------ the least entry *)
Lemma entry_le_total : forall a b, entry_le a b = false -> entry_le b a = true.
Proof.
  intros [[pa ca] sa] [[pb cb] sb]. unfold entry_le, e_prio, e_cnt. cbn [fst snd]. intros H.
  apply orb_false_iff in H. destruct H as [H1 H2]. apply Z.ltb_ge in H1.
  destruct (pb <? pa)%Z eqn:E; [reflexivity|]. apply Z.ltb_ge in E. cbn [orb].
  assert (pa = pb) by lia. subst. rewrite Z.eqb_refl in *. cbn [andb] in *.
  apply Nat.leb_gt in H2. apply Nat.leb_le. lia.
Qed.
Lemma entry_le_trans : forall a b c, entry_le a b = true -> entry_le b c = true -> entry_le a c = true.
Proof.
  intros [[pa ca] sa] [[pb cb] sb] [[pc cc] sc]. unfold entry_le, e_prio, e_cnt. cbn [fst snd]. intros H1 H2.
  apply orb_true_iff in H1. apply orb_true_iff in H2. apply orb_true_iff.
  rewrite !andb_true_iff, !Z.ltb_lt, !Z.eqb_eq, !Nat.leb_le in *. lia.
Qed.

Lemma pop_min_in : forall q l m l', pop_min q l = Some (m, l') ->
  In (q, m) l /\ (forall x, In x l -> x = (q, m) \/ In x l') /\ (forall x, In x l' -> In x l) /\
  (forall e, In (q, e) l -> entry_le m e = true).
Proof.
  induction l as [|[q' e'] r IH]; intros m l' H; cbn [pop_min] in H; [discriminate|].
  destruct (q' =? q) eqn:Eq.
  - apply Nat.eqb_eq in Eq. subst q'.
    destruct (pop_min q r) as [[m0 r0]|] eqn:Er.
    + destruct (IH _ _ eq_refl) as (I1 & I2 & I3 & I4).
      destruct (entry_le e' m0) eqn:El; inversion H; subst; clear H.
      * repeat split.
        -- left; reflexivity.
        -- intros x [X|X]; [left; auto|right; exact X].
        -- intros x X. right. exact X.
        -- intros e [X|X].
           ++ inversion X; subst. destruct (entry_le e e) eqn:Ee; [reflexivity|]. apply entry_le_total in Ee as Ee'. congruence.
           ++ eapply entry_le_trans; [exact El|]. apply I4. exact X.
      * repeat split.
        -- right. exact I1.
        -- intros x [X|X]; [right; left; exact X|]. destruct (I2 x X); [left|right; right]; assumption.
        -- intros x [X|X]; [left; exact X|right; apply I3; exact X].
        -- intros e [X|X].
           ++ inversion X; subst. apply entry_le_total. exact El.
           ++ apply I4. exact X.
    + injection H as Hm Hl. subst m l'. repeat split.
      * left; reflexivity.
      * intros x [X|X]; [left; auto|right; exact X].
      * intros x X; right; exact X.
      * intros e [X|X].
        -- inversion X; subst. destruct (entry_le e e) eqn:Ee; [reflexivity|]. apply entry_le_total in Ee as Ee'. congruence.
        -- exfalso. apply pop_min_none in Er. unfold q_empty in Er. apply negb_true_iff in Er.
           assert (existsb (fun x => fst x =? q) r = true); [|congruence].
           apply existsb_exists. exists (q, e). split; [exact X|]. cbn. apply Nat.eqb_refl.
  - destruct (pop_min q r) as [[m0 r0]|] eqn:Er; [|discriminate].
    destruct (IH _ _ eq_refl) as (I1 & I2 & I3 & I4). inversion H; subst; clear H.
    apply Nat.eqb_neq in Eq. repeat split.
    + right; exact I1.
    + intros x [X|X]; [right; left; exact X|]. destruct (I2 x X); [left|right; right]; assumption.
    + intros x [X|X]; [left; exact X|right; apply I3; exact X].
    + intros e [X|X]; [inversion X; congruence|apply I4; exact X].
Qed.

Lemma nth_mid_cases : forall {A} (l1 : list A) x y l2 n a, nth_error (l1 ++ y :: l2) n = Some a ->
  (n = length l1 /\ a = y) \/ (n <> length l1 /\ nth_error (l1 ++ x :: l2) n = Some a).
Proof.
  intros A l1 x y l2 n a H. rewrite (nth_error_upd_mid l1 x) in H. destruct (n =? length l1) eqn:E.
  - left. apply Nat.eqb_eq in E. inversion H; auto.
  - right. apply Nat.eqb_neq in E. auto.
Qed.

(* ------------------------------------------------------------------ counters *)
Definition plog (st : cstate) := h_putlog (c_sh st).

Record cinv (st : cstate) : Prop := {
  c1 : forall u q e, In (u, (q, e)) (plog st) -> e_cnt e < aget (h_cnt (c_sh st)) q;
  c3 : forall t th s q c lk, nth_error (c_thr st) t = Some th -> t_pc th = PE s (EPut q c lk) ->
         c < aget (h_cnt (c_sh st)) q /\ forall e, In (t, (q, e)) (plog st) -> e_cnt e < c;
  c4 : forall l1 t q e2 l2, plog st = l1 ++ (t, (q, e2)) :: l2 ->
         forall e1, In (t, (q, e1)) l2 -> e_cnt e1 < e_cnt e2
}.

Lemma cinv_same : forall l1 th l2 th' h h',
  cinv {| c_thr := l1 ++ th :: l2; c_sh := h |} ->
  h_cnt h' = h_cnt h -> h_putlog h' = h_putlog h -> not_put_pc (t_pc th') ->
  cinv {| c_thr := l1 ++ th' :: l2; c_sh := h' |}.
Proof.
  intros l1 th l2 th' h h' [C1 C3 C4] Ec Ep Np. unfold plog in *. cbn [c_thr c_sh] in *.
  split; unfold plog; cbn [c_thr c_sh]; rewrite ?Ec, ?Ep; auto.
  intros t thn s q c lk Hn Hpc. destruct (nth_mid_cases l1 th _ _ _ _ Hn) as [(-> & ->)|(Ne & Hn')].
  - exfalso. eapply Np; eauto.
  - eapply C3; eauto.
Qed.

Lemma cinv_step : forall t st, cinv st -> cinv (step t st).
Proof.
  intros t st C. destruct (step_cases t st) as [E|(l1 & th & l2 & th' & h' & Hl & Hn & Ht & E)].
  { now rewrite E. }
  rewrite E. destruct st as [thr h]. cbn [c_thr c_sh] in *. subst thr. subst t.
  destruct (tstep_kind _ _ _ _ _ Ht) as [K|[K|[K|[K|[K|K]]]]].
  - destruct K as (A & B & Cc & D & F & _). eapply cinv_same; eauto.
  - destruct K as (s & q & lk & P1 & P2 & Ec & _ & _ & Ep & _).
    destruct C as [C1 C3 C4]. unfold plog in *. cbn [c_thr c_sh] in *.
    split; unfold plog; cbn [c_thr c_sh]; rewrite ?Ec, ?Ep; auto.
    + intros u q' e He. rewrite aget_aset. specialize (C1 _ _ _ He).
      destruct (q =? q') eqn:Eq; [apply Nat.eqb_eq in Eq; subst; lia|exact C1].
    + intros t thn s' q' c lk' Hnth Hpc.
      destruct (nth_mid_cases l1 th _ _ _ _ Hnth) as [(-> & ->)|(Ne & Hn')].
      * rewrite P2 in Hpc. inversion Hpc; subst. rewrite aget_aset, Nat.eqb_refl. split; [lia|].
        intros e He. eapply C1; eauto.
      * destruct (C3 _ _ _ _ _ _ Hn' Hpc) as [X Y]. split; [|exact Y].
        rewrite aget_aset. destruct (q =? q') eqn:Eq; [apply Nat.eqb_eq in Eq; subst; lia|exact X].
  - destruct K as (s & q & c & lk & P1 & _ & Ep & Ec & _ & _ & Np & _).
    destruct C as [C1 C3 C4]. unfold plog in *. cbn [c_thr c_sh] in *.
    assert (Hu : nth_error (l1 ++ th :: l2) (length l1) = Some th) by apply nth_error_mid.
    destruct (C3 _ _ _ _ _ _ Hu P1) as [U1 U2].
    split; unfold plog; cbn [c_thr c_sh]; rewrite ?Ec, ?Ep.
    + intros u q' e [He|He]; [inversion He; subst; exact U1|eapply C1; eauto].
    + intros t thn s' q' c' lk' Hnth Hpc.
      destruct (nth_mid_cases l1 th _ _ _ _ Hnth) as [(-> & ->)|(Ne & Hn')].
      * exfalso. eapply Np; eauto.
      * destruct (C3 _ _ _ _ _ _ Hn' Hpc) as [X Y]. split; [exact X|].
        intros e [He|He]; [inversion He; congruence|auto].
    + intros k1 t q' e2 k2 Hs e1 He1. destruct k1 as [|x k1]; cbn [app] in Hs; inversion Hs; subst.
      * cbn [e_cnt fst snd]. apply U2. exact He1.
      * eapply C4; eauto.
  - destruct K as (e & pend' & _ & _ & _ & Ep & Ec & _ & Np & _). eapply cinv_same; eauto.
  - destruct K as (e & pend' & _ & _ & Pc & _ & Ep & Ec & _). eapply cinv_same; eauto.
    intros s q c lk X. rewrite Pc in X. discriminate.
  - destruct K as (e & _ & _ & _ & Ep & Ec & _ & Np & _). eapply cinv_same; eauto.
Qed.

Lemma cinv_init : forall progs, cinv (init progs).
Proof.
  intros; split; unfold plog; cbn.
  - contradiction.
  - intros t th s q c lk H Hp. rewrite (init_nth _ _ _ H) in Hp. discriminate.
  - intros l1 t q e2 l2 H. destruct l1; discriminate.
Qed.

(* ------------------------------------------------------------------ where the logged entries are *)
Definition psid (x : nat * (nat * entry)) : nat := e_sid (snd (snd x)).
Definition hold0 (thr : list thread) (h : shared) (q : nat) (e : entry) : Prop :=
  exists th0, nth_error thr 0 = Some th0 /\ t_pc th0 = PCPutBack e /\ h_active h = q.

Record pinv (st : cstate) : Prop := {
  p_sub : subinv st;
  p_nd : NoDup (places st);
  p2 : forall q e, In (q, e) (h_pend (c_sh st)) -> exists u, In (u, (q, e)) (plog st);
  p6 : forall u q e, In (u, (q, e)) (plog st) ->
         In (q, e) (h_pend (c_sh st)) \/ In (e_sid e) (h_disp (c_sh st)) \/ hold0 (c_thr st) (c_sh st) q e;
  p7 : forall e, hold0 (c_thr st) (c_sh st) (h_active (c_sh st)) e -> exists u, In (u, (h_active (c_sh st), e)) (plog st);
  pu : NoDup (map psid (plog st))
}.

Lemma NoDup_app_disjoint : forall {A} (a b : list A) x, NoDup (a ++ b) -> In x a -> In x b -> False.
Proof.
  induction a as [|y a IH]; intros b x H Ha Hb; [contradiction|].
  cbn in H. inversion H; subst. destruct Ha as [->|Ha].
  - apply H2. apply in_or_app. right. exact Hb.
  - eapply IH; eauto.
Qed.

Lemma step_nodup : forall t st, NoDup (places st) -> NoDup (places (step t st)).
Proof.
  intros t st H. eapply Permutation_NoDup; [|exact H]. apply cnt_perm. intros x. symmetry. apply step_places.
Qed.

Lemma hold0_fwd : forall l1 th l2 th' h h' q e,
  (length l1 <> 0 -> h_active h' = h_active h) -> not_hold (t_pc th) ->
  hold0 (l1 ++ th :: l2) h q e -> hold0 (l1 ++ th' :: l2) h' q e.
Proof.
  intros l1 th l2 th' h h' q e Ha Nh (th0 & H0 & Hp & Hq).
  destruct l1 as [|x l1]; cbn [app nth_error] in *.
  - inversion H0; subst. exfalso. eapply Nh; eauto.
  - exists th0. repeat split; auto. rewrite Ha by (cbn; lia). exact Hq.
Qed.

Lemma hold0_bwd : forall l1 th l2 th' h h' q e,
  (length l1 <> 0 -> h_active h' = h_active h) -> not_hold (t_pc th') ->
  hold0 (l1 ++ th' :: l2) h' q e -> hold0 (l1 ++ th :: l2) h q e.
Proof.
  intros l1 th l2 th' h h' q e Ha Nh (th0 & H0 & Hp & Hq).
  destruct l1 as [|x l1]; cbn [app nth_error] in *.
  - inversion H0; subst. exfalso. eapply Nh; eauto.
  - exists th0. repeat split; auto. rewrite <- Ha by (cbn; lia). exact Hq.
Qed.

Lemma in_unput : forall st t th x, nth_error (c_thr st) t = Some th -> In x (thr_unput th) -> In x (unput st).
Proof. intros. unfold unput. apply in_flat_map. exists th. split; [eapply nth_error_In; eauto|assumption]. Qed.
Lemma in_held : forall st t th x, nth_error (c_thr st) t = Some th -> In x (thr_held th) -> In x (held st).
Proof. intros. unfold held. apply in_flat_map. exists th. split; [eapply nth_error_In; eauto|assumption]. Qed.

(* a signal still to be put is not in the put log *)
Lemma unput_fresh : forall st t th x, pinv st -> nth_error (c_thr st) t = Some th -> In x (thr_unput th) ->
  ~ In x (map psid (plog st)).
Proof.
  intros st t th x P Ht Hx Hin. apply in_map_iff in Hin. destruct Hin as ([u [q e]] & Hs & Hi).
  unfold psid in Hs. cbn [snd] in Hs. subst x.
  pose proof (in_unput _ _ _ _ Ht Hx) as U.
  apply (NoDup_app_disjoint _ _ _ (p_nd _ P) U).
  destruct (p6 _ P _ _ _ Hi) as [X|[X|(th0 & H0 & Hp & _)]].
  - apply in_or_app; right. apply in_or_app; left. unfold pending. apply in_map_iff. exists (q, e). auto.
  - apply in_or_app; right. apply in_or_app; right. apply in_or_app; left. exact X.
  - apply in_or_app; left. eapply in_held; [exact H0|]. unfold thr_held. rewrite Hp. cbn. auto.
Qed.

Lemma pinv_step : forall t st, pinv st -> pinv (step t st).
Proof.
  intros t st P. pose proof (subinv_step t st (p_sub _ P)) as S'. pose proof (step_nodup t st (p_nd _ P)) as N'.
  destruct (step_cases t st) as [E|(l1 & th & l2 & th' & h' & Hl & Hn & Ht & E)].
  { now rewrite E. }
  rewrite E in *. destruct st as [thr h]. cbn [c_thr c_sh] in *. subst thr. subst t.
  assert (Hu : nth_error (l1 ++ th :: l2) (length l1) = Some th) by apply nth_error_mid.
  assert (Hact : submit_thread th = true -> h_active h' = h_active h).
  { intros X. eapply tstep_submit; eauto. }
  assert (Hsub : length l1 <> 0 -> submit_thread th = true).
  { intros X. apply (p_sub _ P (length l1) th Hu X). }
  assert (Hact' : length l1 <> 0 -> h_active h' = h_active h) by auto.
  destruct P as [PS PN P2 P6 P7 PU]. unfold plog in *. cbn [c_thr c_sh] in *.
  destruct (tstep_kind _ _ _ _ _ Ht) as [K|[K|[K|[K|[K|K]]]]].
  - (* other *)
    destruct K as (Ep & Ed & El & _ & _ & Nh & Nh' & _).
    split; unfold plog; cbn [c_thr c_sh]; rewrite ?Ep, ?Ed, ?El; [exact S'|exact N'|exact P2| | |exact PU].
    + intros u q e He. destruct (P6 _ _ _ He) as [X|[X|X]]; auto. right; right. apply (hold0_fwd l1 th l2 th' h h'); auto.
    + intros e He. apply (hold0_bwd l1 th l2 th' h h') in He; [|assumption|assumption].
      destruct He as (th0 & H0 & Hp & Hq). rewrite <- Hq. apply P7. exists th0; auto.
  - (* counter *)
    destruct K as (s & q & lk & Pc & Pc' & _ & Ep & Ed & El & Ea).
    assert (Nh : not_hold (t_pc th)) by (intros e X; congruence).
    assert (Nh' : not_hold (t_pc th')) by (intros e X; congruence).
    split; unfold plog; cbn [c_thr c_sh]; rewrite ?Ep, ?Ed, ?El, ?Ea; [exact S'|exact N'|exact P2| | |exact PU].
    + intros u q' e He. destruct (P6 _ _ _ He) as [X|[X|X]]; auto. right; right. apply (hold0_fwd l1 th l2 th' h h'); auto.
    + intros e He. apply (hold0_bwd l1 th l2 th' h h') in He; [|assumption|assumption].
      destruct He as (th0 & H0 & Hp & Hq). apply P7. exists th0; auto.
  - (* put *)
    destruct K as (s & q & c & lk & Pc & Ep & El & _ & Ed & Ea & _ & Nh').
    assert (Nh : not_hold (t_pc th)) by (intros e X; congruence).
    split; unfold plog; cbn [c_thr c_sh]; rewrite ?Ep, ?Ed, ?El, ?Ea; [exact S'|exact N'| | | |].
    + intros q' e He. apply in_app_or in He. destruct He as [He|[He|[]]].
      * destruct (P2 _ _ He) as (u & X). exists u. right. exact X.
      * inversion He; subst. eexists. left. reflexivity.
    + intros u q' e [He|He].
      * inversion He; subst. left. apply in_or_app. right. left. reflexivity.
      * destruct (P6 _ _ _ He) as [X|[X|X]]; auto.
        -- left. apply in_or_app. left. exact X.
        -- right; right. apply (hold0_fwd l1 th l2 th' h h'); auto.
    + intros e He. apply (hold0_bwd l1 th l2 th' h h') in He; [|assumption|assumption].
      destruct He as (th0 & H0 & Hp & Hq). destruct (P7 e) as (u & X); [exists th0; auto|]. exists u. right. exact X.
    + cbn [map]. constructor; [|exact PU].
      change (psid (length l1, (q, (s_prio s, c, s_id s)))) with (s_id s).
      apply (unput_fresh {| c_thr := l1 ++ th :: l2; c_sh := h |} (length l1) th).
      * split; auto.
      * exact Hu.
      * unfold thr_unput. rewrite Pc. cbn. auto.
  - (* dispatch *)
    destruct K as (e & pend' & Hpop & Ep & Ed & El & _ & Ea & _ & Nh & Nh' & _).
    destruct (pop_min_in _ _ _ _ Hpop) as (I1 & I2 & I3 & _).
    split; unfold plog; cbn [c_thr c_sh]; rewrite ?Ep, ?Ed, ?El, ?Ea; [exact S'|exact N'| | | |exact PU].
    + intros q' e' He. apply P2. apply I3. exact He.
    + intros u q' e' He. destruct (P6 _ _ _ He) as [X|[X|X]].
      * destruct (I2 _ X) as [Y|Y]; [|left; exact Y]. inversion Y; subst. right; left. apply in_or_app. right. cbn. auto.
      * right; left. apply in_or_app. left. exact X.
      * right; right. apply (hold0_fwd l1 th l2 th' h h'); auto.
    + intros e' He. apply (hold0_bwd l1 th l2 th' h h') in He; [|assumption|assumption].
      destruct He as (th0 & H0 & Hp & Hq). apply P7. exists th0; auto.
  - (* get of another priority: held *)
    destruct K as (e & pend' & Hpop & Ep & Pc' & Ed & El & _ & Ea & Nh & Sf).
    destruct (pop_min_in _ _ _ _ Hpop) as (I1 & I2 & I3 & _).
    assert (L0 : length l1 = 0).
    { destruct (Nat.eq_dec (length l1) 0); auto. rewrite Hsub in Sf by assumption. discriminate. }
    destruct l1; [|discriminate L0]. cbn [app] in *.
    split; unfold plog; cbn [c_thr c_sh]; rewrite ?Ep, ?Ed, ?El, ?Ea; [exact S'|exact N'| | | |exact PU].
    + intros q' e' He. apply P2. apply I3. exact He.
    + intros u q' e' He. destruct (P6 _ _ _ He) as [X|[X|X]]; auto.
      * destruct (I2 _ X) as [Y|Y]; [|left; exact Y]. inversion Y; subst. right; right.
        exists th'. cbn. auto.
      * destruct X as (th0 & H0 & Hp & _). cbn in H0. inversion H0; subst. exfalso. eapply Nh; eauto.
    + intros e' (th0 & H0 & Hp & _). cbn in H0. inversion H0; subst. rewrite Pc' in Hp. inversion Hp; subst.
      apply P2. exact I1.
  - (* put back *)
    destruct K as (e & Pc & Ep & Ed & El & _ & Ea & _ & Nh').
    assert (L0 : length l1 = 0).
    { destruct (Nat.eq_dec (length l1) 0); auto. specialize (Hsub n). unfold submit_thread in Hsub. rewrite Pc in Hsub.
      cbn in Hsub. rewrite andb_false_r in Hsub. discriminate. }
    destruct l1; [|discriminate L0]. cbn [app] in *.
    split; unfold plog; cbn [c_thr c_sh]; rewrite ?Ep, ?Ed, ?El, ?Ea; [exact S'|exact N'| | | |exact PU].
    + intros q' e' He. apply in_app_or in He. destruct He as [He|[He|[]]]; [apply P2; exact He|].
      inversion He; subst. apply P7. exists th. cbn. auto.
    + intros u q' e' He. destruct (P6 _ _ _ He) as [X|[X|X]]; auto.
      * left. apply in_or_app. left. exact X.
      * destruct X as (th0 & H0 & Hp & Hq). cbn in H0. inversion H0; subst. rewrite Pc in Hp. inversion Hp; subst.
        left. apply in_or_app. right. cbn. auto.
    + intros e' (th0 & H0 & Hp & _). cbn in H0. inversion H0; subst. exfalso. eapply Nh'; eauto.
Qed.

Lemma pinv_init : forall progs, submitters_only progs -> NoDup (all_sids progs) -> pinv (init progs).
Proof.
  intros progs S N. split; unfold plog.
  - apply subinv_init. exact S.
  - rewrite init_places, app_nil_r. exact N.
  - cbn. contradiction.
  - cbn. contradiction.
  - intros e (th0 & H0 & Hp & _). rewrite (init_nth _ _ _ H0) in Hp. discriminate.
  - cbn. constructor.
Qed.

(* ------------------------------------------------------------------ dispatch order *)
Definition dinv (st : cstate) : Prop :=
  forall l1 t q e2 l2, plog st = l1 ++ (t, (q, e2)) :: l2 ->
  forall e1, In (t, (q, e1)) l2 -> e_prio e1 = e_prio e2 -> In (e_sid e2) (h_disp (c_sh st)) ->
  exists d1 d2 d3, h_disp (c_sh st) = d1 ++ e_sid e1 :: d2 ++ e_sid e2 :: d3.

Lemma nodup_map_inj : forall {A} (f : A -> nat) l x y, NoDup (map f l) -> In x l -> In y l -> f x = f y -> x = y.
Proof.
  induction l as [|a l IH]; intros x y N Hx Hy E; [contradiction|].
  cbn in N. inversion N; subst. destruct Hx as [->|Hx]; destruct Hy as [->|Hy]; auto.
  - exfalso. apply H1. rewrite E. apply in_map. exact Hy.
  - exfalso. apply H1. rewrite <- E. apply in_map. exact Hx.
Qed.

Lemma dinv_step : forall t st, cinv st -> pinv st -> dinv st -> dinv (step t st).
Proof.
  intros t st C P D. destruct (step_cases t st) as [E|(l1 & th & l2 & th' & h' & Hl & Hn & Ht & E)].
  { now rewrite E. }
  rewrite E in *. destruct st as [thr h]. cbn [c_thr c_sh] in *. subst thr. subst t.
  assert (Hu : nth_error (l1 ++ th :: l2) (length l1) = Some th) by apply nth_error_mid.
  unfold dinv, plog in *. cbn [c_thr c_sh] in *.
  destruct (tstep_kind _ _ _ _ _ Ht) as [K|[K|[K|[K|[K|K]]]]].
  - destruct K as (_ & Ed & El & _). rewrite Ed, El. exact D.
  - destruct K as (s & q & lk & _ & _ & _ & _ & Ed & El & _). rewrite Ed, El. exact D.
  - destruct K as (s & q & c & lk & Pc & _ & El & _ & Ed & _). rewrite Ed, El.
    intros k1 t q' e2 k2 Hs e1 He1 Hp Hd. destruct k1 as [|x k1]; cbn [app] in Hs; inversion Hs; subst.
    + exfalso. cbn [e_sid snd] in Hd.
      assert (U : In (s_id s) (unput {| c_thr := l1 ++ th :: l2; c_sh := h |})).
      { eapply in_unput; [exact Hu|]. unfold thr_unput. rewrite Pc. cbn. auto. }
      apply (NoDup_app_disjoint _ _ _ (p_nd _ P) U).
      apply in_or_app; right. apply in_or_app; right. apply in_or_app; left. exact Hd.
    + eapply D; eauto.
  - destruct K as (e & pend' & Hpop & _ & Ed & El & _ & _ & _ & Nh & _ & Sf). rewrite Ed, El.
    destruct (pop_min_in _ _ _ _ Hpop) as (I1 & _ & _ & I4).
    intros k1 t q' e2 k2 Hs e1 He1 Hp Hd.
    apply in_app_or in Hd. destruct Hd as [Hd|[Hd|[]]].
    + destruct (D _ _ _ _ _ Hs _ He1 Hp Hd) as (d1 & d2 & d3 & X).
      exists d1, d2, (d3 ++ [e_sid e]). rewrite X. repeat (rewrite <- ?app_assoc; cbn [app]). reflexivity.
    + (* the entry dispatched now is e2 *)
      destruct (p2 _ P _ _ I1) as (u & Iu). unfold plog in Iu. cbn [c_sh] in Iu.
      assert (X : (u, (h_active h, e)) = (t, (q', e2))).
      { eapply (nodup_map_inj psid); [exact (pu _ P)|exact Iu| |].
        - unfold plog. cbn [c_sh]. rewrite Hs. apply in_or_app. right. left. reflexivity.
        - unfold psid. cbn [snd]. exact Hd. }
      inversion X; subst u q' e2. clear X.
      assert (I1' : In (t, (h_active h, e1)) (h_putlog h)).
      { rewrite Hs. apply in_or_app. right. right. exact He1. }
      pose proof (c4 _ C _ _ _ _ _ Hs _ He1) as Lt.
      destruct (p6 _ P _ _ _ I1') as [Y|[Y|Y]].
      * exfalso. specialize (I4 _ Y). unfold entry_le in I4. rewrite Hp in I4.
        rewrite Z.ltb_irrefl, Z.eqb_refl in I4. cbn in I4. apply Nat.leb_le in I4. lia.
      * cbn [c_sh] in Y. apply in_split in Y. destruct Y as (d1 & d2 & Y).
        exists d1, d2, []. rewrite Y. rewrite <- app_assoc. reflexivity.
      * exfalso. destruct Y as (th0 & H0 & Hp0 & _). cbn [c_thr] in H0.
        destruct l1 as [|x l1]; cbn [app nth_error] in H0.
        -- inversion H0; subst. eapply Nh; eauto.
        -- rewrite (p_sub _ P (length (x :: l1)) th Hu) in Sf by (cbn; lia). discriminate.
  - destruct K as (e & pend' & _ & _ & _ & Ed & El & _). rewrite Ed, El. exact D.
  - destruct K as (e & _ & _ & Ed & El & _). rewrite Ed, El. exact D.
Qed.

(* ------------------------------------------------------------------ the put log follows the program *)
Lemma tstep_unput : forall u th h th' h', tstep u th h = Some (th', h') ->
  (thr_unput th' = thr_unput th \/ exists x, thr_unput th = x :: thr_unput th') /\
  (forall s q c lk, t_pc th = PE s (EPut q c lk) -> thr_unput th = s_id s :: thr_unput th').
Proof.
  intros u [prog p] h th' h' H. inv_tstep H.
  all: unfold thr_unput, mk; cbn [t_pc t_prog pc_unput prog_sids flat_map act_sids app].
  all: split; [eauto|]; try discriminate.
  all: try (intros s' q' c' lk' X; inversion X; subst; reflexivity).
  all: try (destruct b; cbn [pc_unput app]; eauto).
  all: try (match goal with |- context [match ?l with [] => _ | _ :: _ => _ end] => destruct l end; cbn [pc_unput app]; eauto).
Qed.

Section Prog.
  Variable progs : list (list action).

  Record ginv (st : cstate) : Prop := {
    g1 : forall t th p, nth_error (c_thr st) t = Some th -> nth_error progs t = Some p ->
           exists pre, prog_sids p = pre ++ thr_unput th /\
                       forall q e, In (t, (q, e)) (plog st) -> In (e_sid e) pre;
    g2 : forall l1 t q2 e2 l2 p, plog st = l1 ++ (t, (q2, e2)) :: l2 -> nth_error progs t = Some p ->
           forall q1 e1, In (t, (q1, e1)) l2 ->
           exists a b c, prog_sids p = a ++ e_sid e1 :: b ++ e_sid e2 :: c
  }.

  Lemma ginv_step : forall t st, ginv st -> ginv (step t st).
  Proof.
    intros t st G. destruct (step_cases t st) as [E|(l1 & th & l2 & th' & h' & Hl & Hn & Ht & E)].
    { now rewrite E. }
    rewrite E in *. destruct st as [thr h]. cbn [c_thr c_sh] in *. subst thr. subst t.
    assert (Hu : nth_error (l1 ++ th :: l2) (length l1) = Some th) by apply nth_error_mid.
    destruct (tstep_unput _ _ _ _ _ Ht) as [Un Up].
    destruct G as [G1 G2]. unfold plog in *. cbn [c_thr c_sh] in *.
    assert (Same : h_putlog h' = h_putlog h -> ginv {| c_thr := l1 ++ th' :: l2; c_sh := h' |}).
    { intros El. split; unfold plog; cbn [c_thr c_sh]; rewrite El; [|exact G2].
      intros t thn p Hnth Hp. destruct (nth_mid_cases l1 th _ _ _ _ Hnth) as [(-> & ->)|(Ne & Hn')].
      - destruct (G1 _ _ _ Hu Hp) as (pre & X & Y). destruct Un as [Un|(x & Un)].
        + exists pre. rewrite Un. auto.
        + exists (pre ++ [x]). rewrite X, Un, <- app_assoc. split; [reflexivity|].
          intros q e He. apply in_or_app. left. eauto.
      - eapply G1; eauto. }
    destruct (tstep_kind _ _ _ _ _ Ht) as [K|[K|[K|[K|[K|K]]]]].
    - destruct K as (_ & _ & El & _). auto.
    - destruct K as (s & q & lk & _ & _ & _ & _ & _ & El & _). auto.
    - destruct K as (s & q & c & lk & Pc & _ & El & _).
      specialize (Up _ _ _ _ Pc).
      split; unfold plog; cbn [c_thr c_sh]; rewrite El.
      + intros t thn p Hnth Hp. destruct (nth_mid_cases l1 th _ _ _ _ Hnth) as [(-> & ->)|(Ne & Hn')].
        * destruct (G1 _ _ _ Hu Hp) as (pre & X & Y).
          exists (pre ++ [s_id s]). rewrite X, Up, <- app_assoc. split; [reflexivity|].
          intros q' e [He|He]; apply in_or_app.
          -- inversion He; subst. right. cbn. auto.
          -- left. eauto.
        * destruct (G1 _ _ _ Hn' Hp) as (pre & X & Y). exists pre. split; [exact X|].
          intros q' e [He|He]; [inversion He; congruence|eauto].
      + intros k1 t q2 e2 k2 p Hs Hp q1 e1 He1. destruct k1 as [|x k1]; cbn [app] in Hs; inversion Hs; subst.
        * destruct (G1 _ _ _ Hu Hp) as (pre & X & Y). specialize (Y _ _ He1).
          apply in_split in Y. destruct Y as (a & b & Y). exists a, b, (thr_unput th').
          rewrite X, Up, Y, <- app_assoc. reflexivity.
        * eapply G2; eauto.
    - destruct K as (e & pend' & _ & _ & _ & El & _). auto.
    - destruct K as (e & pend' & _ & _ & _ & _ & El & _). auto.
    - destruct K as (e & _ & _ & _ & El & _). auto.
  Qed.

  Lemma ginv_init : ginv (init progs).
  Proof.
    split; unfold plog; cbn [init c_thr c_sh h0 h_putlog].
    - intros t th p Hn Hp. rewrite nth_error_map, Hp in Hn. inversion Hn; subst. exists []. split; [reflexivity|contradiction].
    - intros l1 t q2 e2 l2 p H. destruct l1; discriminate.
  Qed.
End Prog.

Lemma nodup_split_unique : forall {A} (l : list A) x a1 r1 a2 r2, NoDup l ->
  l = a1 ++ x :: r1 -> l = a2 ++ x :: r2 -> a1 = a2.
Proof.
  intros A l x a1. revert l. induction a1 as [|y a1 IH]; intros l r1 a2 r2 N H1 H2.
  - destruct a2 as [|z a2]; [reflexivity|]. exfalso. subst l. cbn in H2. inversion H2; subst.
    inversion N; subst. apply H1. apply in_or_app. right. left. reflexivity.
  - destruct a2 as [|z a2].
    + exfalso. subst l. cbn in H2. inversion H2; subst. inversion N; subst. apply H1. apply in_or_app. right. left. reflexivity.
    + subst l. cbn in H2. inversion H2; subst. f_equal. inversion N; subst. eapply IH; eauto.
Qed.

Lemma before_antisym : forall {A} (l : list A) x y a b c a' b' c', NoDup l ->
  l = a ++ x :: b ++ y :: c -> l = a' ++ y :: b' ++ x :: c' -> False.
Proof.
  intros A l x y a b c a' b' c' N H1 H2.
  assert (H2' : l = (a' ++ y :: b') ++ x :: c') by (rewrite H2, <- app_assoc; reflexivity).
  pose proof (nodup_split_unique _ _ _ _ _ _ N H1 H2') as X. subst a.
  rewrite H1 in N. rewrite <- app_assoc in N. cbn [app] in N.
  apply NoDup_remove_2 in N. apply N. apply in_or_app; right. apply in_or_app; right. right. apply in_or_app; right. left; reflexivity.
Qed.

Lemma nodup_app_l : forall {A} (a b : list A), NoDup (a ++ b) -> NoDup a.
Proof. induction a as [|x a IH]; intros b H; [constructor|]. cbn in H. inversion H; subst. constructor; [|eapply IH; eauto]. intros X. apply H2. apply in_or_app. left. exact X. Qed.
Lemma nodup_app_r : forall {A} (a b : list A), NoDup (a ++ b) -> NoDup b.
Proof. induction a as [|x a IH]; intros b H; [exact H|]. cbn in H. inversion H; subst. eapply IH; eauto. Qed.

Lemma nodup_flat_map_nth : forall {A} (f : A -> list nat) l n a, NoDup (flat_map f l) -> nth_error l n = Some a -> NoDup (f a).
Proof.
  induction l as [|b l IH]; intros n a N H; [destruct n; discriminate|].
  cbn in N. destruct n; cbn in H.
  - inversion H; subst. eapply nodup_app_l; eauto.
  - eapply IH; eauto. eapply nodup_app_r; eauto.
Qed.

(* signals s1, s2 submitted by thread t in this order and put into the same queue q *)
Theorem thread_order : forall progs sch, submitters_only progs -> NoDup (all_sids progs) ->
  let st := steps sch (init progs) in
  forall t p a s1 b s2 c q e1 e2,
    nth_error progs t = Some p -> prog_sids p = a ++ s1 :: b ++ s2 :: c ->
    In (t, (q, e1)) (plog st) -> e_sid e1 = s1 -> In (t, (q, e2)) (plog st) -> e_sid e2 = s2 ->
    e_cnt e1 < e_cnt e2 /\
    (e_prio e1 = e_prio e2 -> In s2 (h_disp (c_sh st)) ->
     exists d1 d2 d3, h_disp (c_sh st) = d1 ++ s1 :: d2 ++ s2 :: d3).
Proof.
  intros progs sch S N st t p a s1 b s2 c q e1 e2 Hp Hord H1 E1 H2 E2.
  assert (I : cinv st /\ pinv st /\ dinv st /\ ginv progs st).
  { unfold st. apply (steps_inv (fun st => cinv st /\ pinv st /\ dinv st /\ ginv progs st)).
    - intros u st0 (A & B & C & D). split; [|split; [|split]].
      + apply cinv_step; auto.
      + apply pinv_step; auto.
      + apply dinv_step; auto.
      + apply ginv_step; auto.
    - split; [|split; [|split]].
      + apply cinv_init.
      + apply pinv_init; auto.
      + intros l1 t0 q0 e0 l2 H. destruct l1; discriminate.
      + apply ginv_init. }
  destruct I as (C & P & D & G).
  assert (Np : NoDup (prog_sids p)) by (eapply (nodup_flat_map_nth prog_sids); eauto).
  assert (Ne : s1 <> s2).
  { intros X. rewrite Hord in Np. apply NoDup_remove_2 in Np. apply Np.
    apply in_or_app. right. apply in_or_app. right. left. symmetry. exact X. }
  apply in_split in H2. destruct H2 as (k1 & k2 & Hs). rewrite Hs in H1.
  apply in_app_or in H1. destruct H1 as [H1|[H1|H1]].
  - exfalso. apply in_split in H1. destruct H1 as (j1 & j2 & Hj). rewrite Hj in Hs. rewrite <- app_assoc in Hs. cbn [app] in Hs.
    destruct (g2 _ _ G _ _ _ _ _ _ Hs Hp q e2) as (a' & b' & c' & X).
    { apply in_or_app. right. left. reflexivity. }
    rewrite E1, E2 in X. eapply before_antisym; eauto.
  - exfalso. inversion H1; subst. congruence.
  - split.
    + eapply (c4 _ C); eauto.
    + intros Hpr Hd. subst s1 s2. eapply D; eauto.
Qed.

(* ------------------------------------------------------------------ no deadlock, with submitters that only submit *)
Lemma submit_not_waiting : forall th h, submit_thread th = true -> waiting_get th h = false.
Proof.
  intros [prog p] h H. unfold submit_thread in H. cbn [t_pc t_prog] in H. apply andb_true_iff in H. destruct H as [A B].
  unfold waiting_get. cbn [t_pc t_prog]. destruct p; try discriminate B; auto.
  destruct prog as [|a r]; auto. destruct a; auto. discriminate A.
Qed.

Theorem no_deadlock_loop : forall progs sch, submitters_only progs ->
  let st := steps sch (init progs) in
  (exists t, enabled t st = true) \/
  (forall t th, nth_error (c_thr st) t = Some th ->
     finished th = true \/ (t = 0 /\ waiting_get th (c_sh st) = true)).
Proof.
  intros progs sch S st. destruct (no_deadlock progs sch) as [E|W]; [left; exact E|right].
  intros t th Ht. fold st in W. destruct (W t th Ht) as [F|X]; [left; exact F|right].
  split; [|exact X]. destruct (Nat.eq_dec t 0); auto. exfalso.
  assert (Sv : subinv st).
  { unfold st. apply steps_inv; [apply subinv_step|apply subinv_init; exact S]. }
  rewrite (submit_not_waiting th _ (Sv _ _ Ht n)) in X. discriminate.
Qed.

(* ------------------------------------------------------------------ the submission path never reads _run_loop *)
Definition with_run (b : bool) (h : shared) : shared := h <| h_run := b |>.

Lemma estep_ignores_run : forall t s e h b,
  estep t s e (with_run b h) =
  match estep t s e h with None => None | Some (e', h') => Some (e', with_run b h') end.
Proof.
  intros t s e h b. destruct h. unfold with_run.
  destruct e; unfold estep, lbl; cbn;
    repeat match goal with |- context [match ?x with _ => _ end] => destruct x end; reflexivity.
Qed.

(* a thread that only submits: its step is the same whatever the flag is, and leaves the flag alone *)
Lemma submit_ignores_run : forall t th h b, submit_thread th = true ->
  tstep t th (with_run b h) =
  match tstep t th h with None => None | Some (th', h') => Some (th', with_run b h') end.
Proof.
  intros t [prog p] h b S. unfold submit_thread in S. cbn [t_pc t_prog] in S.
  apply andb_true_iff in S. destruct S as [S1 S2].
  destruct p; try discriminate S2; unfold tstep; cbn [t_pc t_prog].
  - destruct prog as [|a r]; [reflexivity|]. cbn [forallb] in S1. apply andb_true_iff in S1. destruct S1 as [Sa _].
    destruct a; try discriminate Sa. unfold start, enq. rewrite estep_ignores_run.
    destruct (estep t s EFq h) as [[[e'|] h']|]; reflexivity.
  - unfold cont, enq. rewrite estep_ignores_run.
    destruct (estep t s e h) as [[[e'|] h']|]; reflexivity.
Qed.
