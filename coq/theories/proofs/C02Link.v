(* C02Link.v -- the world of a state's trace, "accepted so far", and the link facts C02 needs.
   (worker c02; same definitions of [world_of]/[W] as proofs/LoopLink.v so that switching is trivial) *)
From SL Require Import Tac.
From RecordUpdate Require Import RecordUpdate.
From SL Require Import LoopSem Monitors.
Import ListNotations.

Definition world_of (t : list event) : world := fold_left world_step t world0.
Definition accepted (chk : world -> event -> bool) (t : list event) : Prop := run_mon chk world0 t 0 = None.

Lemma run_mon_snoc chk t : forall w i e,
  run_mon chk w (t ++ [e]) i = None <-> run_mon chk w t i = None /\ chk (fold_left world_step t w) e = true.
Proof.
  induction t as [|a t IH]; intros w i e; cbn [app run_mon fold_left].
  - destruct (chk w e); split; intros H; try tauto; try discriminate.
    destruct H as [_ H]; discriminate.
  - destruct (chk w a). + apply IH. + split; [discriminate | intros [H _]; discriminate].
Qed.

Lemma accepted_snoc chk t e :
  accepted chk (t ++ [e]) <-> accepted chk t /\ chk (world_of t) e = true.
Proof. apply run_mon_snoc. Qed.

Lemma accepted_ok chk t : accepted chk t -> ok chk t = true.
Proof. unfold accepted, ok. intros ->. reflexivity. Qed.

Section W.
  Context {U : Type}.
  Definition W (s : lstate U) : world := world_of (rev (trace s)).
  Lemma W_trace (s s' : lstate U) e : trace s' = e :: trace s -> W s' = world_step (W s) e.
  Proof. unfold W, world_of. intros ->. cbn [rev]. rewrite fold_left_app. reflexivity. Qed.
  Lemma W_emit e (s : lstate U) : W (emit e s) = world_step (W s) e.
  Proof. apply W_trace. reflexivity. Qed.
End W.
Arguments W : simpl never.


(* ---------------------------------------------------------------- small list facts *)
Lemma lookup_find {A} cls (m : list (nat * A)) :
  lookup cls m = option_map snd (find (fun p => (fst p =? cls)%nat) m).
Proof.
  induction m as [|[k v] m IH]; cbn [lookup find fst]; [reflexivity|].
  rewrite (Nat.eqb_sym k cls). destruct (cls =? k)%nat; [reflexivity | exact IH].
Qed.

Lemma update_add_handler m c h d :
  update c (fun o => match o with Some l => l ++ [(h, d)] | None => [(h, d)] end) m = add_handler m c h d.
Proof.
  induction m as [|[k v] m IH]; cbn [update add_handler]; [reflexivity|].
  rewrite (Nat.eqb_sym k c). destruct (c =? k)%nat; [reflexivity | now rewrite IH].
Qed.

Lemma min_entry_in l : forall m, In (min_entry m l) (m :: l).
Proof.
  induction l as [|e l IH]; intros m; cbn [min_entry]; [now left|].
  specialize (IH (if entry_lt e m then e else m)).
  destruct (entry_lt e m); cbn [In] in *; tauto.
Qed.

Lemma remove_entry_subset c l e : In e (remove_entry c l) -> In e l.
Proof.
  induction l as [|a l IH]; cbn [remove_entry]; [tauto|].
  destruct (snd (fst a) =? c)%nat; cbn [In]; tauto.
Qed.

Lemma q_pop_spec q e q' :
  q_pop q = Some (e, q') -> In e (eq_entries q) /\ (forall x, In x (eq_entries q') -> In x (eq_entries q)).
Proof.
  unfold q_pop. destruct (eq_entries q) as [|a l] eqn:E; [discriminate|].
  intros H; inversion H; subst; clear H. split; [apply min_entry_in|].
  intros x Hx. change (In x (remove_entry (snd (fst (min_entry a l))) (a :: l))) in Hx.
  eapply remove_entry_subset; exact Hx.
Qed.

Lemma set_nth_in {A} (l : list A) : forall n x y, In y (set_nth l n x) -> y = x \/ In y l.
Proof.
  induction l as [|a l IH]; intros n x y; cbn [set_nth]; [destruct n; cbn; tauto|].
  destruct n; cbn [In]; [intuition auto|]. intros [H|H]; [auto|]. apply IH in H. tauto.
Qed.

Lemma nth_default_or_in {A} (l : list A) n d : nth n l d = d \/ In (nth n l d) l.
Proof. destruct (nth_in_or_default n l d); auto. Qed.

(* ---------------------------------------------------------------- signals known to the world *)
Definition sig_known (w : world) (nx : nat) (sg : signal) : Prop :=
  sg_id sg < nx /\ sig_cls w (sg_id sg) = sg_cls sg.
Definition sigs_ok (w : world) (nx : nat) (qs : list equeue) : Prop :=
  forall q ent, In q qs -> In ent (eq_entries q) -> sig_known w nx (snd ent).

Lemma sig_known_same w w' nx sg : w_sig w' = w_sig w -> sig_known w nx sg -> sig_known w' nx sg.
Proof. unfold sig_known, sig_cls. intros ->. auto. Qed.

Lemma sig_known_new w w' nx sg c p src :
  w_sig w' = (nx, (c, p, src)) :: w_sig w -> sig_known w nx sg -> sig_known w' (S nx) sg.
Proof.
  unfold sig_known, sig_cls. intros -> [Hlt Hc]. split; [lia|].
  cbn [lookup]. destruct (sg_id sg =? nx)%nat eqn:E; [apply Nat.eqb_eq in E; lia | exact Hc].
Qed.

Lemma sig_known_fresh w' nx sp l :
  w_sig w' = (nx, (sp_cls sp, sp_prio sp, sp_src sp)) :: l -> sig_known w' (S nx) (mk_signal nx sp).
Proof.
  unfold sig_known, sig_cls. intros ->. cbn [mk_signal sg_id sg_cls lookup]. rewrite Nat.eqb_refl. split; [lia|reflexivity].
Qed.

Lemma sigs_ok_same w w' nx qs : w_sig w' = w_sig w -> sigs_ok w nx qs -> sigs_ok w' nx qs.
Proof. intros E H q ent Hq He. eapply sig_known_same; eauto. Qed.

Lemma sigs_ok_new w w' nx qs c p src :
  w_sig w' = (nx, (c, p, src)) :: w_sig w -> sigs_ok w nx qs -> sigs_ok w' (S nx) qs.
Proof. intros E H q ent Hq He. eapply sig_known_new; eauto. Qed.

Lemma sigs_ok_set_nth w nx qs n x :
  sigs_ok w nx qs -> (forall ent, In ent (eq_entries x) -> sig_known w nx (snd ent)) ->
  sigs_ok w nx (set_nth qs n x).
Proof. intros H Hx q ent Hq He. apply set_nth_in in Hq as [->|Hq]; eauto. Qed.

Lemma sigs_ok_nth w nx qs n ent :
  sigs_ok w nx qs -> In ent (eq_entries (nth n qs empty_queue)) -> sig_known w nx (snd ent).
Proof.
  intros H He. destruct (nth_default_or_in qs n empty_queue) as [E|Hin].
  - rewrite E in He. destruct He.
  - eapply H; eauto.
Qed.

Lemma sigs_ok_app_empty w nx qs : sigs_ok w nx qs -> sigs_ok w nx (qs ++ [empty_queue]).
Proof.
  intros H q ent Hq He. apply in_app_or in Hq as [Hq|[<-|[]]]; [eauto | destruct He].
Qed.

(* ---------------------------------------------------------------- the link invariant *)
Section Link.
  Context {U : Type}.
  Implicit Types s : lstate U.

  Definition acc s : Prop := accepted chk_C02 (rev (trace s)).
  Definition hlen s (cls : nat) : nat := match handlers_of s cls with Some hs => length hs | None => 0 end.

  (* everything emitted so far was accepted by the C02 monitor; the world reconstructed from the trace
     agrees with the state; no kill so far; [n] = the monitor's exception-expectation state;
     [F] = the open dispatch frames *)
  Record good (n : nat) (F : list frame) s : Prop := {
    g_acc : acc s;
    g_hand : w_hand (W s) = handlers s;
    g_fq : w_fq (W s) = force_quit s;
    g_act : w_active (W s) = active s;
    g_lev : w_levels (W s) = levels s;
    g_sig : sigs_ok (W s) (next_sig s) (qstore s);
    g_nk : w_killed (W s) = false;
    g_exp : w_expect_exc (W s) = n;
    g_fr : w_frames (W s) = F }.

  Lemma acc_step s s' e : acc s -> trace s' = e :: trace s -> chk_C02 (W s) e = true -> acc s'.
  Proof. unfold acc. intros Ha -> Hc. cbn [rev]. apply accepted_snoc. split; assumption. Qed.

  Lemma good_step n F s n' F' s' e :
    good n F s -> trace s' = e :: trace s -> chk_C02 (W s) e = true ->
    w_hand (world_step (W s) e) = handlers s' ->
    w_fq (world_step (W s) e) = force_quit s' ->
    w_active (world_step (W s) e) = active s' ->
    w_levels (world_step (W s) e) = levels s' ->
    sigs_ok (world_step (W s) e) (next_sig s') (qstore s') ->
    w_killed (world_step (W s) e) = false ->
    w_expect_exc (world_step (W s) e) = n' ->
    w_frames (world_step (W s) e) = F' ->
    good n' F' s'.
  Proof.
    intros G Ht Hc. rewrite <- (W_trace s s' e Ht). intros. constructor; auto.
    eapply acc_step; eauto. apply G.
  Qed.

  (* a state change that touches neither the trace nor the linked fields *)
  Lemma good_same n F s s' :
    good n F s -> trace s' = trace s -> handlers s' = handlers s -> force_quit s' = force_quit s ->
    active s' = active s -> levels s' = levels s -> next_sig s' = next_sig s ->
    sigs_ok (W s) (next_sig s) (qstore s') -> good n F s'.
  Proof.
    intros [] Ht Hh Hf Ha Hl Hn Hs.
    assert (EW : W s' = W s) by (unfold W; now rewrite Ht).
    constructor; rewrite ?EW, ?Hh, ?Hf, ?Ha, ?Hl, ?Hn; auto. unfold acc. now rewrite Ht.
  Qed.

  Lemma hand_link n F s cls : good n F s -> hand (W s) cls = handlers_of s cls.
  Proof. intros G. unfold hand, handlers_of. rewrite (g_hand _ _ _ G). apply lookup_find. Qed.

  (* events the C02 monitor has no opinion about (outside the exception window, before any kill) *)
  Definition neutral (e : event) : bool :=
    match e with
    | EHandler _ _ _ | EHandlerEnd _ _ _ | EDispatchEnd _ | EKill => false
    | _ => true
    end.
  Lemma chk_neutral w e : w_killed w = false -> w_expect_exc w = 0 -> neutral e = true -> chk_C02 w e = true.
  Proof. unfold chk_C02. intros -> -> H. destruct e; try reflexivity; discriminate. Qed.

  Lemma route_none s l : route s l None = None.
  Proof. induction l as [|q l IH]; cbn [route q_contains_source]; auto. Qed.

  (* ---- events that change nothing the link looks at ---- *)
  Definition passive (e : event) : bool :=
    match e with
    | ERegSource _ _ | ESetQuitCb _ | EEnq _ _ | EDropped _ | ERequeue _ _ | ENewLoopReturn _
    | EProcEnter _ _ | EProcReturn _ _ | EQuitCb _ | ERunReturn | EExt _ | EMark _ | EUser _ _ _ => true
    | _ => false
    end.

  Lemma ws_passive w e : passive e = true -> w_expect_exc w = 0 ->
    let w' := world_step w e in
    w_hand w' = w_hand w /\ w_fq w' = w_fq w /\ w_active w' = w_active w /\ w_levels w' = w_levels w /\
    w_sig w' = w_sig w /\ w_killed w' = w_killed w /\ w_expect_exc w' = 0 /\ w_frames w' = w_frames w.
  Proof.
    intros Hp He. destruct e as [| | | | | | | | | | | | | |wt tk|wt tk| | | | | | | | |]; try discriminate Hp;
      cbn [world_step]; rewrite ?He; cbn [Nat.eqb];
      try destruct wt; try destruct (w_fq w) eqn:Efq; simpl; rewrite ?Efq; repeat split; assumption.
  Qed.

  Lemma passive_neutral e : passive e = true -> neutral e = true.
  Proof. destruct e; auto. Qed.

  Lemma good_passive F s e : good 0 F s -> passive e = true -> good 0 F (emit e s).
  Proof.
    intros G Hp. pose proof G as [].
    destruct (ws_passive (W s) e Hp g_exp0) as (H1 & H2 & H3 & H4 & H5 & H6 & H7 & H8).
    eapply good_step; [exact G | reflexivity | apply chk_neutral; auto using passive_neutral | ..];
      cbn [emit]; simpl; try congruence.
    eapply sigs_ok_same; eauto.
  Qed.

  (* ---- queue manipulation ---- *)
  Lemma good_set_q n F s a x :
    good n F s -> (forall ent, In ent (eq_entries x) -> sig_known (W s) (next_sig s) (snd ent)) ->
    good n F (set_q s a x).
  Proof.
    intros G Hx. eapply good_same; [exact G | reflexivity ..|].
    apply sigs_ok_set_nth; [apply G | exact Hx].
  Qed.

  Lemma pop_known n F s a e q' :
    good n F s -> q_pop (get_q s a) = Some (e, q') ->
    sig_known (W s) (next_sig s) (snd e) /\
    (forall ent, In ent (eq_entries q') -> sig_known (W s) (next_sig s) (snd ent)).
  Proof.
    intros G Hp. apply q_pop_spec in Hp as [Hin Hsub]. unfold get_q in *.
    split; [|intros ent He; apply Hsub in He]; eapply sigs_ok_nth; eauto; apply G.
  Qed.

  (* ---- signal creation and enqueueing (also inside the exception window: n = 1, then 2) ---- *)
  Lemma good_new_signal n F s sp :
    good n F s -> chk_C02 (W s) (ESigNew (next_sig s) (sp_cls sp) (sp_prio sp) (sp_src sp)) = true ->
    let s1 := snd (new_signal s sp) in
    good (if (n =? 1)%nat then 2 else n) F s1 /\ sig_known (W s1) (next_sig s1) (mk_signal (next_sig s) sp) /\
    (n = 1 -> w_exc_sid (W s1) = next_sig s).
  Proof.
    intros G Hc s1. pose proof G as [].
    assert (Ht : trace s1 = ESigNew (next_sig s) (sp_cls sp) (sp_prio sp) (sp_src sp) :: trace s) by reflexivity.
    pose proof (W_trace _ _ _ Ht) as EW.
    assert (Hsig : w_sig (W s1) = (next_sig s, (sp_cls sp, sp_prio sp, sp_src sp)) :: w_sig (W s)).
    { rewrite EW. cbn [world_step]. destruct (w_expect_exc (W s) =? 1)%nat; reflexivity. }
    split; [|split].
    - eapply good_step; [exact G | exact Ht | exact Hc | | | | |
                         rewrite <- EW; eapply sigs_ok_new; [exact Hsig | exact g_sig0] | | | ];
        cbn [world_step]; rewrite g_exp0; destruct (n =? 1)%nat eqn:E; simpl; auto.
    - eapply sig_known_fresh. exact Hsig.
    - intros ->. rewrite EW. cbn [world_step]. rewrite g_exp0. reflexivity.
  Qed.

  Lemma chk_signew_quiet n F s c p src : good 0 F s -> chk_C02 (W s) (ESigNew n c p src) = true.
  Proof. intros []. apply chk_neutral; auto. Qed.

  Lemma good_do_enqueue n F s sg :
    good n F s -> sig_known (W s) (next_sig s) sg ->
    n = 0 \/ (n = 2 /\ w_exc_sid (W s) = sg_id sg /\ sg_src sg = None) ->
    good 0 F (do_enqueue s sg).
  Proof.
    intros G Hk Hn. pose proof G as []. unfold do_enqueue. destruct (force_quit s) eqn:Efq.
    - eapply good_step; [exact G | reflexivity | ..]; cbn [world_step emit]; rewrite ?g_exp0.
      + unfold chk_C02. rewrite g_nk0, g_exp0.
        destruct Hn as [->|(-> & Hx & _)]; [reflexivity|]. rewrite Hx, g_fq0, Nat.eqb_refl. reflexivity.
      + destruct (n =? 2)%nat; simpl; congruence.
      + destruct (n =? 2)%nat; simpl; congruence.
      + destruct (n =? 2)%nat; simpl; congruence.
      + destruct (n =? 2)%nat; simpl; congruence.
      + eapply sigs_ok_same; [|exact g_sig0]. destruct (n =? 2)%nat; reflexivity.
      + destruct (n =? 2)%nat; simpl; congruence.
      + destruct Hn as [->|(-> & _)]; simpl; auto.
      + destruct (n =? 2)%nat; simpl; congruence.
    - set (q := match route s (rev (levels s)) (sg_src sg) with Some q => q | None => active s end).
      eapply good_step; [exact G | reflexivity | ..]; cbn [world_step emit]; rewrite ?g_exp0.
      + unfold chk_C02. rewrite g_nk0, g_exp0.
        destruct Hn as [->|(-> & Hx & Hs)]; [reflexivity|].
        unfold q. rewrite Hs, route_none, Hx, g_act0, !Nat.eqb_refl. reflexivity.
      + destruct (n =? 2)%nat; simpl; congruence.
      + destruct (n =? 2)%nat; simpl; congruence.
      + destruct (n =? 2)%nat; simpl; congruence.
      + destruct (n =? 2)%nat; simpl; congruence.
      + eapply sigs_ok_same with (w := W s); [destruct (n =? 2)%nat; reflexivity|].
        change (sigs_ok (W s) (next_sig s) (set_nth (qstore s) q (q_put (get_q s q) sg))).
        apply sigs_ok_set_nth; [exact g_sig0|]. intros ent He.
        change (In ent (eq_entries (get_q s q) ++ [(sg_prio sg, eq_counter (get_q s q), sg)])) in He.
        apply in_app_or in He as [He|[<-|[]]]; [|exact Hk]. eapply sigs_ok_nth; eauto.
      + destruct (n =? 2)%nat; simpl; congruence.
      + destruct Hn as [->|(-> & _)]; simpl; auto.
      + destruct (n =? 2)%nat; simpl; congruence.
  Qed.

  (* ---- events whose world effect mirrors a state update ---- *)
  Lemma good_reg_handler F s c h d :
    good 0 F s -> good 0 F (emit (ERegHandler c h d) (s <| handlers := add_handler (handlers s) c h d |>)).
  Proof.
    intros G. pose proof G as [].
    eapply good_step; [exact G | reflexivity | apply chk_neutral; auto | ..]; simpl; auto; try (eapply sigs_ok_same; [|exact g_sig0]; reflexivity).
    - rewrite g_hand0. apply update_add_handler.
  Qed.

  Lemma good_force_quit F s :
    good 0 F s ->
    good 0 F (emit EForceQuit (s <| force_quit := true |> <| levels := [] |> <| run_loop := false |>)).
  Proof.
    intros G. pose proof G as [].
    eapply good_step; [exact G | reflexivity | apply chk_neutral; auto | ..]; simpl; auto; try (eapply sigs_ok_same; [|exact g_sig0]; reflexivity).
  Qed.

  Lemma good_newloop_enter F s :
    good 0 F s ->
    good 0 F (emit (ENewLoopEnter (length (qstore s)))
                   (s <| qstore := qstore s ++ [empty_queue] |> <| active := length (qstore s) |>
                      <| levels := levels s ++ [length (qstore s)] |>)).
  Proof.
    intros G. pose proof G as [].
    eapply good_step; [exact G | reflexivity | apply chk_neutral; auto | ..]; simpl; auto; try (eapply sigs_ok_same; [|exact g_sig0]; reflexivity).
    - now rewrite g_lev0.
    - eapply sigs_ok_same with (w := W s); [reflexivity|]. now apply sigs_ok_app_empty.
  Qed.

  Lemma good_close_pop F s s' top rest_rev :
    good 0 F s -> rev (levels s) = top :: rest_rev ->
    trace s' = EClosePop top :: trace s -> handlers s' = handlers s -> force_quit s' = force_quit s ->
    levels s' = rev rest_rev -> active s' = match rest_rev with q :: _ => q | [] => active s end ->
    qstore s' = qstore s -> next_sig s' = next_sig s ->
    good 0 F s'.
  Proof.
    intros G Hl Ht Hh Hf Hl' Ha Hq Hn. pose proof G as [].
    assert (El : levels s = rev rest_rev ++ [top]).
    { rewrite <- (rev_involutive (levels s)), Hl. reflexivity. }
    assert (Erl : removelast (w_levels (W s)) = rev rest_rev).
    { rewrite g_lev0, El. apply removelast_last. }
    eapply good_step; [exact G | exact Ht | apply chk_neutral; auto | ..]; cbn [world_step]; rewrite Erl;
      unfold last_opt; rewrite rev_involutive; destruct rest_rev as [|q r]; simpl; try congruence.
    1,2: rewrite Hl'; reflexivity. all: rewrite Hn, Hq; exact g_sig0.
  Qed.

  Lemma good_run_enter s :
    good 0 [] s -> good 0 [] (emit ERunEnter (s <| force_quit := false |> <| run_loop := true |>)).
  Proof.
    intros G. pose proof G as [].
    eapply good_step; [exact G | reflexivity | apply chk_neutral; auto | ..]; simpl; auto; try (eapply sigs_ok_same; [|exact g_sig0]; reflexivity).
  Qed.

  Lemma good_top F s : good 0 F s -> good 0 [] (emit ETop s).
  Proof.
    intros G. pose proof G as [].
    eapply good_step; [exact G | reflexivity | apply chk_neutral; auto | ..]; simpl; auto; try (eapply sigs_ok_same; [|exact g_sig0]; reflexivity).
  Qed.

  (* ---- dispatch frames ---- *)
  Definition mkframe (sg : signal) (idx : nat) (b : bool) : frame :=
    {| f_sid := sg_id sg; f_cls := sg_cls sg; f_idx := idx; f_in := b |}.

  Lemma good_dispatch F s sg q d :
    good 0 F s -> sig_known (W s) (next_sig s) sg ->
    good 0 (mkframe sg 0 false :: F) (emit (EDispatch (sg_id sg) q d) s).
  Proof.
    intros G [_ Hc]. pose proof G as [].
    eapply good_step; [exact G | reflexivity | apply chk_neutral; auto | ..]; simpl; auto; try (eapply sigs_ok_same; [|exact g_sig0]; reflexivity).
    - unfold mkframe. rewrite Hc, g_fr0. reflexivity.
  Qed.

  Lemma good_handler_start F s sg idx hs hid data :
    good 0 (mkframe sg idx false :: F) s ->
    handlers_of s (sg_cls sg) = Some hs -> force_quit s = false -> nth_error hs idx = Some (hid, data) ->
    good 0 (mkframe sg idx true :: F) (emit (EHandler hid (sg_id sg) data) s).
  Proof.
    intros G Hh Hf Hn. pose proof G as [].
    eapply good_step; [exact G | reflexivity | | ..]; simpl; auto; try (eapply sigs_ok_same; [|exact g_sig0]; reflexivity).
    - unfold chk_C02. rewrite g_nk0, g_exp0, g_fr0. simpl.
      rewrite (hand_link _ _ _ _ G), Hh, Hn, g_fq0, Hf, !Nat.eqb_refl. reflexivity.
    - rewrite g_fr0. reflexivity.
  Qed.

  Lemma good_handler_end_normal F s sg idx hid :
    good 0 (mkframe sg idx true :: F) s ->
    good 0 (mkframe sg (S idx) false :: F) (emit (EHandlerEnd hid (sg_id sg) None) s).
  Proof.
    intros G. pose proof G as [].
    eapply good_step; [exact G | reflexivity | | ..]; simpl; auto; try (eapply sigs_ok_same; [|exact g_sig0]; reflexivity).
    - unfold chk_C02. rewrite g_nk0, g_exp0, g_fr0. simpl. rewrite Nat.eqb_refl. reflexivity.
    - rewrite g_fr0. simpl. rewrite Nat.eqb_refl. reflexivity.
  Qed.

  Lemma good_handler_end_error F s sg idx hid :
    good 0 (mkframe sg idx true :: F) s ->
    good 1 (mkframe sg (S idx) false :: F) (emit (EHandlerEnd hid (sg_id sg) (Some XError)) s).
  Proof.
    intros G. pose proof G as [].
    eapply good_step; [exact G | reflexivity | | ..]; simpl; auto; try (eapply sigs_ok_same; [|exact g_sig0]; reflexivity).
    - unfold chk_C02. rewrite g_nk0, g_exp0, g_fr0. simpl. rewrite Nat.eqb_refl. reflexivity.
    - rewrite g_fr0. simpl. rewrite Nat.eqb_refl. reflexivity.
  Qed.

  Lemma good_handler_end_exit F s sg idx hid x :
    x <> XError ->
    good 0 (mkframe sg idx true :: F) s ->
    good 0 F (emit (EHandlerEnd hid (sg_id sg) (Some x)) s).
  Proof.
    intros Hx G. pose proof G as [].
    eapply good_step; [exact G | reflexivity | | ..]; destruct x; try congruence; simpl; auto;
      try (eapply sigs_ok_same; [|exact g_sig0]; reflexivity);
      try (rewrite g_fr0; simpl; rewrite Nat.eqb_refl; reflexivity);
      unfold chk_C02; rewrite g_nk0, g_exp0, g_fr0; simpl; rewrite Nat.eqb_refl; reflexivity.
  Qed.

  Lemma good_dispatch_end F s sg idx :
    good 0 (mkframe sg idx false :: F) s ->
    force_quit s = true \/ idx = hlen s (sg_cls sg) ->
    good 0 F (emit (EDispatchEnd (sg_id sg)) s).
  Proof.
    intros G Hd. pose proof G as [].
    eapply good_step; [exact G | reflexivity | | ..]; simpl; auto; try (eapply sigs_ok_same; [|exact g_sig0]; reflexivity).
    - unfold chk_C02. rewrite g_nk0, g_exp0, g_fr0. simpl.
      rewrite (hand_link _ _ _ _ G), g_fq0, Nat.eqb_refl. simpl.
      destruct Hd as [->| ->]; [reflexivity|]. unfold hlen. rewrite Nat.eqb_refl. apply orb_true_r.
    - rewrite g_fr0. reflexivity.
  Qed.

  (* ---- the kill, and unwinding after it ---- *)
  Definition dead s : Prop := acc s /\ w_killed (W s) = true.

  Lemma dead_kill F s sg :
    good 0 (mkframe sg 0 false :: F) s -> sg_cls sg = CLS_EXCEPTION -> handlers_of s CLS_EXCEPTION = None ->
    dead (emit EKill s).
  Proof.
    intros G Hc Hh. pose proof G as []. split.
    - eapply acc_step; [exact g_acc0 | reflexivity|].
      unfold chk_C02. rewrite g_nk0, g_exp0, g_fr0. simpl.
      rewrite (hand_link _ _ _ _ G), Hh, Hc. reflexivity.
    - rewrite W_emit. reflexivity.
  Qed.

  Lemma dead_unwind s h sid : dead s -> dead (emit (EHandlerEnd h sid (Some XSysExit)) s).
  Proof.
    intros [Ha Hk]. split.
    - eapply acc_step; [exact Ha | reflexivity|]. unfold chk_C02. rewrite Hk. reflexivity.
    - rewrite W_emit. simpl. exact Hk.
  Qed.
End Link.
