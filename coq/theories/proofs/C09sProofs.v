(* C09sProofs.v -- the screen-level part of C09: run() refuses an empty stack, closing the last screen
   ends the loop, an empty stack ends the handler with ExitMainLoop, and ExitMainLoop reaches run(). *)
From SL Require Import Tac.
From RecordUpdate Require Import RecordUpdate.
From SL Require Import PyInt LoopSem ScreenSem ScreenMon proofs.C02Proofs proofs.ScreenLink.
Import ListNotations.

Lemma ust_eta {U} (s : lstate U) : s <| ust := ust s |> = s.
Proof. destruct s; reflexivity. Qed.

(* ---------------------------------------------------------------- 1. App.run() and the empty stack *)
Definition continue_session (specs : nat -> screen_spec) (fuel : nat) (r : list saction)
           (res : outcome * lstate sstate) : list outcome * lstate sstate :=
  let '(o, s1) := res in
  match o with
  | OBlocked | OFuel | OThrow XSysExit => ([o], s1)
  | _ => let '(os, s2) := app_session specs fuel r s1 in (o :: os, s2)
  end.

Lemma run_refuses_empty specs fuel r s :
  st_stack (ust s) = [] -> st_run_empty (ust s) = false ->
  app_session specs fuel (SARun :: r) s = continue_session specs fuel r (OThrow XError, emit ETop s).
Proof. intros H1 H2. cbn [app_session continue_session]. rewrite H1, H2. reflexivity. Qed.

Lemma run_refuses_empty_events specs fuel r s :
  st_stack (ust s) = [] -> st_run_empty (ust s) = false ->
  app_session specs fuel (SARun :: r) s =
  (OThrow XError :: fst (app_session specs fuel r (emit ETop s)), snd (app_session specs fuel r (emit ETop s))).
Proof.
  intros H1 H2. rewrite run_refuses_empty by assumption. cbn [continue_session].
  destruct (app_session specs fuel r (emit ETop s)); reflexivity.
Qed.

Lemma run_starts specs fuel r s :
  st_stack (ust s) <> [] \/ st_run_empty (ust s) = true ->
  app_session specs fuel (SARun :: r) s =
  continue_session specs fuel r (exec (screen_code specs) fuel CRun (emit ETop s)).
Proof.
  intros H. cbn [app_session continue_session].
  destruct (st_stack (ust s)) as [|d l] eqn:E1; [|reflexivity].
  destruct H as [H|H]; [congruence|]. rewrite H. reflexivity.
Qed.

(* ---------------------------------------------------------------- one-step equations of [exec] on programs *)
Section Steps.
  Context {U : Type} (code : nat -> signal -> nat -> prog U).
  Lemma exec_seq f p q (s : lstate U) : exec code (S f) (CProg (PSeq p q)) s =
    let '(o, s1) := exec code f (CProg p) s in match o with ONormal => exec code f (CProg q) s1 | _ => (o, s1) end.
  Proof. reflexivity. Qed.
  Lemma exec_try f p h (s : lstate U) : exec code (S f) (CProg (PTry p h)) s =
    let '(o, s1) := exec code f (CProg p) s in match o with OThrow XError => exec code f (CProg h) s1 | _ => (o, s1) end.
  Proof. reflexivity. Qed.
  Lemma exec_st f g (s : lstate U) : exec code (S f) (CProg (PSt g)) s =
    exec code f (CProg (snd (g (ust s)))) (s <| ust := fst (g (ust s)) |>).
  Proof. cbn [exec]. destruct (g (ust s)); reflexivity. Qed.
  Lemma exec_emit f e (s : lstate U) : exec code (S f) (CProg (PEmit e)) s = (ONormal, emit (user_event e) s).
  Proof. reflexivity. Qed.
  Lemma exec_ret f (s : lstate U) : exec code (S f) (CProg PRet) s = (ONormal, s).
  Proof. reflexivity. Qed.
  Lemma exec_throw f x (s : lstate U) : exec code (S f) (CProg (PThrow x)) s = (OThrow x, s).
  Proof. reflexivity. Qed.
End Steps.
Ltac xstep := first [rewrite exec_seq | rewrite exec_st | rewrite exec_emit | rewrite exec_ret | rewrite exec_throw];
              cbv beta match zeta; cbn [fst snd user_event].

(* ---------------------------------------------------------------- 2. close_screen *)
Section Close.
  Variable specs : nat -> screen_spec.
  Notation code := (screen_code specs).
  Definition AccT (s : lstate sstate) : Prop := True.
  Lemma AccT_same (s s' : lstate sstate) : trace s' = trace s -> AccT s -> AccT s'.
  Proof. intros _ _. exact I. Qed.
  Notation wp := (wp code AccT).

  (* the postcondition: a normal return leaves a non-empty stack *)
  Definition Qne (o : outcome) (s' : lstate sstate) : Prop := o = ONormal -> st_stack (ust s') <> [].

  Lemma wp_any n p s : wp n p s (fun _ _ => True).
  Proof. split; [exact I|]. intros f _ o s' _. destruct o; exact I. Qed.

  (* whatever p does, the verdict is the one of the last statement *)
  Lemma wp_skip n p q s : (forall s1, wp n q s1 Qne) -> wp n (PSeq p q) s Qne.
  Proof.
    intros Hq. apply (wp_seq code AccT AccT_same). eapply (wp_conseq code AccT AccT_same); [apply wp_any|].
    intros o s1 _ _ _. unfold K. destruct o; try (intros E; discriminate E). apply Hq.
  Qed.

  Lemma close_screen_wp n cf s : wp n (close_screen specs cf) s Qne.
  Proof.
    unfold close_screen. apply wp_skip. intros s1. apply (wp_st code AccT AccT_same). cbn [fst snd].
    destruct (st_stack (ust s1)) as [|top r].
    { apply (wp_throw code AccT AccT_same); [exact I | intros E; discriminate E]. }
    do 6 (apply wp_skip; intros ?).
    apply (wp_st code AccT AccT_same). cbn [fst snd].
    match goal with |- context [st_stack (ust ?x)] => destruct (st_stack (ust x)) eqn:E end.
    - apply (wp_throw code AccT AccT_same); [exact I | intros E0; discriminate E0].
    - apply (wp_ret code AccT AccT_same); [exact I|]. intros _. cbn [ust set]. rewrite E. discriminate.
  Qed.

  Lemma close_normal_nonempty f cf s o s' :
    exec code f (CProg (close_screen specs cf)) s = (o, s') -> o = ONormal -> st_stack (ust s') <> [].
  Proof.
    intros E Ho. destruct (close_screen_wp f cf s) as [_ H]. specialize (H f (Nat.le_refl f) o s' E).
    subst o. exact (H eq_refl).
  Qed.

  Lemma close_empties_not_normal f cf s o s' :
    exec code f (CProg (close_screen specs cf)) s = (o, s') -> st_stack (ust s') = [] -> o <> ONormal.
  Proof. intros E Hs Ho. exact (close_normal_nonempty f cf s o s' E Ho Hs). Qed.

  (* the last screen, not modal, closed by the scheduler itself, no closed() commands:
     exactly ExitMainLoop, after T_OP, the pop and closed() *)
  Lemma close_last_exits f s top :
    st_stack (ust s) = [top] -> sd_modal top = false -> sc_closed (specs (sd_scr top)) = [] ->
    exists s', exec code (30 + f) (CProg (close_screen specs None)) s = (OThrow XExit, s') /\
      trace s' = [EUser T_CLOSED [sd_id top; sd_scr top] [];
                  EUser T_STACK [K_POP; sd_id top; sd_scr top; sd_args top; 0] [];
                  EUser T_OP [O_CLOSE; 0; 0] []] ++ trace s /\
      st_stack (ust s') = [].
  Proof.
    intros Hs Hm Hc. cbn [Nat.add].
    unfold close_screen, call_closed, ev_stack, ev, rd, wr.
    do 3 xstep. unfold emit at 1. cbn [ust set]. rewrite Hs. cbv beta match.
    rewrite Hc, Hm. cbn [do_scmds b2n]. cbv beta match.
    repeat (xstep; cbn [ust set st_stack upd_scr emit]; cbv beta match).
    eexists. split; [reflexivity|]. cbn [trace ust set st_stack upd_scr emit app]. split; reflexivity.
  Qed.

  (* ---------------------------------------------------------------- 3. an empty stack ends the handler *)
  Lemma process_screen_empty_exits f s :
    st_stack (ust s) = [] -> exec code (S (S f)) (CProg (process_screen specs)) s = (OThrow XExit, s).
  Proof.
    intros Hs. unfold process_screen, with_top, rd. rewrite exec_st. cbn [fst snd]. rewrite Hs.
    rewrite exec_throw, ust_eta. reflexivity.
  Qed.

  Lemma process_input_result_empty_exits f act sr s :
    st_stack (ust s) = [] -> exec code (S (S f)) (CProg (process_input_result specs act sr)) s = (OThrow XExit, s).
  Proof.
    intros Hs. unfold process_input_result, with_top, rd. rewrite exec_st. cbn [fst snd]. rewrite Hs.
    rewrite exec_throw, ust_eta. reflexivity.
  Qed.
End Close.

(* ---------------------------------------------------------------- 4. ExitMainLoop reaches run() *)
Section Exit.
  Context {U : Type} (code : nat -> signal -> nat -> prog U).
  Implicit Types s : lstate U.

  (* through the statements of a handler body: ';' and try/except Exception let it pass *)
  Lemma exit_through_seq_l f p q s s1 :
    exec code f (CProg p) s = (OThrow XExit, s1) -> exec code (S f) (CProg (PSeq p q)) s = (OThrow XExit, s1).
  Proof. intros E. rewrite exec_seq, E. reflexivity. Qed.
  Lemma exit_through_seq_r f p q s s1 s2 :
    exec code f (CProg p) s = (ONormal, s1) -> exec code f (CProg q) s1 = (OThrow XExit, s2) ->
    exec code (S f) (CProg (PSeq p q)) s = (OThrow XExit, s2).
  Proof. intros E1 E2. rewrite exec_seq, E1. exact E2. Qed.
  Lemma exit_through_try f p h s s1 :
    exec code f (CProg p) s = (OThrow XExit, s1) -> exec code (S f) (CProg (PTry p h)) s = (OThrow XExit, s1).
  Proof. intros E. rewrite exec_try, E. reflexivity. Qed.

  (* out of _process_signal: the handler's end is recorded, no ExceptionSignal, the other handlers do not run *)
  Lemma exit_through_dispatch f sg idx s hs hid data s2 :
    handlers_of (ps_state sg idx s) (sg_cls sg) = Some hs -> force_quit (ps_state sg idx s) = false ->
    nth_error hs idx = Some (hid, data) ->
    exec code f (CProg (code hid sg data)) (emit (EHandler hid (sg_id sg) data) (ps_state sg idx s)) = (OThrow XExit, s2) ->
    exec code (S f) (CProcessSignal sg idx) s = (OThrow XExit, emit (EHandlerEnd hid (sg_id sg) (Some XExit)) s2).
  Proof. intros Hh Hf Hn He. cbn [exec]. fold (ps_state sg idx s). rewrite Hh, Hf, Hn, He. reflexivity. Qed.

  (* an earlier handler of the same dispatch returned normally *)
  Lemma exit_through_dispatch_next f sg idx s hs hid data s2 s3 :
    handlers_of (ps_state sg idx s) (sg_cls sg) = Some hs -> force_quit (ps_state sg idx s) = false ->
    nth_error hs idx = Some (hid, data) ->
    exec code f (CProg (code hid sg data)) (emit (EHandler hid (sg_id sg) data) (ps_state sg idx s)) = (ONormal, s2) ->
    exec code f (CProcessSignal sg (S idx)) (emit (EHandlerEnd hid (sg_id sg) None) s2) = (OThrow XExit, s3) ->
    exec code (S f) (CProcessSignal sg idx) s = (OThrow XExit, s3).
  Proof. intros Hh Hf Hn He E2. cbn [exec]. fold (ps_state sg idx s). rewrite Hh, Hf, Hn, He. exact E2. Qed.

  Lemma exit_through_procloop f s sg s1 s3 :
    run_loop s = true -> do_get s = inl (Some (sg, s1)) ->
    exec code f (CProcessSignal sg 0) (emit (EDispatch (sg_id sg) (active s) (length (levels s))) s1) = (OThrow XExit, s3) ->
    exec code (S f) CProcLoop s = (OThrow XExit, s3).
  Proof. intros Hr Hg He. cbn [exec]. rewrite Hr, Hg, He. reflexivity. Qed.

  Lemma exit_through_procloop_next f s sg s1 s3 s4 :
    run_loop s = true -> do_get s = inl (Some (sg, s1)) ->
    exec code f (CProcessSignal sg 0) (emit (EDispatch (sg_id sg) (active s) (length (levels s))) s1) = (ONormal, s3) ->
    exec code f CProcLoop s3 = (OThrow XExit, s4) ->
    exec code (S f) CProcLoop s = (OThrow XExit, s4).
  Proof. intros Hr Hg He E2. cbn [exec]. rewrite Hr, Hg, He. exact E2. Qed.

  Lemma exit_through_mainloop f s s1 :
    run_loop s = true -> exec code f CProcLoop s = (OThrow XExit, s1) -> exec code (S f) CMainloop s = (OThrow XExit, s1).
  Proof. intros Hr He. cbn [exec]. rewrite Hr, He. reflexivity. Qed.

  Lemma exit_through_mainloop_next f s s1 s2 :
    run_loop s = true -> exec code f CProcLoop s = (ONormal, s1) -> exec code f CMainloop s1 = (OThrow XExit, s2) ->
    exec code (S f) CMainloop s = (OThrow XExit, s2).
  Proof. intros Hr He E2. cbn [exec]. rewrite Hr, He. exact E2. Qed.

  (* out of a nested loop (execute_new_loop, i.e. a modal screen): no ENewLoopReturn *)
  Definition newloop_entry (s : lstate U) (sp : sigspec) : lstate U :=
    let '(sg, s1) := new_signal s sp in
    let q := length (qstore s1) in
    do_enqueue (emit (ENewLoopEnter q)
                     (s1 <| qstore := qstore s1 ++ [empty_queue] |> <| active := q |> <| levels := levels s1 ++ [q] |>)) sg.

  Lemma exit_through_newloop f s sp s4 :
    force_quit s = false ->
    exec code f CMainloop (newloop_entry s sp) = (OThrow XExit, s4) ->
    exec code (S f) (CApi (ANewLoop sp)) s = (OThrow XExit, s4).
  Proof.
    intros Hf He. unfold newloop_entry in He. cbn [new_signal] in He. cbn [exec new_signal].
    change (force_quit (emit (ESigNew (next_sig s) (sp_cls sp) (sp_prio sp) (sp_src sp)) (s <| next_sig := S (next_sig s) |>)))
      with (force_quit s). rewrite Hf, He. reflexivity.
  Qed.

  Lemma exit_through_papi f a s s1 :
    exec code f (CApi a) s = (OThrow XExit, s1) -> exec code (S f) (CProg (PApi a)) s = (OThrow XExit, s1).
  Proof. intros E. exact E. Qed.

  (* run(): except ExitMainLoop: pass; the quit callback; return *)
  Lemma exit_ends_run f s s1 :
    exec code f CMainloop (run_entry s) = (OThrow XExit, s1) ->
    exec code (S f) CRun s = (ONormal, run_exit s1) /\
    trace (run_exit s1) = ERunReturn :: match quit_cb s1 with Some a => [EQuitCb a] | None => [] end ++ trace s1.
  Proof.
    intros E. split; [rewrite run_cases, E; reflexivity|].
    unfold run_exit. destruct (quit_cb s1); reflexivity.
  Qed.

  (* ExitMainLoop is the only exception run() swallows *)
  Lemma run_swallows_only_exit f s s' :
    exec code (S f) CRun s = (ONormal, s') ->
    exists s1, s' = run_exit s1 /\
               (exec code f CMainloop (run_entry s) = (ONormal, s1) \/
                exec code f CMainloop (run_entry s) = (OThrow XExit, s1)).
  Proof. exact (run_normal_only code f s s'). Qed.
End Exit.
